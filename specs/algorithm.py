"""Contracts for esutil/algorithm.py  (property C20: sorting, index splitting)."""
from esvc.speclang import contract, domain, spec


# --------------------------------------------------------------------------- ghost predicates (prover only)
def Perm(data, h, pivot, porg, start, end, olddata):
    # cells other than the hole h are distinct old cells of the range; the pivot is one more old cell
    return (start <= porg and porg <= end and pivot == olddata[porg]
            and all(start <= org(data)[i] and org(data)[i] <= end and data[i] == olddata[org(data)[i]]
                    and org(data)[i] != porg for i in range(start, end + 1) if i != h)
            and all(org(data)[i] != org(data)[j] for i in range(start, end + 1) for j in range(start, end + 1)
                    if i != j and i != h and j != h)
            and all(data[i] == olddata[i] and org(data)[i] == i for i in range(0, len(data)) if i < start or i > end)
            and len(data) == len(olddata))


def Low(data, a, b, pivot):
    return all(data[i] <= pivot for i in range(a, b + 1))


def High(data, a, b, pivot):
    return all(data[i] >= pivot for i in range(a, b + 1))


_PART_COMMON = "start <= top and top <= end and High(data, top + 1, end, pivot) and end < len(data) and 0 <= start"

contract(
    "esutil.algorithm.partition",
    params=dict(data="arr[int]", start="int", end="int"),
    returns="int",
    requires={"range": "0 <= start and start <= end and end < len(data)"},
    ensures={
        "split-in-range": "start <= result and result <= end",
        "left-le-pivot": "all(data[i] <= data[result] for i in range(start, result))",
        "right-ge-pivot": "all(data[i] >= data[result] for i in range(result + 1, end + 1))",
        "permutation": "permutation(data, old(data), start, end)",
    },
    modifies=["data"],
    loops={
        "L0": dict(inv={
            "bounds": _PART_COMMON,
            "state": "(done != 0 and bottom == top and Low(data, start, top - 1, pivot))"
                     " or (done == 0 and start - 1 <= bottom and bottom < top and Low(data, start, bottom, pivot))",
            "perm": "Perm(data, top, pivot, prov(pivot), start, end, old(data))",
        }),
        "L0.0": dict(inv={
            "bounds": _PART_COMMON,
            "state": "done == 0 and start - 1 <= bottom and bottom < top and Low(data, start, bottom, pivot)",
            "perm": "Perm(data, top, pivot, prov(pivot), start, end, old(data))",
        }, dec="top - bottom"),
        "L0.1": dict(inv={
            "bounds": "start <= top and top <= end and end < len(data) and 0 <= start",
            "state": "(done != 0 and bottom == top and Low(data, start, top - 1, pivot) and High(data, top + 1, end, pivot)"
                     "  and Perm(data, top, pivot, prov(pivot), start, end, old(data)))"
                     " or (done == 0 and start <= bottom and bottom < top and Low(data, start, bottom - 1, pivot)"
                     "  and High(data, top, end, pivot) and Perm(data, bottom, pivot, prov(pivot), start, end, old(data)))",
        }, dec="top - bottom + (1 if done == 0 else 0)"),
    },
    props=["C20"],
    elem="totally ordered elements modelled as mathematical integers (only <, >, == are applied to them)",
)

contract(
    "esutil.algorithm._quicksort",
    params=dict(data="arr[int]", start="int", end="int"),
    requires={"range": "0 <= start and end < len(data) and start <= end + 1"},
    ensures={
        "sorted": "is_sorted(data, start, end)",
        "permutation": "permutation(data, old(data), start, end)",
    },
    modifies=["data"],
    decreases="end - start + 1",
    props=["C20"],
)

contract(
    "esutil.algorithm.quicksort",
    params=dict(data="arr[int]"),
    ensures={
        "sorted": "is_sorted(data, 0, len(data) - 1)",
        "permutation": "permutation(data, old(data), 0, len(data) - 1)",
    },
    modifies=["data"],
    props=["C20"],
)


# --------------------------------------------------------------------------- key/value variant
def Follow(keys, data, h, pivot_data, dorg, porg, start, end, olddata):
    # the value array carries the same origin map as the key array (pairs stay together)
    return (dorg == porg and pivot_data == olddata[dorg]
            and all(org(data)[i] == org(keys)[i] and data[i] == olddata[org(data)[i]]
                    for i in range(start, end + 1) if i != h)
            and all(data[i] == olddata[i] and org(data)[i] == i for i in range(0, len(data)) if i < start or i > end)
            and len(data) == len(olddata) and len(data) == len(keys))


_KV_COMMON = "start <= top and top <= end and High(keys, top + 1, end, pivot) and end < len(keys) and 0 <= start"
_KV_PERM = ("Perm(keys, {h}, pivot, prov(pivot), start, end, old(keys))"
            " and Follow(keys, data, {h}, pivot_data, prov(pivot_data), prov(pivot), start, end, old(data))")

contract(
    "esutil.algorithm.partition_keyvalue",
    params=dict(keys="arr[int]", data="arr[int]", start="int", end="int"),
    returns="int",
    requires={"range": "0 <= start and start <= end and end < len(keys) and len(keys) == len(data)"},
    ensures={
        "split-in-range": "start <= result and result <= end",
        "left-le-pivot": "all(keys[i] <= keys[result] for i in range(start, result))",
        "right-ge-pivot": "all(keys[i] >= keys[result] for i in range(result + 1, end + 1))",
        "permutation": "permutation(keys, old(keys), start, end)",
        "pairs-kept": "pairs_kept(keys, data, old(keys), old(data), start, end)",
    },
    modifies=["keys", "data"],
    loops={
        "L0": dict(inv={
            "bounds": _KV_COMMON,
            "state": "(done != 0 and bottom == top and Low(keys, start, top - 1, pivot))"
                     " or (done == 0 and start - 1 <= bottom and bottom < top and Low(keys, start, bottom, pivot))",
            "perm": _KV_PERM.format(h="top"),
        }),
        "L0.0": dict(inv={
            "bounds": _KV_COMMON,
            "state": "done == 0 and start - 1 <= bottom and bottom < top and Low(keys, start, bottom, pivot)",
            "perm": _KV_PERM.format(h="top"),
        }, dec="top - bottom"),
        "L0.1": dict(inv={
            "bounds": "start <= top and top <= end and end < len(keys) and 0 <= start",
            "state": "(done != 0 and bottom == top and Low(keys, start, top - 1, pivot) and High(keys, top + 1, end, pivot)"
                     "  and " + _KV_PERM.format(h="top") + ")"
                     " or (done == 0 and start <= bottom and bottom < top and Low(keys, start, bottom - 1, pivot)"
                     "  and High(keys, top, end, pivot) and " + _KV_PERM.format(h="bottom") + ")",
        }, dec="top - bottom + (1 if done == 0 else 0)"),
    },
    props=["C20"],
)

contract(
    "esutil.algorithm._quicksort_keyvalue",
    params=dict(keys="arr[int]", data="arr[int]", start="int", end="int"),
    requires={"range": "0 <= start and end < len(keys) and start <= end + 1 and len(keys) == len(data)"},
    ensures={
        "sorted": "is_sorted(keys, start, end)",
        "permutation": "permutation(keys, old(keys), start, end)",
        "pairs-kept": "pairs_kept(keys, data, old(keys), old(data), start, end)",
    },
    modifies=["keys", "data"],
    decreases="end - start + 1",
    props=["C20"],
)

contract(
    "esutil.algorithm.quicksort_keyvalue",
    params=dict(keys="arr[int]", data="arr[int]"),
    requires={"same-length": "len(keys) == len(data)"},
    ensures={
        "sorted": "is_sorted(keys, 0, len(keys) - 1)",
        "permutation": "permutation(keys, old(keys), 0, len(keys) - 1)",
        "pairs-kept": "pairs_kept(keys, data, old(keys), old(data), 0, len(keys) - 1)",
    },
    modifies=["keys", "data"],
    props=["C20"],
)


# --------------------------------------------------------------------------- bounded domains (run-time evaluation)
import itertools as _it


def _arrays(maxn, vals):
    for n in range(0, maxn + 1):
        for t in _it.product(vals, repeat=n):
            yield list(t)


@domain("esutil.algorithm.partition")
def _dom_partition(tier, seed):
    maxn = 4 if tier == "quick" else 6
    for data in _arrays(maxn, (0, 1, 2)):
        for s in range(len(data)):
            for e in range(s, len(data)):
                yield dict(args=[list(data), s, e])


@domain("esutil.algorithm.quicksort")
def _dom_quicksort(tier, seed):
    import numpy as np
    import random
    maxn = 5 if tier == "quick" else 7
    for data in _arrays(maxn, (0, 1, 2)):
        yield dict(args=[list(data)])
    rng = random.Random(seed)
    for k in range(50 if tier == "quick" else 2000):
        n = rng.randint(0, 40)
        yield dict(args=[np.array([rng.randint(-5, 5) for _ in range(n)], dtype="i8")])
        yield dict(args=[np.array(sorted(rng.random() for _ in range(n)))])
        # every numerical element type, values up to the ends of its range; unordered floats; descending input
        dt = np.dtype(rng.choice(["u1", "u2", "u4", "u8", "i1", "i2", "i4", "i8", "f4", "f8"]))
        if dt.kind == "f":
            vals = [rng.choice([0.0, -0.0, 1.5, -1.5, rng.uniform(-1e30, 1e30), float("inf"), float("-inf")]) for _ in range(n)]
        else:
            info = np.iinfo(dt)
            vals = [rng.choice([info.min, info.max, info.max // 2, info.min // 2, 0, 1, 8, rng.randint(info.min, info.max)]) for _ in range(n)]
        yield dict(args=[np.array(vals, dtype=dt)])
        yield dict(args=[np.array(sorted(vals, reverse=True), dtype=dt)])


@domain("esutil.algorithm.quicksort_keyvalue")
def _dom_quicksort_kv(tier, seed):
    import random
    maxn = 4 if tier == "quick" else 6
    for keys in _arrays(maxn, (0, 1, 2)):
        yield dict(args=[list(keys), list(range(len(keys)))])
    rng = random.Random(seed)
    for k in range(50 if tier == "quick" else 2000):
        n = rng.randint(0, 40)
        yield dict(args=[[rng.randint(-5, 5) for _ in range(n)], [rng.randint(0, 3) for _ in range(n)]])
        import numpy as np
        dt = np.dtype(rng.choice(["u1", "u2", "u8", "i1", "i8", "f8"]))
        if dt.kind == "f":
            keys = [rng.uniform(-3, 3) for _ in range(n)]
        else:
            info = np.iinfo(dt)
            keys = [rng.choice([info.min, info.max, 0, 8, rng.randint(info.min, info.max)]) for _ in range(n)]
        yield dict(args=[np.array(keys, dtype=dt), np.arange(n)])


@domain("esutil.algorithm.partition_keyvalue")
def _dom_partition_kv(tier, seed):
    maxn = 4 if tier == "quick" else 5
    for keys in _arrays(maxn, (0, 1, 2)):
        for s in range(len(keys)):
            for e in range(s, len(keys)):
                yield dict(args=[list(keys), list(range(10, 10 + len(keys))), s, e])


# --------------------------------------------------------------------------- isplit
contract(
    "esutil.algorithm.isplit",
    params=dict(num="nat", nchunks="int"),
    returns="struct[start:int,end:int]",
    raises=[("ValueError", "nchunks <= 0", "iff")],
    ensures={
        "count": "len(result) == nchunks",
        "first-starts-at-0": "result['start'][0] == 0",
        "contiguous": "all(result['end'][i] == result['start'][i + 1] for i in range(0, nchunks - 1))",
        "last-ends-at-num": "result['end'][nchunks - 1] == num",
        "sizes-differ-by-at-most-one-larger-first":
            "all(result['end'][i] - result['start'][i] == num // nchunks + (1 if i < num % nchunks else 0)"
            " for i in range(0, nchunks))",
    },
    rt_ensures={"a-new-array-on-every-call (what a caller does with one result cannot reach the next call)":
                "isplit_is_fresh(num, nchunks, result)"},
    asserts={
        "L0:before": {
            # closed form of the cumulative sum of [0] + extras*[q+1] + (nchunks-extras)*[q]
            "cumsum-closed-form": "induct(k, 0, nchunks, div_points[k] == k * neach_section + (k if k < extras else extras))",
        },
    },
    loops={
        "L0": dict(counter="k", inv={
            "filled": "all(subs['start'][j] == div_points[j] and subs['end'][j] == div_points[j + 1] for j in range(0, k))",
            "shape": "len(subs) == nchunks and len(div_points) == nchunks + 1",
        }),
    },
    props=["C20"],
)


def isplit_is_fresh(num, nchunks, result):
    """bounded only: the prover sees the function body, not a decorator or a cache wrapped around it"""
    import numpy as np
    import esutil.algorithm as alg
    if nchunks <= 0:
        return True
    again = alg.isplit(num, nchunks)
    if again is result or np.shares_memory(again, result):
        return False
    keep = result.copy()
    again["start"] += 7
    again["end"] -= 3
    third = alg.isplit(num, nchunks)
    return bool(np.array_equal(third, keep))


@domain("esutil.algorithm.isplit")
def _dom_isplit(tier, seed):
    hi_n, hi_c = (40, 15) if tier == "quick" else (200, 60)
    for num in range(0, hi_n + 1):
        for nchunks in range(-1, hi_c + 1):
            yield dict(args=[num, nchunks])
