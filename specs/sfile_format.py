"""Contracts for the Python side of the self-describing record files (esutil/sfile.py): properties C01, C03, C04.

The bytes on disk are produced and parsed by C++ (records.cpp: fwrite / fread / fprintf / fscanf), which no contract here can
reach: those are bounded stand-ins (specs/sfile_bounded.py).  What is proved is the bookkeeping the C++ layer is driven by:
which appends are accepted, that a rejected append changes nothing in the handle, that the cached row count and the header
entry move together with every accepted write, and the header / key handling."""
from esvc.speclang import contract, domain

# ------------------------------------------------------------------------------------------------ append compatibility
_FILE = "ab"            # the table already in the file has fields a, b (symbolic type strings and sub-array shapes)


def _dtype_ty(names):
    return "[" + ",".join("%s:int" % n for n in names) + "]"


def _same(names_f, names_d, text):
    """the statement's compatibility relation as a spec expression (None: structurally incompatible)"""
    if list(names_f) != list(names_d):
        return None
    parts = []
    for n in names_f:
        if text:
            parts.append("field_type(self._dtype, '%s')[1:] == field_type(data, '%s')[1:]" % (n, n))
        else:
            parts.append("field_type(self._dtype, '%s') == field_type(data, '%s')" % (n, n))
        parts.append("field_subshape(self._dtype, '%s') == field_subshape(data, '%s')" % (n, n))
    return " and ".join(parts)


for _dn in (("a", "b"), ("b", "a"), ("a",), ("a", "b", "c"), ("a", "z")):
    for _text in (False, True):
        _ok = _same(_FILE, _dn, _text)
        contract(
            "esutil.sfile.SFile._ensure_compatible_dtype#%s:%s" % ("text" if _text else "binary", ",".join(_dn)),
            runtime_name="esutil.sfile.SFile._ensure_compatible_dtype",
            params=dict(self="obj:SFile{_dtype:sdtype%s,_delim:%s}" % (_dtype_ty(_FILE), "const:';'" if _text else "none"),
                        data="sstruct" + _dtype_ty(_dn)),
            raises=[("ValueError", "True" if _ok is None else "not (%s)" % _ok, "iff")],
            ensures={"accepted-only-when-compatible": "True" if _ok is None else _ok},
            props=["C03", "C04" if _text else "C01"], runtime=False,
        )

contract(
    "esutil.sfile.SFile._ensure_compatible_dtype#empty-file",
    runtime_name="esutil.sfile.SFile._ensure_compatible_dtype",
    params=dict(self="obj:SFile{_dtype:none,_delim:none}", data="sstruct[a:int]"),
    ensures={"first-write-accepts-any-table": "True"},
    props=["C03"], runtime=False,
)


# ------------------------------------------------------------------------------------------------ row-count bookkeeping
# The C++ Records object as a ghost record: the row count stored in the file's SIZE line and the number of rows appended.
_REC = "obj:Records{size_line:int,rows_written:int}"
contract("records.Records.update_row_count", params=dict(self=_REC, n="int"), assumed=True, lang="c++", runtime=False,
         why_assumed="C++ (records.cpp Records::update_row_count): rewrites the fixed-width SIZE line in place with the given count and "
                     "returns to the end of the file; nothing else in the file changes (bounded: sfile_bounded.py)",
         ensures={"size-line-holds-the-count": "self.size_line == n", "rows-untouched": "self.rows_written == old(self.rows_written)"},
         modifies=["self.size_line"], post_types={"self.size_line": "int"}, props=["C03"])

_RECF = "obj:Recfile{robj:%s,nrows:int,is_ascii:bool}" % _REC
contract("esutil.recfile.Util.Recfile.write#rows", params=dict(self=_RECF, data="sstruct[a:int,b:int]"), assumed=True, runtime=False,
         why_assumed="ghost effect of Recfile.write on the abstract file: the rows of the table are appended (the method's frame is "
                     "proved in esutil.recfile.Util.Recfile.write; the bytes are C++)",
         ensures={"rows-appended": "self.robj.rows_written == old(self.robj.rows_written) + len(data)"},
         modifies=["self.robj.rows_written"], post_types={"self.robj.rows_written": "int"}, props=["C03"])

_HDR = "obj:dict{['_SIZE']:int,['_DTYPE']:opaque,['_VERSION']:opaque}"
_SF = "obj:SFile{_size:int,_hdr:%s,_robj:%s}" % (_HDR, _RECF)

contract(
    "esutil.sfile.SFile._update_size",
    params=dict(self=_SF, size_add="nat"),
    requires={"handle-consistent": "self._size == self._hdr['_SIZE'] and self._size == self._robj.robj.size_line"},
    ensures={
        "cached-count-header-entry-and-file-line-move-together":
            "self._size == old(self._size) + size_add and self._hdr['_SIZE'] == self._size and self._robj.robj.size_line == self._size",
        "no-rows-touched": "self._robj.robj.rows_written == old(self._robj.robj.rows_written)",
    },
    modifies=["self._size", "self._hdr['_SIZE']", "self._robj.robj.size_line"],
    post_types={"self._size": "int", "self._hdr['_SIZE']": "int", "self._robj.robj.size_line": "int"},
    props=["C03"], runtime=False,
)

_RECF2 = "obj:Recfile{robj:%s,nrows:int,is_ascii:bool,mode:const:'r+'}" % _REC
for _dn, _tag in ((("a", "b"), "compatible-names"), (("a", "z"), "other-field-name"), (("a",), "fewer-fields")):
    _okc = _same(_FILE, _dn, False)
    _st = ("self._size == old(self._size) and self._hdr['_SIZE'] == old(self._hdr['_SIZE'])"
           " and self._robj.robj.size_line == old(self._robj.robj.size_line) and self._robj.robj.rows_written == old(self._robj.robj.rows_written)")
    contract(
        "esutil.sfile.SFile.write#append:" + _tag,
        runtime_name="esutil.sfile.SFile.write",
        params=dict(self="obj:SFile{_size:int,_hdr:%s,_robj:%s,_mode:const:'r+',_dtype:sdtype%s,_delim:none}" % (_HDR, _RECF2, _dtype_ty(_FILE)),
                    data="sstruct" + _dtype_ty(_dn), header="none"),
        requires={"handle-consistent": "self._size == self._hdr['_SIZE'] and self._size == self._robj.robj.size_line"
                                       " and self._size == self._robj.robj.rows_written"},
        raises=[("ValueError", "True" if _okc is None else "not (%s)" % _okc, "iff")],
        ensures={
            "appends-accumulate: count, header entry, SIZE line and rows all advance by the rows written":
                "self._size == old(self._size) + len(data) and self._hdr['_SIZE'] == self._size"
                " and self._robj.robj.size_line == self._size and self._robj.robj.rows_written == self._size",
        } if _okc is not None else {},
        raise_ensures={"ValueError": {"a-rejected-append-changes-nothing (count, header, SIZE line, rows)": _st}},
        modifies=["self._size", "self._hdr", "self._robj.robj.size_line", "self._robj.robj.rows_written"],
        callee_contracts={"Recfile.write": "esutil.recfile.Util.Recfile.write#rows"},
        props=["C03"], runtime=False,
    )


# ------------------------------------------------------------------------------------------------ header keys
_D1 = "obj:dict{['delim']:const:'user-value',['DTYPE']:const:'user-dtype',['Size']:int,['_DELIM']:const:';',['_DTYPE']:const:'dt'}"
for _key, _exp in (("_delim", "';'"), ("_dtype", "'dt'"), ("_size", None), ("_SIZE", None), ("_version", None)):
    contract("esutil.sfile._match_key#%s" % _key, runtime_name="esutil.sfile._match_key",
             params=dict(d=_D1, key="const:%r" % _key, require="const:False"),
             ensures={"reserved-key-matched-case-insensitively-with-its-underscore (user keys without it are not confused)":
                      "result == %s" % _exp if _exp is not None else "result is None"},
             props=["C01"], runtime=False)
contract("esutil.sfile._match_key#required-missing", runtime_name="esutil.sfile._match_key",
         params=dict(d=_D1, key="const:'_size'", require="const:True"),
         raises=[("RuntimeError", "True", "iff")], props=["C01"], runtime=False)

_H1 = "obj:dict{['_size']:int,['_NROWS']:int,['user']:int,['_delim']:const:'x',['_SHAPE']:int,['note']:const:'END of run'}"
contract("esutil.sfile.SFile._make_header",
         params=dict(self="obj:SFile{_delim:none}", data="sstruct[a:int,b:int]", header=_H1),
         ensures={
             "user-keys-kept": "result['user'] == header['user'] and result['note'] == 'END of run'",
             "reserved-bookkeeping-keys-dropped-in-either-case": "'_size' not in result and '_NROWS' not in result and '_delim' not in result and '_SHAPE' not in result",
             "dtype-and-version-recorded": "'_DTYPE' in result and '_VERSION' in result and '_DELIM' not in result",
             "caller's-dict-untouched": "'_size' in header and '_NROWS' in header and '_delim' in header",
         },
         props=["C01"], runtime=False)


# ------------------------------------------------------------------------------------------------ mode selection (C03)
contract("esutil.sfile.SFile.read_header", params=dict(self="obj:SFile{_filename:str}"), returns="opaque:header", assumed=True, runtime=False,
         why_assumed="opens the file and lets the C++ reader scan the header: needs an existing file (FileNotFoundError otherwise); "
                     "the header text itself is decided by the bounded round-trip oracle",
         requires={"the-file-exists": "path_exists(self._filename)"},
         props=["C03", "C01"])
contract("esutil.recfile.Util.Recfile.__init__#opened", runtime_name="esutil.recfile.Util.Recfile.__init__",
         params=dict(self="obj:Recfile{}", filename="str", mode="str", delim="opt[str]", padnull="bool", ignorenull="bool"),
         assumed=True, runtime=False,
         why_assumed="ghost effect of opening a record file: the object remembers the mode it was opened with (mode 'w' creates or "
                     "truncates the file in the C++ constructor, 'r+' opens an existing one)",
         ensures={"opened-in-the-requested-mode": "self.mode == mode and self.filename == filename"},
         modifies=["self.mode", "self.filename"], post_types={"self.mode": "str", "self.filename": "str"},
         props=["C03"])

_SF0 = "obj:SFile{_robj:none,_hdr:none,_size:int}"
contract("esutil.sfile.SFile.open#append-to-a-missing-file", runtime_name="esutil.sfile.SFile.open",
         params=dict(self=_SF0, filename="str", mode="const:'r+'", delim="opt[str]", padnull="bool", ignorenull="bool"),
         requires={"the-file-the-name-stands-for (with ~ and $VAR expanded) does-not-exist-yet": "not path_exists(path_expanded(filename))"},
         ensures={"an-append-to-a-missing-file-creates-it: the handle is in write mode, no header is read, the record file is opened with 'w'":
                  "self._mode == 'w' and self._hdr is None and self._dtype is None and self._size == 0"
                  " and self._robj.mode == 'w' and self._robj.filename == path_expanded(filename) and self._delim == delim"},
         modifies=["self"],
         callee_contracts={"Recfile.__init__": "esutil.recfile.Util.Recfile.__init__#opened", "SFile.read_header": "esutil.sfile.SFile.read_header"},
         inline_calls=["esutil.sfile.SFile.close"],
         props=["C03"], runtime=False)

contract("esutil.sfile.SFile.open#overwrite", runtime_name="esutil.sfile.SFile.open",
         params=dict(self=_SF0, filename="str", mode="const:'w'", delim="opt[str]", padnull="bool", ignorenull="bool"),
         ensures={"a-non-append-write-starts-from-scratch: no header is read whether or not the file exists, the record file is opened with 'w'":
                  "self._mode == 'w' and self._hdr is None and self._dtype is None and self._size == 0"
                  " and self._robj.mode == 'w' and self._robj.filename == path_expanded(filename) and self._delim == delim"},
         modifies=["self"],
         callee_contracts={"Recfile.__init__": "esutil.recfile.Util.Recfile.__init__#opened", "SFile.read_header": "esutil.sfile.SFile.read_header"},
         inline_calls=["esutil.sfile.SFile.close"],
         props=["C03"], runtime=False)


# ------------------------------------------------------------------------------------------------ byte-order-free header dtype (C04)
contract("esutil.sfile.SFile._remove_byteorder",
         params=dict(self="obj:SFile{}", descr="lst[tuple[str,str],tuple[str,str,int],tuple[str,str]]"),
         requires={"type-strings-carry-an-order-character (numpy's descr always does: '<i4', '|S12', '>f8')":
                   "len(descr[0][1]) >= 2 and len(descr[1][1]) >= 2 and len(descr[2][1]) >= 2"},
         ensures={"one-entry-per-field-names-and-shapes-kept":
                  "len(result) == 3 and result[0][0] == descr[0][0] and result[1][0] == descr[1][0] and result[2][0] == descr[2][0]"
                  " and len(result[0]) == 2 and len(result[1]) == 3 and result[1][2] == descr[1][2]",
                  "exactly-the-order-character-is-dropped: the rest of the type string (kind letter and the whole width) is kept":
                  " and ".join("result[%d][1] == descr[%d][1][1:] and len(result[%d][1]) == len(descr[%d][1]) - 1" % (i, i, i, i) for i in range(3))},
         props=["C04"], runtime=False)

contract("esutil.sfile.SFile._make_header#text", runtime_name="esutil.sfile.SFile._make_header",
         params=dict(self="obj:SFile{_delim:const:';'}", data="sstruct[a:int,b:int]", header=_H1),
         ensures={
             "user-keys-kept-reserved-keys-dropped": "result['user'] == header['user'] and '_size' not in result and '_NROWS' not in result",
             "the-delimiter-of-the-handle-is-recorded (a user key _delim does not override it)": "result['_DELIM'] == ';'",
             "dtype-recorded-without-byte-order: each field keeps its name and loses exactly the order character of its type string":
                 "len(result['_DTYPE']) == 2 and result['_DTYPE'][0][0] == 'a' and result['_DTYPE'][1][0] == 'b'"
                 " and result['_DTYPE'][0][1] == field_type(data, 'a')[1:] and result['_DTYPE'][1][1] == field_type(data, 'b')[1:]",
         },
         inline_calls=["esutil.sfile.SFile._remove_byteorder"],
         props=["C04"], runtime=False)


# ------------------------------------------------------------------------------------------------ first write through a handle (C03)
contract("records.Records.write_header_and_update_offset", params=dict(self=_REC, text="opaque"), assumed=True, lang="c++", runtime=False,
         why_assumed="C++ (records.cpp): writes the header text at the start of the file and records where the rows begin; the bytes "
                     "are decided by the bounded round-trip oracle",
         props=["C03"])

contract("esutil.sfile.SFile._write_header#create", runtime_name="esutil.sfile.SFile._write_header",
         params=dict(self="obj:SFile{_hdr:none,_dtype:none,_size:int,_delim:none,_robj:%s}" % _RECF, data="sstruct[a:int,b:int]", header="none"),
         ensures={"the-creating-handle-remembers-what-it-wrote: header, row count and the dtype that later chunks are checked against":
                  "self._hdr is not None and self._size == len(data) and self._dtype is not None and self._dtype == data.dtype"},
         modifies=["self"],
         inline_calls=["esutil.sfile.SFile._make_header", "esutil.sfile.SFile._get_size_string"],
         props=["C03"], runtime=False)


# ------------------------------------------------------------------------------------------------ a closed handle is a blank handle
contract("esutil.recfile.Util.Recfile.close#handle", runtime_name="esutil.recfile.Util.Recfile.close",
         params=dict(self=_RECF), assumed=True, runtime=False,
         why_assumed="closes the C++ file object (flush + fclose); no effect on the SFile object that owns it",
         props=["C03", "C01"])
contract("esutil.sfile.SFile.close",
         params=dict(self="obj:SFile{_robj:%s,_hdr:%s,_size:int,_dtype:sdtype[a:int,b:int],_descr:opaque,_delim:opt[str],_mode:str,"
                          "_filename:str,_data_start:int,_padnull:bool,_ignorenull:bool}" % (_RECF, _HDR)),
         ensures={"nothing-of-the-closed-file-is-kept: a handle opened again for another file starts blank (no header, no dtype, no rows)":
                  "self._hdr is None and self._dtype is None and self._descr is None and self._size == 0 and self._robj is None"
                  " and self._filename is None and self._mode is None and self._delim is None and self._data_start is None"},
         modifies=["self"],
         callee_contracts={"Recfile.close": "esutil.recfile.Util.Recfile.close#handle"},
         props=["C03", "C01"], runtime=False)
