"""Bounded stand-in for property C02 on the real reader (C++ Records + Python dispatch): every access style on small
stored tables is compared with indexing the fully-read table.  Labelled bounded - never counted as proved."""
from esvc.speclang import contract, domain


def same_table(got, exp):
    import numpy as np
    if exp is None:
        return got is None
    if isinstance(exp, tuple):
        return isinstance(got, tuple) and len(got) == len(exp) and all(same_table(g, e) for g, e in zip(got, exp))
    if not isinstance(got, np.ndarray):
        return False
    got = got.view(np.ndarray)
    if got.dtype.names != exp.dtype.names or got.shape != exp.shape:
        return False
    if exp.dtype.names is None:
        return got.dtype.kind == exp.dtype.kind and got.dtype.itemsize == exp.dtype.itemsize and bool(np.array_equal(got, exp))
    for nm in exp.dtype.names:
        if got[nm].shape != exp[nm].shape or got[nm].dtype.kind != exp[nm].dtype.kind:
            return False
        if not np.array_equal(got[nm], exp[nm]):
            return False
    return True


contract("esutil.recfile.Util.Recfile.read#paths", params={}, assumed=True,
         why_assumed="the deciding code is the C++ reader (records.cpp) and numpy field indexing: out of the prover's reach; "
                     "the Python selection algebra it is called with is proved separately",
         rt_ensures={"equals-indexing-the-full-table": "same_table(result[0], result[1])"},
         raises=[("ValueError", "expect_error", "iff")],
         props=["C02"], runtime_name="esutil.recfile.Util.Recfile.read")


def _table(n):
    import numpy as np
    d = np.zeros(n, dtype=[("a", "i4"), ("b", "f8"), ("c", "S3"), ("d", "i2", (2,))])
    d["a"] = np.arange(n) * 7 - 3
    d["b"] = np.arange(n) + 0.5
    d["c"] = [("r%d" % k).encode() for k in range(n)]
    d["d"] = (np.arange(2 * n).reshape(n, 2) * 3 - 5)
    return d


@domain("esutil.recfile.Util.Recfile.read#paths")
def _dom_paths(tier, seed):
    import itertools
    import os
    import numpy as np
    import esutil.sfile as sfile
    import esutil.recfile as recfile
    scratch = os.environ.get("ESVC_SCRATCH", "/var/tmp")
    delims = [None, ",", ":", "\t", " "]
    sizes = (1, 4, 6) if tier == "quick" else (1, 2, 3, 5, 7)
    names = ["a", "b", "c", "d"]
    for di, delim in enumerate(delims):
        for n in sizes:
            full = _table(n)
            fname = os.path.join(scratch, "paths-%d-%d.rec" % (di, n))
            sfile.write(fname, full, delim=delim)
            sf = sfile.SFile(fname)
            rf = recfile.Recfile(fname, mode="r", dtype=sf._dtype if delim is None else full.dtype.newbyteorder("=") if False else full.dtype,
                                 delim=delim, nrows=n, offset=sf._robj.offset if hasattr(sf._robj, "offset") else 0) if False else sf._robj
            tag = "delim=%r n=%d " % (delim, n)

            def case(f, exp, key, err=False):
                return dict(call=(lambda f=f, exp=exp: (f(), exp)), args=[], ghost=dict(expect_error=err), key=tag + key)
            # whole table
            yield case(lambda: sf.read(), full, "read()")
            yield case(lambda: sf[:], full, "sf[:]")
            yield case(lambda: sfile.read(fname), full, "sfile.read")
            # slices: whole rows, one column, column list
            bounds = [None] + list(range(-n - 2, n + 3))
            steps = (None, 1, 2, 3) if tier != "quick" or n <= 4 else (None, 3)
            for a in bounds:
                for b in bounds:
                    for c in steps:
                        sl = slice(a, b, c)
                        yield case(lambda sl=sl: sf[sl], full[sl], "sf[%r]" % (sl,))
                        if (a is None or a % 2 == 0) or tier != "quick":
                            yield case(lambda sl=sl: sf["a"][sl], full["a"][sl], "sf['a'][%r]" % (sl,))
                            yield case(lambda sl=sl: sf[["c", "a"]][sl], full[["a", "c"]][sl], "sf[['c','a']][%r]" % (sl,))
            # scalar rows
            for r in range(-n, n):
                yield case(lambda r=r: sf[r], full[[r % n]], "sf[%d]" % r)
                yield case(lambda r=r: sf.read(rows=r), full[[r % n]], "read(rows=%d)" % r)
                yield case(lambda r=r: sf["b"][r], full["b"][[r % n]], "sf['b'][%d]" % r)
            for r in (n, n + 3, -n - 1):
                yield case(lambda r=r: sf.read(rows=r), None, "read(rows=%d) out of range" % r, err=True)
                yield case(lambda r=r: sf.read(rows=[r]), None, "read(rows=[%d]) out of range" % r, err=True)
            # row lists with repeats, any order
            for ln in (1, 2, 3):
                for t in itertools.product(range(n), repeat=ln):
                    if tier == "quick" and ln == 3 and (sum(t) % 3) and n < 6:
                        continue
                    exp = full[np.unique(np.array(t))]
                    yield case(lambda t=t: sf.read(rows=list(t)), exp, "read(rows=%r)" % (t,))
                    if ln == 2:
                        yield case(lambda t=t: sf[list(t)], exp, "sf[%r]" % (list(t),))
                        yield case(lambda t=t: sf[["b", "d"]][list(t)], exp[["b", "d"]], "sf[['b','d']][%r]" % (list(t),))
                        yield case(lambda t=t: sf.read(rows=np.array(t), columns="c"), exp["c"], "read(rows=%r, columns='c')" % (t,))
            if n >= 2:
                yield case(lambda: sf.read(rows=[0, n]), None, "read(rows=[0,n])", err=True)
                yield case(lambda: sf.read(rows=[-1, 0]), None, "read(rows=[-1,0])", err=True)
            # column subsets and orderings
            for ln in (1, 2, 3, 4):
                for cols in itertools.permutations(names, ln):
                    if tier == "quick" and ln >= 3 and cols[0] > cols[1]:
                        continue
                    inorder = [x for x in names if x in cols]
                    yield case(lambda cols=cols: sf.read(columns=list(cols)), full[inorder], "read(columns=%r)" % (cols,))
                    if ln <= 2:
                        yield case(lambda cols=cols: sf.read(fields=list(cols)), full[inorder], "read(fields=%r)" % (cols,))
                        yield case(lambda cols=cols: sf[list(cols)][:], full[inorder], "sf[%r][:]" % (list(cols),))
                        yield case(lambda cols=cols: sf.read(columns=list(cols), split=True),
                                   tuple(full[c] for c in inorder), "read(columns=%r, split=True)" % (cols,))
                        yield case(lambda cols=cols: sf.read(columns=list(cols), reduce=True),
                                   full[inorder[0]] if len(inorder) == 1 else full[inorder], "read(columns=%r, reduce=True)" % (cols,))
            for nm in names:
                yield case(lambda nm=nm: sf.read(columns=nm), full[nm], "read(columns=%r)" % nm)
                yield case(lambda nm=nm: sf.read(fields=nm), full[nm], "read(fields=%r)" % nm)
                yield case(lambda nm=nm: sf[nm][:], full[nm], "sf[%r][:]" % nm)
                yield case(lambda nm=nm: sf[nm].read(), full[nm], "sf[%r].read()" % nm)
                yield case(lambda nm=nm: sf.read(columns=nm, reduce=True), full[nm], "read(columns=%r, reduce=True)" % nm)
                yield case(lambda nm=nm: sfile.read(fname, columns=nm, rows=[0]), full[nm][[0]], "sfile.read(columns=%r, rows=[0])" % nm)
            yield case(lambda: sf.read(split=True), tuple(full[c] for c in names), "read(split=True)")
            yield case(lambda: sf.read(reduce=True), full, "read(reduce=True)")
            sf.close()
            os.unlink(fname)
    # tables longer than any block a reader might buffer: slices with every small step, from either end; row lists; columns
    import random
    rng = random.Random(seed * 7 + 3)
    for di, (delim, n) in enumerate([(None, 3000), (None, 70001), (",", 2500)]):
        full = _table(n)
        fname = os.path.join(scratch, "paths-long-%d.rec" % di)
        sfile.write(fname, full, delim=delim)
        sf = sfile.SFile(fname)
        tag = "delim=%r n=%d " % (delim, n)

        def case(f, exp, key, err=False):
            return dict(call=(lambda f=f, exp=exp: (f(), exp)), args=[], ghost=dict(expect_error=err), key=tag + key)
        steps = list(range(1, 21)) + [33, 100, 1023, 1024, 1025]
        if tier == "quick":
            steps = rng.sample(steps[:16], 9 if di == 0 else 4) + rng.sample(steps[16:], 2)
        for c in steps:
            a = rng.choice([None, 0, 1, rng.randrange(0, 40), -rng.randrange(n // 2, n), rng.randrange(0, n // 3)])
            b = rng.choice([None, -1, n, n + 5, -rng.randrange(1, 30), rng.randrange(2 * n // 3, n)])
            for sl in (slice(a, b, c), slice(None, None, c)):
                yield case(lambda sl=sl: sf[sl], full[sl], "sf[%r]" % (sl,))
            sl = slice(a, b, c)
            yield case(lambda sl=sl: sf.read(rows=sl) if False else sf["b"][sl], full["b"][sl], "sf['b'][%r]" % (sl,))
            yield case(lambda sl=sl: sf[["d", "a"]][sl], full[["a", "d"]][sl], "sf[['d','a']][%r]" % (sl,))
        for _ in range(3 if tier == "quick" else 12):
            rows = sorted(rng.sample(range(n), rng.choice([1, 7, 1500])))
            exp = full[np.array(rows)]
            yield case(lambda rows=rows: sf.read(rows=rows), exp, "read(rows=<%d rows from %d>)" % (len(rows), rows[0]))
            yield case(lambda rows=rows: sf.read(rows=rows, columns=["c", "d"]), exp[["c", "d"]],
                       "read(rows=<%d rows from %d>, columns=c,d)" % (len(rows), rows[0]))
        yield case(lambda: sf.read(), full, "read()")
        yield case(lambda: sf.read(columns="d"), full["d"], "read(columns='d')")
        sf.close()
        os.unlink(fname)
