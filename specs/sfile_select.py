"""Contracts for the split / reduce post-processing of esutil/sfile.py and recfile split_fields (property C02)."""
from esvc.speclang import contract, domain

for _v, _ty, _post in (
        ("1field", "struct[a:int]", {"plain-array-of-the-field": "same_object(result, field(data, 'a'))"}),
        ("2fields", "struct[a:int,b:real]", {"unchanged": "same_object(result, data)"}),
        ("plain", "arr[real]", {"unchanged": "same_object(result, data)"})):
    contract(
        "esutil.sfile.reduce_array#" + _v,
        runtime_name="esutil.sfile.reduce_array",
        params=dict(data=_ty),
        ensures=_post,
        runtime=False,
        props=["C02"],
    )

contract(
    "esutil.sfile.split_fields#all",
    params=dict(data="struct[a:int,b:real,c:int]", fields="none", getnames="const:False"),
    ensures={"tuple-of-field-views-in-dtype-order":
             "len(result) == 3 and same_object(result[0], field(data, 'a')) and same_object(result[1], field(data, 'b'))"
             " and same_object(result[2], field(data, 'c'))"},
    runtime=False,
    props=["C02"],
)


def _rt_reduce(result, data):
    import numpy as np
    if isinstance(data, np.ndarray) and data.dtype.names is not None and len(data.dtype.names) == 1:
        return result.dtype.names is None and np.array_equal(result, data[data.dtype.names[0]]) \
            and np.shares_memory(result, data)
    return result is data


contract("esutil.sfile.reduce_array", params=dict(data="opaque"), assumed=True,
         why_assumed="run-time form of the #variants above (numpy structured dtypes of any width)",
         rt_ensures={"one-field-plain-else-unchanged": "_rt_reduce(result, data)"}, props=["C02"])


@domain("esutil.sfile.reduce_array")
def _dom_reduce(tier, seed):
    import numpy as np
    yield dict(args=[np.zeros(3, dtype=[("a", "i4")])])
    yield dict(args=[np.arange(4.0)])
    yield dict(args=[np.zeros(3, dtype=[("a", "i4"), ("b", "f8")])])
    yield dict(args=[np.zeros(2, dtype=[("a", "i4"), ("b", "f8", 3), ("c", "S2")])])
    yield dict(args=[[1, 2, 3]])
