"""Contracts for esutil.numpy_util.match / match_multi / unique / rem_dup  (property C06).

Elements are only compared (==, <, >), so they are modelled as mathematical integers with their total order; arrays of
strings / bytes are the same model with the tag "str" (type `sarr`), which is what makes `isinstance(el, str)` true and
selects the always-clamp branch.  NaN (no total order) is outside the statement's quantifier."""
from esvc.speclang import contract, domain

_A1, _A2 = "arr1input", "arr2input"

_MATCH_POST = {
    "same-length": "len(result[0]) == len(result[1])",
    "pairs-are-equal": "all(0 <= result[0][k] and result[0][k] < len(arr1input) and 0 <= result[1][k] and result[1][k] < len(arr2input)"
                       " and arr1input[result[0][k]] == arr2input[result[1][k]] for k in range(0, len(result[1])))",
    "ordered-by-position-in-second-each-once": "all(result[1][k] < result[1][j] for k in range(0, len(result[1])) for j in range(k + 1, len(result[1])))",
    "every-matching-element-of-second-appears":
        "all(not any(arr1input[i] == arr2input[j] for i in range(0, len(arr1input)))"
        "    or any(result[1][k] == j for k in range(0, len(result[1]))) for j in range(0, len(arr2input)))",
}
_REPEAT = "any(arr1input[i] == arr1input[j] for i in range(0, len(arr1input)) for j in range(i + 1, len(arr1input)))"

contract(
    "esutil.numpy_util.match",
    params=dict(arr1input="arr[int]", arr2input="arr[int]", presorted="bool"),
    returns="tuple[arr[int],arr[int]]",
    variants=[dict(), dict(arr1input="sarr", arr2input="sarr")],
    requires={"non-empty": "len(arr1input) >= 1 and len(arr2input) >= 1",
              "presorted-means-sorted": "not presorted or is_sorted(arr1input, 0, len(arr1input) - 1)"},
    raises=[("ValueError", _REPEAT, "iff")],
    ensures=_MATCH_POST,
    props=["C06", "C15"],
    elem="totally ordered elements (ints, non-NaN floats, str, bytes) modelled as mathematical integers; only ==, <, > are applied",
)

# scalars are accepted (np.atleast_1d): the contract is the array contract for the one-element arrays
contract(
    "esutil.numpy_util.match#scalars",
    params=dict(arr1input="int", arr2input="int", presorted="bool"),
    ensures={"one-pair-iff-equal": "(len(result[0]) == 1 and len(result[1]) == 1 and result[0][0] == 0 and result[1][0] == 0)"
                                   " if arr1input == arr2input else (len(result[0]) == 0 and len(result[1]) == 0)"},
    props=["C06"], runtime=False,
)
contract(
    "esutil.numpy_util.match#scalar-second",
    params=dict(arr1input="arr[int]", arr2input="int", presorted="bool"),
    requires={"non-empty": "len(arr1input) >= 1",
              "presorted-means-sorted": "not presorted or is_sorted(arr1input, 0, len(arr1input) - 1)"},
    raises=[("ValueError", _REPEAT, "iff")],
    ensures={"same-length": "len(result[0]) == len(result[1]) and len(result[1]) <= 1",
             "pair-is-equal": "len(result[1]) == 0 or (result[1][0] == 0 and 0 <= result[0][0] and result[0][0] < len(arr1input)"
                              " and arr1input[result[0][0]] == arr2input)",
             "found-when-present": "not any(arr1input[i] == arr2input for i in range(0, len(arr1input))) or len(result[1]) == 1"},
    props=["C06"], runtime=False,
)

contract(
    "esutil.numpy_util.match_multi",
    params=dict(arr1input="arr[int]", arr2input="arr[int]", presorted="bool"),
    requires={"non-empty": "len(arr1input) >= 1 and len(arr2input) >= 1"},
    raises=[("ValueError", _REPEAT, "iff")],
    ensures=_MATCH_POST,
    props=["C06"],
)


# ------------------------------------------------------------------------------------------------ de-duplication
_ONE_PER_VALUE = {
    "indices-in-range": "all(0 <= result[k] and result[k] < len(arr) for k in range(0, len(result)))",
    "distinct-values": "all(arr[result[k]] != arr[result[j]] for k in range(0, len(result)) for j in range(k + 1, len(result)))",
    "every-value-represented": "all(any(arr[result[k]] == arr[i] for k in range(0, len(result))) for i in range(0, len(arr)))",
}

contract(
    "esutil.numpy_util.unique",
    params=dict(arr="arr[int]", values="const:False"),
    requires={"non-empty": "len(arr) >= 1"},
    ensures=_ONE_PER_VALUE,
    loops={"L0": dict(inv={
        "progress": "1 <= i and i <= n and n == len(arr) and 0 <= nkeep and nkeep < i and len(keep) == n",
        "current-value": "val == arr[keep[nkeep]] and val == arr[s[i - 1]]",
        "kept-in-range": "all(0 <= keep[k] and keep[k] < n for k in range(0, nkeep + 1))",
        "kept-increasing-values": "all(arr[keep[k]] < arr[keep[j]] for k in range(0, nkeep + 1) for j in range(k + 1, nkeep + 1))",
        "seen-values-kept": "all(any(arr[keep[k]] == arr[s[t]] for k in range(0, nkeep + 1)) for t in range(0, i))",
    }, dec="n - i")},
    props=["C06", "C15"],
)

contract(
    "esutil.numpy_util.unique#values",
    runtime_name="esutil.numpy_util.unique",
    params=dict(arr="arr[int]", values="const:True"),
    requires={"non-empty": "len(arr) >= 1"},
    ensures={
        "distinct-values": "all(result[k] != result[j] for k in range(0, len(result)) for j in range(k + 1, len(result)))",
        "values-of-the-input": "all(any(result[k] == arr[i] for i in range(0, len(arr))) for k in range(0, len(result)))",
        "every-value-represented": "all(any(result[k] == arr[i] for k in range(0, len(result))) for i in range(0, len(arr)))",
    },
    loops={"L0": dict(inv={
        "progress": "1 <= i and i <= n and n == len(arr) and 0 <= nkeep and nkeep < i and len(keep) == n",
        "current-value": "val == arr[keep[nkeep]] and val == arr[s[i - 1]]",
        "kept-in-range": "all(0 <= keep[k] and keep[k] < n for k in range(0, nkeep + 1))",
        "kept-increasing-values": "all(arr[keep[k]] < arr[keep[j]] for k in range(0, nkeep + 1) for j in range(k + 1, nkeep + 1))",
        "seen-values-kept": "all(any(arr[keep[k]] == arr[s[t]] for k in range(0, nkeep + 1)) for t in range(0, i))",
    }, dec="n - i")},
    props=["C06"],
)


_REM_INV = {
    "progress": "n == len(arr) and n >= 2 and len(s) == n and len(sarr) == n and len(sflag) == n and len(keep) == n"
                " and 0 <= nkeep and nkeep <= k",
    "current-run": "val == sarr[k] and sarr[keep[nkeep]] == val and f == sflag[keep[nkeep]]",
    "kept-in-range": "all(0 <= keep[j] and keep[j] <= k for j in range(0, nkeep + 1))",
    "kept-increasing-values": "all(sarr[keep[j]] < sarr[keep[m]] for j in range(0, nkeep + 1) for m in range(j + 1, nkeep + 1))",
    "seen-values-kept": "all(any(sarr[keep[j]] == sarr[t] for j in range(0, nkeep + 1)) for t in range(0, k + 1))",
    "kept-carries-largest-flag": "all(sarr[t] != sarr[keep[j]] or sflag[t] <= sflag[keep[j]]"
                                 " for t in range(0, k + 1) for j in range(0, nkeep + 1))",
}

contract(
    "esutil.numpy_util.rem_dup",
    params=dict(arr="arr[int]", flag="arr[int]", values="const:False"),
    requires={"at-least-two": "len(arr) >= 2 and len(flag) == len(arr)"},
    ensures=dict(_ONE_PER_VALUE, **{
        "kept-index-carries-the-largest-flag-of-its-value":
            "all(arr[i] != arr[result[k]] or flag[i] <= flag[result[k]] for i in range(0, len(arr)) for k in range(0, len(result)))",
        "ascending": "all(result[k] <= result[j] for k in range(0, len(result)) for j in range(k + 1, len(result)))",
    }),
    loops={"L0": dict(counter="k", inv=_REM_INV)},
    asserts={"L0:after": {
        "every-input-value-kept": "all(any(sarr[keep[j]] == arr[i] for j in range(0, nkeep + 1)) for i in range(0, n))",
    }},
    props=["C06", "C15"],
)

contract(
    "esutil.numpy_util.rem_dup#single",
    runtime_name="esutil.numpy_util.rem_dup",
    params=dict(arr="arr[int]", flag="arr[int]", values="const:False"),
    requires={"one-element": "len(arr) == 1 and len(flag) == 1"},
    ensures={"the-only-index": "result == 0"},
    props=["C06"],
)


@domain("esutil.numpy_util.rem_dup")
def _dom_rem_dup(tier, seed):
    import itertools
    import random
    import numpy as np
    maxn = 4 if tier == "quick" else 5
    for n in range(2, maxn + 1):
        for t in itertools.product((5, 1), repeat=n):
            for fl in itertools.product((2, 0, 1), repeat=n):
                yield dict(args=[np.array(t), np.array(fl), False])
                if n <= 3:
                    # flag arrays of other kinds: unsigned (negation wraps), float, boolean
                    for dt in ("u1", "u2", "f4"):
                        yield dict(args=[np.array(t), np.array(fl, dtype=dt), False], key="%r flags %s %r" % (t, dt, fl))
                    yield dict(args=[np.array(t), np.array(fl) > 0, False], key="%r flags bool %r" % (t, fl))
    rng = random.Random(seed)
    for a in _dedup_arrays(tier, seed):
        if a.size >= 2:
            yield dict(args=[a, np.array([rng.randint(-2, 5) for _ in range(a.size)]), False])


@domain("esutil.numpy_util.rem_dup#single")
def _dom_rem_dup_single(tier, seed):
    import numpy as np
    yield dict(args=[np.array([7]), np.array([3]), False])
    yield dict(args=[np.array(["x"]), np.array([0.5]), False])


@domain("esutil.numpy_util.match")
def _dom_match(tier, seed):
    import itertools
    import random
    import numpy as np
    vals = (-2, 0, 1, 3)
    maxn = 3 if tier == "quick" else 4
    for n1 in range(1, maxn + 1):
        for a1 in itertools.permutations(vals, n1):
            for n2 in range(1, 4):
                for a2 in itertools.product((-5, -2, 0, 1, 3, 9), repeat=n2):
                    if tier == "quick" and (sum(a2) + n1) % 3:
                        continue
                    for pre in (False, True):
                        if pre and list(a1) != sorted(a1):
                            continue
                        yield dict(args=[np.array(a1), np.array(a2), pre])
    rng = random.Random(seed)
    for _ in range(60 if tier == "quick" else 2000):
        kind = rng.choice(["i8", "u8", "f8", "S", "U", "i2", "big"])
        n1, n2 = rng.randint(1, 12), rng.randint(1, 15)
        pool = list(range(-6, 14))
        if kind == "u8":
            pool = [2 ** 63 + k for k in range(0, 20)] + list(range(0, 6))
        if kind == "big":
            pool = [2 ** 40 * k + 7 for k in range(-8, 9)]
        if kind == "f8":
            pool = [k * 0.25 - 2.0 for k in range(24)] + [1e300, -1e300]
        if kind in "SU":
            pool = ["", "a", "ab", "abc", "b", "ba", "zz", "zzz9", "A", "a ", "longer-string"]
        a1 = rng.sample(pool, min(n1, len(pool)))
        mode = rng.choice(["none", "some", "all"])
        if mode == "all":
            a2 = [rng.choice(a1) for _ in range(n2)]
        elif mode == "none":
            rest = [x for x in pool if x not in a1] or [pool[0]]
            a2 = [rng.choice(rest) for _ in range(n2)]
            if all(x in a1 for x in a2):
                continue
        else:
            a2 = [rng.choice(pool) for _ in range(n2)]
        dt = {"i8": "i8", "u8": "u8", "f8": "f8", "S": "S13", "U": "U13", "i2": "i2", "big": "i8"}[kind]
        pre = rng.random() < 0.4
        if pre:
            a1 = sorted(a1)
        yield dict(args=[np.array(a1, dtype=dt), np.array(a2, dtype=dt), pre])
    yield dict(args=[np.array([1, 2, 2]), np.array([2]), False])
    yield dict(args=[np.array([1, 2, 2]), np.array([2]), True])
    yield dict(args=[np.array([1.0, 1.0]), np.array([3.0, 1.0]), True])
    yield dict(args=[np.array(["a", "a", "b"]), np.array(["b"]), True])
    # the two arrays need not share a dtype (values are compared, not representations)
    yield dict(args=[np.array([1, 2, 3]), np.array([2.5, 2.0, -1.0, 3.0]), False])
    yield dict(args=[np.array([1, 2, 3], dtype="i2"), np.array([2, 65538, 3], dtype="i8"), True])
    yield dict(args=[np.array([250, 255], dtype="u1"), np.array([-1, 255, -6], dtype="i8"), False])
    yield dict(args=[np.array(["ab", "b"], dtype="S2"), np.array(["abc", "ab", "b "], dtype="S5"), False])
    yield dict(args=[np.array(["ab", "b"], dtype="U2"), np.array(["abc", "ab", "bb"], dtype="U5"), True])
    yield dict(args=[np.array([1.5, 2.0], dtype="f4"), np.array([1.5000001, 2.0, 1.5], dtype="f8"), False])
    yield dict(args=[np.array(["a", "b", "a"]), np.array(["a"]), False])
    # densely packed integer keys spanning most of the range of a narrow type, each array in its own integer type
    for _ in range(40 if tier == "quick" else 800):
        t1, t2 = rng.choice(["i1", "u1", "i2", "u2", "i4", "i8"]), rng.choice(["i1", "u1", "i2", "u2", "i4", "i8"])
        i1, i2 = np.iinfo(t1), np.iinfo(t2)
        lo = rng.choice([i1.min, max(i1.min, -100), max(i1.min, 0), max(i1.min, min(i1.max - 300, 300))])
        span = rng.choice([20, 200, 250, 40000])
        hi = min(i1.max, lo + span)
        keys = list(range(lo, hi + 1))
        if len(keys) > 400:
            keys = keys[:: len(keys) // 300]
        rng.shuffle(keys)
        a1 = keys[: rng.randint(max(1, len(keys) * 3 // 4), len(keys))]
        cand = [k for k in keys if i2.min <= k <= i2.max] + [i2.min, i2.max, 0, 28 if i2.max >= 28 else 0]
        a2 = [rng.choice(cand) for _ in range(rng.randint(1, 40))]
        pre = rng.random() < 0.3
        if pre:
            a1 = sorted(a1)
        yield dict(args=[np.array(a1, dtype=t1), np.array(a2, dtype=t2), pre])


@domain("esutil.numpy_util.match_multi")
def _dom_match_multi(tier, seed):
    import numpy as np
    for a1, a2 in [([3, 1, 2], [2, 2, 5, 3]), ([1], [1]), ([5, 4], [0]), ([2, 2], [2])]:
        for pre in (False, True):
            yield dict(args=[np.array(a1), np.array(a2), pre])


def _dedup_arrays(tier, seed):
    import itertools
    import random
    import numpy as np
    maxn = 4 if tier == "quick" else 5
    for n in range(1, maxn + 1):
        for t in itertools.product((5, 1, 3), repeat=n):
            yield np.array(t)
    # integers whose differences do not fit their own type
    i64 = np.iinfo("i8")
    yield np.array([i64.min, i64.max, 0, i64.max, i64.min], dtype="i8")
    yield np.array([2 ** 62 + 5, -(2 ** 62 + 5), 2 ** 62 + 5], dtype="i8")
    yield np.array([-100, 100, -100, 127, -128], dtype="i1")
    yield np.array([-30000, 30000, 30000], dtype="i2")
    yield np.array([-2000000000, 2000000000], dtype="i4")
    yield np.array([0, 2 ** 64 - 1, 5, 0], dtype="u8")
    rng = random.Random(seed)
    for _ in range(40 if tier == "quick" else 1000):
        n = rng.randint(1, 14)
        kind = rng.choice(["i8", "f8", "S"])
        if kind == "i8":
            yield np.array([rng.randint(-3, 4) for _ in range(n)])
        elif kind == "f8":
            yield np.array([rng.choice([0.5, -1.25, 3.0, 1e10, -0.0]) for _ in range(n)])
        else:
            yield np.array([rng.choice(["b", "a", "ab", ""]) for _ in range(n)])


@domain("esutil.numpy_util.unique")
def _dom_unique(tier, seed):
    for a in _dedup_arrays(tier, seed):
        yield dict(args=[a, False])


@domain("esutil.numpy_util.unique#values")
def _dom_unique_values(tier, seed):
    for a in _dedup_arrays(tier, seed):
        yield dict(args=[a, True])


# ------------------------------------------------------------------------------------------------ call history (bounded)
def match_history_statement(ref, probe, edits):
    """the same array object matched again after the caller changed its contents in place: every call is sound and complete for
    the contents it sees (nothing remembered from an earlier call may be reused)"""
    import numpy as np
    import esutil.numpy_util as nu
    ref = ref.copy()
    for step, e in enumerate(list(edits) + [None]):
        m1, m2 = nu.match(ref, probe)
        want = sorted((i, j) for j, p in enumerate(probe.tolist()) for i, r in enumerate(ref.tolist()) if r == p)
        got = sorted(zip(np.asarray(m1).tolist(), np.asarray(m2).tolist()))
        if got != want:
            return "call %d on %r: pairs %r instead of %r" % (step, ref.tolist(), got, want)
        if e is not None:
            ref[:] = e          # in place: the same object with other contents
    return True


contract("esutil.numpy_util.match#history", params={}, assumed=True, runtime_name="esutil.numpy_util.match",
         why_assumed="bounded statement oracle (labelled): the prover verifies one call; state kept between calls (a cache keyed by "
                     "object identity) is outside a per-call contract",
         rt_ensures={"every-call-is-sound-and-complete-for-the-contents-it-sees": "match_history_statement(ref, probe, edits) is True"},
         props=["C06"])


@domain("esutil.numpy_util.match#history")
def _dom_match_history(tier, seed):
    import random
    import numpy as np
    rng = random.Random(seed + 5)
    for _ in range(6 if tier == "quick" else 100):
        n = rng.randint(3, 9)
        vals = rng.sample(range(-20, 40), n)
        ref = np.array(vals)
        edits = []
        for _k in range(rng.randint(1, 3)):
            kind = rng.choice(["shuffle", "sorted", "new"])
            if kind == "shuffle":
                e = list(vals)
                rng.shuffle(e)
            elif kind == "sorted":
                e = sorted(vals)
            else:
                e = rng.sample(range(-20, 40), n)
            edits.append(np.array(e))
        probe = np.array([rng.choice(vals + [99, -99]) for _ in range(rng.randint(1, 8))])
        yield dict(call=(lambda: None), args=[], ghost=dict(ref=ref, probe=probe, edits=edits), key="ref %r probe %r %d edits" % (vals, probe.tolist(), len(edits)))
