"""Contracts for esutil.stat.util: cov2cor / cor2cov / interplin / wmedian / wmom  (property C18).

Floats are reals (rounding of the sums is not modelled); numpy's sum is an uninterpreted function of the array, the prefix
sums used by wmedian are the spec function psum (unfolded one step where used)."""
from esvc.speclang import contract, domain

# ------------------------------------------------------------------------------------------------ cov <-> cor
contract(
    "esutil.stat.util.cov2cor",
    params=dict(cov="arr2[real]"),
    requires={"square": "shape0(cov) == shape1(cov)"},
    raises=[("ValueError", "any(cov[i, i] <= 0 for i in range(0, shape0(cov))) and shape0(cov) >= 1", "iff")],
    ensures={
        "shape": "shape0(result) == shape0(cov) and shape1(result) == shape1(cov)",
        "definition": "all(approx(result[i, j], cov[i, j] / sqrt(cov[i, i] * cov[j, j]))"
                      " for i in range(0, shape0(cov)) for j in range(0, shape1(cov)))",
    },
    loops={
        "L0": dict(counter="kx", inv={
            "shape": "shape0(cor) == shape0(cov) and shape1(cor) == shape1(cov)",
            "diag-positive-so-far": "all(cov[i, i] > 0 for i in range(0, kx))",
            "rows-done": "all(cor[i, j] == cov[i, j] / sqrt(cov[i, i] * cov[j, j]) for i in range(0, kx) for j in range(0, shape1(cov)))",
        }),
        "L0.0": dict(counter="ky", inv={
            "shape": "shape0(cor) == shape0(cov) and shape1(cor) == shape1(cov) and 0 <= ix and ix < shape0(cov) and cxx == cov[ix, ix] and cxx > 0",
            "diag-positive-so-far": "all(cov[i, i] > 0 for i in range(0, ix)) and all(cov[j, j] > 0 for j in range(0, ky))",
            "rows-done": "all(cor[i, j] == cov[i, j] / sqrt(cov[i, i] * cov[j, j]) for i in range(0, ix) for j in range(0, shape1(cov)))",
            "row-in-progress": "all(cor[ix, j] == cov[ix, j] / sqrt(cov[ix, ix] * cov[j, j]) for j in range(0, ky))",
        }),
    },
    abstract=["mul", "div"],
    props=["C18", "C15"],
)

contract(
    "esutil.stat.util.cor2cov",
    params=dict(cor="arr2[real]", diagerr="arr[real]"),
    # the statement quantifies over square matrices with a matching error vector; malformed shapes are outside it (on the
    # pinned tree the non-square message formatting itself raises TypeError - noted in DESIGN.md, not claimed)
    requires={"square-and-matching": "shape0(cor) == shape1(cor) and shape0(cor) == len(diagerr)"},
    ensures={
        "shape": "shape0(result) == shape0(cor) and shape1(result) == shape1(cor)",
        "definition": "all(approx(result[i, j], cor[i, j] * diagerr[i] * diagerr[j])"
                      " for i in range(0, shape0(cor)) for j in range(0, shape1(cor)))",
    },
    loops={
        "L0": dict(counter="kx", inv={
            "shape": "shape0(cov) == shape0(cor) and shape1(cov) == shape1(cor) and shape0(cor) == shape1(cor) and shape0(cor) == len(diagerr)",
            "rows-done": "all(cov[i, j] == cor[i, j] * diagerr[i] * diagerr[j] for i in range(0, kx) for j in range(0, shape1(cor)))",
        }),
        "L0.0": dict(counter="ky", inv={
            "shape": "shape0(cov) == shape0(cor) and shape1(cov) == shape1(cor) and shape0(cor) == shape1(cor) and shape0(cor) == len(diagerr)"
                     " and 0 <= ix and ix < shape0(cor)",
            "rows-done": "all(cov[i, j] == cor[i, j] * diagerr[i] * diagerr[j] for i in range(0, ix) for j in range(0, shape1(cor)))",
            "row-in-progress": "all(cov[ix, j] == cor[ix, j] * diagerr[ix] * diagerr[j] for j in range(0, ky))",
        }),
    },
    props=["C18", "C15"],
)


# ------------------------------------------------------------------------------------------------ interplin
contract(
    "esutil.stat.util.interplin",
    params=dict(vin="arr[real]", xin="arr[real]", uin="arr[real]"),
    returns="arr[real]",
    requires={"table": "len(xin) >= 2 and len(vin) == len(xin)",
              "strictly-increasing": "all(xin[i] < xin[j] for i in range(0, len(xin)) for j in range(i + 1, len(xin)))"},
    ensures={
        "one-result-per-query": "len(result) == len(uin)",
        "piecewise-linear-inside-straight-line-extension-outside":
            "all(not ((m == 0 or xin[m] < uin[k]) and (m == len(xin) - 2 or uin[k] <= xin[m + 1]))"
            "    or approx(result[k], (uin[k] - xin[m]) * (vin[m + 1] - vin[m]) / (xin[m + 1] - xin[m]) + vin[m])"
            "    for k in range(0, len(uin)) for m in range(0, len(xin) - 1))",
    },
    abstract=["mul", "div"],
    props=["C18", "C15", "C17"],
)

contract(
    "esutil.stat.util.interplin#nodes",
    params=dict(vin="arr[real]", xin="arr[real]", uin="arr[real]"),
    requires={"table": "len(xin) >= 2 and len(vin) == len(xin)",
              "strictly-increasing": "all(xin[i] < xin[j] for i in range(0, len(xin)) for j in range(i + 1, len(xin)))"},
    ensures={
        "table-value-at-a-node":
            "all(uin[k] != xin[m] or approx(result[k], vin[m]) for k in range(0, len(uin)) for m in range(1, len(xin)))",
    },
    checks=["post"],
    props=["C18", "C17"],
)


@domain("esutil.stat.util.cov2cor")
def _dom_cov2cor(tier, seed):
    import random
    import numpy as np
    rng = random.Random(seed)
    for n in range(1, 7):
        for _ in range(6 if tier == "quick" else 60):
            a = np.array([[rng.uniform(-1, 1) for _ in range(n)] for _ in range(n)])
            c = a @ a.T + np.eye(n) * rng.choice([1e-3, 1.0, 50.0])
            yield dict(args=[c])
    yield dict(args=[np.array([[1.0, 0.2], [0.2, 0.0]])])
    yield dict(args=[np.array([[-1.0, 0.2], [0.2, 3.0]])])
    # symmetric, positive diagonal, not positive semi-definite (the statement asks for no more than the first two):
    # "correlations" beyond +-1 are returned as they are
    yield dict(args=[np.array([[1.0, 2.5], [2.5, 4.0]])])
    yield dict(args=[np.array([[2.0, -3.0, 0.1], [-3.0, 1.0, 0.0], [0.1, 0.0, 5.0]])])
    for n in range(2, 7):
        for _ in range(2 if tier == "quick" else 20):
            m = np.array([[rng.uniform(-3, 3) for _ in range(n)] for _ in range(n)])
            m = (m + m.T) / 2
            m[np.diag_indices(n)] = [rng.uniform(0.1, 2.0) for _ in range(n)]
            yield dict(args=[m])


@domain("esutil.stat.util.cor2cov")
def _dom_cor2cov(tier, seed):
    import random
    import numpy as np
    rng = random.Random(seed)
    for n in range(1, 7):
        for _ in range(6 if tier == "quick" else 60):
            a = np.array([[rng.uniform(-1, 1) for _ in range(n)] for _ in range(n)])
            yield dict(args=[(a + a.T) / 2, np.array([rng.uniform(0.1, 9) for _ in range(n)])])


@domain("esutil.stat.util.interplin")
def _dom_interplin(tier, seed):
    import random
    import numpy as np
    rng = random.Random(seed)
    for n in range(2, 9):
        for _ in range(8 if tier == "quick" else 80):
            x = np.cumsum([rng.choice([0.5, 1.0, 1e-3, 7.0]) for _ in range(n)]) - 3.0
            if rng.random() < 0.3:
                x = (x + 3.0) * rng.choice([1e-9, 1e-12, 1e6])      # unevenly spaced tables at tiny / huge absolute scales
            v = np.array([float(rng.randint(-8, 8)) for _ in range(n)])
            u = [x[0] - 2.0, x[0], x[-1], x[-1] + 4.0] + list(x) + [float(rng.uniform(x[0] - 1, x[-1] + 1)) for _ in range(4)]
            yield dict(args=[v, x, np.array(u)])
        for _ in range(3 if tier == "quick" else 30):
            # tables over whole numbers held in integer columns (either column), queried between and beyond the nodes
            off = rng.choice([0, 0, 50, -4])
            xi = (np.cumsum([rng.choice([1, 1, 2, 6]) for _ in range(n)]) + off).astype(rng.choice(["i8", "i4", "i2", "u2"] if off >= 0 else ["i8", "i4", "i2"]))
            vi = np.array([rng.randint(-8, 8) for _ in range(n)], dtype=rng.choice(["f8", "i8", "i4"]))
            lo, hi = float(xi[0]), float(xi[-1])
            u = [lo - 2.0, lo, hi, hi + 4.0, lo + 0.5, hi - 0.25] + [float(k) for k in xi] + [float(rng.uniform(lo - 1, hi + 1)) for _ in range(6)]
            yield dict(args=[vi, xi, np.array(u)])
            yield dict(args=[vi, xi, np.array([int(k) for k in xi] + [int(xi[0]) - 1, int(xi[-1]) + 2], dtype="i8")])


# ------------------------------------------------------------------------------------------------ weighted median
def wmedian_def(arr, weights, got=None):
    """the statement: smallest sorted value whose cumulative weight reaches half the total, evaluated in exact rational
    arithmetic.  When the cumulative weight at some sorted position equals half the total to within rounding (1e-12 of the total)
    the floating-point comparison of the routine can fall either way: then the value at that position and the next one are both
    accepted (returns `got` if it is one of them)"""
    from fractions import Fraction
    import numpy as np
    arr = np.atleast_1d(arr)
    w = [Fraction(float(x)) for x in np.atleast_1d(weights).astype("f8")]
    order = np.argsort(arr, kind="stable")
    tot = sum(w)
    half = tot / 2
    cum = Fraction(0)
    exact = None
    accept = []
    for pos, j in enumerate(order):
        cum += w[j]
        near = abs(cum - half) <= tot * Fraction(1, 10 ** 12)
        if exact is None and cum >= half:
            exact = arr[j]
            accept.append(arr[j])
            if near:
                # rounding may see "not yet half": the routine then moves on to the next position with non-zero effect
                for j2 in order[pos + 1:]:
                    accept.append(arr[j2])
                    if w[j2] > tot * Fraction(1, 10 ** 12):
                        break
            break
        if near:
            accept.append(arr[j])         # rounding may see "already half" one position early
    if exact is None:
        exact = arr[order[-1]]
    if got is not None and any(float(got) == float(a) for a in accept):
        return got
    return exact


contract(
    "esutil.stat.util.wmedian",
    params=dict(arr_in="arr[real]", weights_in="arr[real]"),
    requires={"sizes": "len(arr_in) >= 1 and len(weights_in) == len(arr_in)",
              "non-negative-weights": "all(weights_in[i] >= 0 for i in range(0, len(weights_in)))"},
    ensures={"a-value-of-the-input": "any(result == arr_in[i] for i in range(0, len(arr_in)))"},
    rt_ensures={"equals-the-definition": "approx(result, wmedian_def(arr_in, weights_in, result))"},
    asserts={"L0:before": {
        "prefix-sums-non-negative": "induct(j, 0, len(arr), psum(weights, sind, j) >= 0)",
        "sum-in-sorted-order-is-the-total": "assume_axiom(psum(weights, sind, len(arr)) == wtot)",
    }},
    loops={"L0": dict(inv={
        "position": "0 <= k and k < len(arr) and len(sind) == len(arr) and len(weights) == len(arr)",
        "remaining-weight": "sum == wtot - psum(weights, sind, k + 1) and wtot2 == wtot / 2",
        "not-yet-half-before": "all(wtot - psum(weights, sind, j + 1) > wtot2 for j in range(0, k))",
    })},
    # the statement, with the function's own sort order as the witness: position k is the first whose cumulative weight
    # reaches half of the total, and the result is the value at that sorted position
    ret_post={"return#0": {
        "first-sorted-position-whose-cumulative-weight-reaches-half":
            "0 <= k and k < len(arr) and result == arr[sind[k]]"
            " and psum(weights, sind, k + 1) >= wtot / 2"
            " and all(psum(weights, sind, j + 1) < wtot / 2 for j in range(0, k))"
            " and all(arr[sind[i]] <= arr[sind[j]] for i in range(0, len(arr)) for j in range(i + 1, len(arr)))",
    }},
    props=["C18", "C15"],
)


@domain("esutil.stat.util.wmedian")
def _dom_wmedian(tier, seed):
    import itertools
    import random
    import numpy as np
    for n in range(1, 5):
        for a in itertools.permutations([3.0, 1.0, 2.0, 5.0][:n]):
            for w in itertools.product([0.0, 1.0, 2.5], repeat=n):
                if sum(w) > 0:
                    yield dict(args=[np.array(a), np.array(w)])
    rng = random.Random(seed)
    for _ in range(50 if tier == "quick" else 2000):
        n = rng.randint(1, 30)
        a = np.array([rng.choice([rng.uniform(-5, 5), float(rng.randint(-2, 2))]) for _ in range(n)])
        w = np.array([rng.choice([1.0, 1e-6, 1e6, 0.0, rng.uniform(0, 3)]) for _ in range(n)])
        if w.sum() > 0:
            yield dict(args=[a, w])


# ------------------------------------------------------------------------------------------------ weighted moments (1-d)
_WM = "(SUM(weights_in * arrin) / SUM(weights_in) if inputmean is None else inputmean)"

contract(
    "esutil.stat.util.wmom",
    params=dict(arrin="arr[real]", weights_in="arr[real]", inputmean="opt[real]", calcerr="bool", sdev="bool"),
    returns="tuple[real,real,real] if sdev else tuple[real,real]",
    requires={"positive-total-weight": "SUM(weights_in) > 0",
              "non-negative-weights": "all(weights_in[i] >= 0 for i in range(0, len(weights_in)))"},
    raises=[("ValueError", "len(weights_in) != len(arrin)", "iff")],
    ensures={
        "mean-is-sum-wx-over-sum-w-or-the-supplied-mean": "result[0] == " + _WM,
        "error-estimate-for-each-setting":
            "result[1] == (sqrt(SUM(weights_in ** 2 * (arrin - " + _WM + ") ** 2)) / SUM(weights_in) if calcerr"
            " else 1.0 / sqrt(SUM(weights_in)))",
        "weighted-deviation": "(not sdev and len(result) == 2) or (sdev and len(result) == 3 and"
                              " result[2] == sqrt(SUM(weights_in * (arrin - " + _WM + ") ** 2) / SUM(weights_in)))",
    },
    props=["C18", "C15"], runtime=False,
)


# ------------------------------------------------------------------------------------------------ bounded stand-ins (labelled)
def _fsum(xs):
    import math
    return math.fsum(float(x) for x in xs)


def wmom_direct(arr, w, inputmean, calcerr, sdev):
    """the statement evaluated directly with exactly-rounded sums; returns columns of (mean, err, sdev)"""
    import math
    import numpy as np
    arr = np.atleast_1d(arr).astype("f8")
    w = np.atleast_1d(w).astype("f8")
    a2 = arr if arr.ndim == 2 else arr[:, None]
    w2 = w if w.ndim == 2 else np.repeat(w[:, None], a2.shape[1], axis=1)
    out = []
    for d in range(a2.shape[1]):
        x, ww = a2[:, d], w2[:, d]
        wt = _fsum(ww)
        m = _fsum(ww * x) / wt if inputmean is None else float(inputmean)
        if calcerr:
            e = math.sqrt(_fsum((ww * (x - m)) ** 2)) / wt
        else:
            e = 1.0 / math.sqrt(wt)
        s = math.sqrt(_fsum(ww * (x - m) ** 2) / wt)
        # conditioning: the deviations x - m inherit the rounding of the mean (a few ulps of max|x|); when one weight
        # dominates and its datum sits next to the mean, the error and the deviation are sensitive to it.  The tolerance of
        # the comparison is the change of each quantity under that perturbation of the mean (zero when the mean is supplied)
        dm = 0.0 if inputmean is not None else 8e-16 * float(np.max(np.abs(x))) * max(1, len(x))
        tol_e = tol_s = 0.0
        for mm in (m - dm, m + dm):
            if calcerr:
                tol_e = max(tol_e, abs(math.sqrt(_fsum((ww * (x - mm)) ** 2)) / wt - e))
            tol_s = max(tol_s, abs(math.sqrt(_fsum(ww * (x - mm) ** 2) / wt) - s))
        out.append((m, e, s, dm, tol_e, tol_s))
    return out


def wmom_matches(result, arr, w, inputmean, calcerr, sdev):
    import numpy as np
    exp = wmom_direct(arr, w, inputmean, calcerr, sdev)
    if len(result) != (3 if sdev else 2):
        return False
    cols = [np.atleast_1d(np.asarray(r, dtype="f8")) for r in result]
    for c in cols:
        if c.size not in (1, len(exp)):
            return False
    for d, (m, e, s, dm, tol_e, tol_s) in enumerate(exp):
        got = [c[d] if c.size > 1 else c[0] for c in cols]
        want = [(m, dm), (e, tol_e)] + ([(s, tol_s)] if sdev else [])
        for g, (x, tol) in zip(got, want):
            if not (approx(g, x, 1e-300) or abs(float(g) - x) <= 2 * tol):
                return False
    return True


from esvc.speclang import approx  # noqa: E402

contract("esutil.stat.util.wmom#definition", params={}, assumed=True, runtime_name="esutil.stat.util.wmom",
         why_assumed="bounded run-time stand-in: N-by-d inputs and the agreement of numpy's float sums with exactly rounded sums "
                     "are outside the prover's model (the 1-d formulas are proved in esutil.stat.util.wmom)",
         rt_ensures={"weighted-moments-equal-their-definitions": "wmom_matches(result, arrin, weights_in, inputmean, calcerr, sdev)"},
         props=["C18"])


@domain("esutil.stat.util.wmom#definition")
def _dom_wmom_def(tier, seed):
    import random
    import numpy as np
    import esutil.stat.util as u
    rng = random.Random(seed)
    for _ in range(150 if tier == "quick" else 4000):
        n = rng.randint(1, 25)
        d = rng.choice([0, 0, 1, 2, 3])
        shape = (n,) if d == 0 else (n, d)
        arr = np.array([rng.uniform(-10, 10) for _ in range(int(np.prod(shape)))]).reshape(shape)
        wk = rng.choice(["equal", "wild", "zeros", "rand"])
        wshape = shape if (d and rng.random() < 0.5) else (n,)
        m = int(np.prod(wshape))
        if wk == "equal":
            w = np.full(m, 2.0)
        elif wk == "wild":
            w = np.array([10.0 ** rng.randint(-6, 6) for _ in range(m)])
        elif wk == "zeros":
            w = np.array([rng.choice([0.0, 1.0, 3.0]) for _ in range(m)])
        else:
            w = np.array([rng.uniform(0.01, 5) for _ in range(m)])
        w = w.reshape(wshape)
        if not (np.atleast_2d(w.T).sum(axis=1) > 0).all():
            continue
        for calcerr in (False, True):
            for sdev in (False, True):
                for im in (None, 0.25):
                    yield dict(call=(lambda a=arr, w=w, im=im, ce=calcerr, sd=sdev: u.wmom(a, w, inputmean=im, calcerr=ce, sdev=sd)),
                               args=[], ghost=dict(arrin=arr, weights_in=w, inputmean=im, calcerr=calcerr, sdev=sdev),
                               key="n=%d d=%d w=%s %s ce=%s sd=%s im=%s" % (n, d, wk, wshape, calcerr, sdev, im))


def sigma_clip_statement(arr, weights, niter, nsig, result):
    """repeat: discard the points not strictly within nsig deviations of the current mean, until nothing changes, everything
    would be discarded, or niter rounds were done; report mean/deviation/error of exactly the surviving subset"""
    import numpy as np
    arr = np.atleast_1d(arr).astype("f8")
    w = None if weights is None else np.atleast_1d(weights).astype("f8")
    m, s, e, idx = result

    def stats(ix):
        x = arr[ix]
        if w is None:
            mm = _fsum(x) / x.size
            ss = (_fsum((x - mm) ** 2) / x.size) ** 0.5
            return mm, ss, ss / x.size ** 0.5
        (mm, ee, ss, _dm, _te, _ts), = wmom_direct(x, w[ix], None, True, True)
        return mm, ss, ee
    ix = np.arange(arr.size)
    mm, ss, ee = stats(ix)
    amb = False
    for _ in range(niter):
        dist = np.abs(arr[ix] - mm)
        lim = nsig * ss
        if np.any(np.abs(dist - lim) <= 1e-9 * max(lim, 1e-300)):
            amb = True       # a point sits on the clipping boundary within rounding: outcome legitimately depends on rounding
            break
        keep = ix[dist < lim]
        if keep.size == 0 or keep.size == ix.size:
            break
        ix = keep
        mm, ss, ee = stats(ix)
    if amb:
        return True
    return (list(idx) == list(ix) and approx(m, mm, 1e-300) and approx(s, ss, 1e-12) and approx(e, ee, 1e-12))


contract("esutil.stat.util.sigma_clip#statement", params={}, assumed=True, runtime_name="esutil.stat.util.sigma_clip",
         why_assumed="bounded run-time stand-in for the iterative clipping loop (the history of subsets is not expressed as a "
                     "first-order postcondition; the per-subset statistics are the proved wmom formulas)",
         rt_ensures={"surviving-subset-and-its-statistics": "sigma_clip_statement(arr, weights, niter, nsig, result)"},
         props=["C18"])


@domain("esutil.stat.util.sigma_clip#statement")
def _dom_sigma_clip(tier, seed):
    import random
    import numpy as np
    import esutil.stat.util as u
    rng = random.Random(seed)
    for _ in range(200 if tier == "quick" else 5000):
        n = rng.randint(1, 40)
        arr = np.array([rng.gauss(0, 1) for _ in range(n)])
        for _k in range(rng.randint(0, 4)):
            arr[rng.randrange(n)] = rng.choice([-1, 1]) * rng.uniform(4, 60)
        weights = None if rng.random() < 0.5 else np.array([rng.choice([1.0, 0.2, 5.0, rng.uniform(0.1, 3)]) for _ in range(n)])
        niter = rng.randint(0, 10)
        nsig = rng.choice([0.5, 1.0, 1.5, 2.0, 3.0, 4.5, 6.0])

        def call(arr=arr, weights=weights, niter=niter, nsig=nsig):
            r = u.sigma_clip(arr, weights=weights, niter=niter, nsig=nsig, get_err=True, get_indices=True, silent=True, extra={})
            return r
        yield dict(call=call, args=[], ghost=dict(arr=arr, weights=weights, niter=niter, nsig=nsig),
                   key="n=%d niter=%d nsig=%s w=%s" % (n, niter, nsig, weights is not None))


def get_stats_consistent(arr, weights, kw, res):
    import numpy as np
    import esutil.stat.util as u
    a = np.atleast_1d(arr).astype("f8")
    if not (np.all(res["min"] == a.min(axis=0)) and np.all(res["max"] == a.max(axis=0))):
        return False
    if "nsig" in kw or "niter" in kw:
        m, s, e = u.sigma_clip(a, weights=weights, get_err=True, silent=True, extra={}, **kw)
        return approx(res["mean"], m) and approx(res["std"], s) and approx(res["err"], e)
    a2 = a if a.ndim == 2 else a[:, None]
    for d in range(a2.shape[1]):
        x = a2[:, d]
        if weights is None:
            mm = _fsum(x) / x.size
            ss = (_fsum((x - mm) ** 2) / x.size) ** 0.5
            ee = ss / x.size ** 0.5
        else:
            (mm, ee, ss, _dm, _te, _ts), = wmom_direct(x, weights, None, True, True)
        g = [np.atleast_1d(res[k])[d] for k in ("mean", "std", "err")]
        if not (approx(g[0], mm, 1e-300) and approx(g[1], ss, 1e-12) and approx(g[2], ee, 1e-12)):
            return False
    return True


contract("esutil.stat.util.get_stats#consistent", params={}, assumed=True, runtime_name="esutil.stat.util.get_stats",
         why_assumed="bounded run-time stand-in: dictionary assembly and N-by-d reductions (numpy mean/std along an axis)",
         rt_ensures={"min-max-mean-deviation-error-consistent": "get_stats_consistent(arr, weights, kw, result)"},
         props=["C18"])


@domain("esutil.stat.util.get_stats#consistent")
def _dom_get_stats(tier, seed):
    import random
    import numpy as np
    import esutil.stat.util as u
    rng = random.Random(seed + 1)
    for _ in range(120 if tier == "quick" else 3000):
        n = rng.randint(1, 30)
        d = rng.choice([0, 0, 2, 3])
        shape = (n,) if d == 0 else (n, d)
        arr = np.array([rng.gauss(1, 2) for _ in range(int(np.prod(shape)))]).reshape(shape)
        mode = rng.choice(["plain", "weights", "clip"]) if d == 0 else rng.choice(["plain", "weights"])
        weights = np.array([rng.uniform(0.1, 3) for _ in range(n)]) if mode == "weights" or (mode == "clip" and rng.random() < 0.5) else None
        kw = dict(nsig=rng.choice([1.0, 2.5, 4.0]), niter=rng.randint(0, 5)) if mode == "clip" else {}
        yield dict(call=(lambda arr=arr, weights=weights, kw=kw: u.get_stats(arr, weights=weights, **kw)), args=[],
                   ghost=dict(arr=arr, weights=weights, kw=kw), key="%s n=%d d=%d" % (mode, n, d))


def cov_round_trip(cov):
    import numpy as np
    import esutil.stat.util as u
    cor = u.cov2cor(cov)
    back = u.cor2cov(cor, np.sqrt(np.diag(cov)))
    return bool(np.allclose(back, cov, rtol=1e-12, atol=0)) and bool(np.allclose(np.diag(cor), 1.0, rtol=1e-12))


contract("esutil.stat.util.cov2cor#roundtrip", params={}, assumed=True, runtime_name="esutil.stat.util.cov2cor",
         why_assumed="bounded run-time stand-in for the composition cor2cov(cov2cor(C), sqrt(diag C)) == C (each direction's "
                     "element formula is proved; the composition needs sqrt(a)*sqrt(b) == sqrt(a*b), a nonlinear lemma)",
         rt_ensures={"covariance-reproduced": "cov_round_trip(cov)"},
         props=["C18"])


@domain("esutil.stat.util.cov2cor#roundtrip")
def _dom_roundtrip(tier, seed):
    for c in _dom_cov2cor(tier, seed):
        cov = c["args"][0]
        import numpy as np
        if (np.diag(cov) > 0).all():
            yield dict(call=(lambda cov=cov: None), args=[], ghost=dict(cov=cov))


# ------------------------------------------------------------------------------------------------ sigma clipping (deductive part)
# "returns the mean, deviation and error of exactly the surviving subset it reports": proved for the unweighted routine with the
# function's own locals as witnesses (tarr is the reported subset, element by element); the clipping rule itself (which points
# survive) is the bounded statement oracle sigma_clip#statement
contract(
    "esutil.stat.util.sigma_clip#unweighted", runtime_name="esutil.stat.util.sigma_clip",
    params=dict(arrin="arr[real]", weights="none", niter="nat", nsig="real", get_err="const:True", get_indices="const:True",
                extra="obj:dict{}", verbose="const:False", silent="const:True"),
    requires={"non-empty": "len(arrin) >= 1"},
    inline_calls=["esutil.stat.util._get_sigma_clip_subset", "esutil.stat.util._get_sigma_clip_stats"],
    loops={"L0": dict(counter="i", inv={
        "reported-indices-are-positions-of-the-input-in-increasing-order":
            "1 <= len(indices) and len(indices) <= len(arr) and all(0 <= indices[k] and indices[k] < len(arr) for k in range(0, len(indices)))"
            " and all(indices[a] < indices[b] for a in range(0, len(indices)) for b in range(a + 1, len(indices)))",
        "current-subset-is-the-input-at-those-positions":
            "len(tarr) == len(indices) and all(tarr[k] == arr[indices[k]] for k in range(0, len(indices))) and nold == len(indices)",
        "statistics-are-those-of-the-current-subset":
            "m == tarr.mean() and s == tarr.std() and e == s / sqrt(real(len(tarr)))",
    })},
    ret_post={"return#0": {
        "mean-deviation-error-of-exactly-the-reported-subset":
            "result[0] == tarr.mean() and result[1] == tarr.std() and result[2] == tarr.std() / sqrt(real(len(tarr)))"
            " and len(tarr) == len(result[3]) and all(tarr[k] == arrin[result[3][k]] for k in range(0, len(tarr)))",
        "reported-subset-is-a-non-empty-increasing-selection-of-positions":
            "1 <= len(result[3]) and len(result[3]) <= len(arrin)"
            " and all(0 <= result[3][k] and result[3][k] < len(arrin) for k in range(0, len(result[3])))"
            " and all(result[3][a] < result[3][b] for a in range(0, len(result[3])) for b in range(a + 1, len(result[3])))",
    }},
    ensures={"input-untouched": "all(arrin[k] == old(arrin[k]) for k in range(0, len(arrin)))"},
    modifies=["extra"],
    props=["C18", "C15"], runtime=False,
)

_SCW = "SUM(tweights * tarr) / SUM(tweights)"
contract(
    "esutil.stat.util.sigma_clip#weighted", runtime_name="esutil.stat.util.sigma_clip",
    params=dict(arrin="arr[real]", weights="arr[real]", niter="nat", nsig="real", get_err="const:True", get_indices="const:True",
                extra="obj:dict{}", verbose="const:False", silent="const:True"),
    requires={"non-empty": "len(arrin) >= 1", "positive-weights": "all(weights[k] > 0 for k in range(0, len(weights)))"},
    raises=[("ValueError", "len(weights) != len(arrin)", "iff")],
    inline_calls=["esutil.stat.util._get_sigma_clip_subset", "esutil.stat.util._get_sigma_clip_stats"],
    loops={"L0": dict(counter="i", inv={
        "reported-indices-are-positions-of-the-input-in-increasing-order":
            "1 <= len(indices) and len(indices) <= len(arr) and all(0 <= indices[k] and indices[k] < len(arr) for k in range(0, len(indices)))"
            " and all(indices[a] < indices[b] for a in range(0, len(indices)) for b in range(a + 1, len(indices)))",
        "current-subset-is-the-input-at-those-positions":
            "len(tarr) == len(indices) and len(tweights) == len(indices) and nold == len(indices) and len(weights) == len(arr)"
            " and all(tarr[k] == arr[indices[k]] and tweights[k] == weights[indices[k]] for k in range(0, len(indices)))",
        "statistics-are-the-weighted-moments-of-the-current-subset":
            "m == " + _SCW + " and s == sqrt(SUM(tweights * (tarr - " + _SCW + ") ** 2) / SUM(tweights))"
            " and e == sqrt(SUM(tweights ** 2 * (tarr - " + _SCW + ") ** 2)) / SUM(tweights)",
    })},
    ret_post={"return#0": {
        "weighted-mean-deviation-error-of-exactly-the-reported-subset":
            "result[0] == " + _SCW + " and result[1] == sqrt(SUM(tweights * (tarr - " + _SCW + ") ** 2) / SUM(tweights))"
            " and result[2] == sqrt(SUM(tweights ** 2 * (tarr - " + _SCW + ") ** 2)) / SUM(tweights)"
            " and len(tarr) == len(result[3]) and all(tarr[k] == arrin[result[3][k]] and tweights[k] == weights[result[3][k]] for k in range(0, len(tarr)))",
    }},
    modifies=["extra"],
    props=["C18", "C15"], runtime=False, timeout=20,
)
