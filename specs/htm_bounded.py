"""Properties C12 and C13, bounded part: brute-force statement oracles for the C++ HTM code (labelled bounded, never proved)."""
from esvc.speclang import contract, domain


def sky_sep(ra1, dec1, ra2, dec2):
    """matrix of true great-circle separations in degrees (long double, atan2 of |u x v| and u.v)"""
    import numpy as np
    L = np.longdouble
    d2r = np.arccos(L(-1)) / L(180)

    def unit(ra, dec):
        ra = np.asarray(ra, dtype=L) * d2r
        dec = np.asarray(dec, dtype=L) * d2r
        return np.stack([np.cos(dec) * np.cos(ra), np.cos(dec) * np.sin(ra), np.sin(dec)], axis=-1)
    u = unit(ra1, dec1)[:, None, :]
    v = unit(ra2, dec2)[None, :, :]
    cr = np.cross(u, v)
    s = np.sqrt((cr * cr).sum(axis=-1))
    c = (u * v).sum(axis=-1)
    sep = np.arctan2(s, c) / d2r
    # identical coordinates are at distance zero exactly
    same = (np.asarray(ra1)[:, None] == np.asarray(ra2)[None, :]) & (np.asarray(dec1)[:, None] == np.asarray(dec2)[None, :])
    sep[same] = 0
    return sep.astype("f8")


EDGE = 1e-9      # pairs whose separation is within 1e-9 degree of the radius are not constrained


def check_pairs(m1, m2, d12, sep, rad, maxmatch):
    """the statement of C12 for one result"""
    import numpy as np
    n1, n2 = sep.shape
    if not (m1.shape == m2.shape == d12.shape and m1.ndim == 1):
        return "shapes %s %s %s" % (m1.shape, m2.shape, d12.shape)
    if m1.size and (m1.min() < 0 or m1.max() >= n1 or m2.min() < 0 or m2.max() >= n2):
        return "index out of range"
    if (np.diff(m1) < 0).any():
        return "pairs are not grouped by first-set index in input order"
    key = m1.astype("i8") * n2 + m2
    if np.unique(key).size != key.size:
        return "a pair is reported more than once"
    t = sep[m1, m2]
    r1 = rad[m1]
    if (t > r1 + EDGE).any():
        k = int(np.flatnonzero(t > r1 + EDGE)[0])
        return "extra pair (%d, %d): true separation %.12g > radius %.12g" % (m1[k], m2[k], t[k], r1[k])
    if not (np.abs(d12 - t) <= 1e-9).all():
        k = int(np.argmax(np.abs(d12 - t)))
        return "pair (%d, %d): reported separation %.12g, true %.12g" % (m1[k], m2[k], d12[k], t[k])
    same = np.diff(m1) == 0
    if (np.diff(d12)[same] < 0).any():
        return "a group is not sorted by increasing separation"
    for i in range(n1):
        sure = np.flatnonzero(sep[i] <= rad[i] - EDGE)
        maybe = np.flatnonzero(sep[i] <= rad[i] + EDGE)
        got = m2[m1 == i]
        if maxmatch <= 0:
            missing = np.setdiff1d(sure, got)
            if missing.size:
                return "missing pair (%d, %d): true separation %.12g <= radius %.12g" % (i, missing[0], sep[i, missing[0]], rad[i])
        else:
            if not (min(maxmatch, sure.size) <= got.size <= min(maxmatch, maybe.size)):
                return "group %d has %d pairs, expected min(%d, %d)" % (i, got.size, maxmatch, sure.size)
            if got.size:
                # the k closest: nothing left out is closer than the farthest one kept (beyond the tolerance)
                left = np.setdiff1d(sure, got)
                if left.size and sep[i, left].min() < sep[i, got].max() - EDGE:
                    return "group %d keeps a pair at %.12g but leaves out a closer one at %.12g" % (i, sep[i, got].max(), sep[i, left].min())
    return True


def match_statement(ra1, dec1, ra2, dec2, radius, depth, maxmatch):
    import os
    import numpy as np
    import esutil.htm as htm
    sep = sky_sep(ra1, dec1, ra2, dec2)
    rad = np.zeros(np.size(ra1)) + np.asarray(radius, dtype="f8")
    h = htm.HTM(depth)
    a = h.match(ra1, dec1, ra2, dec2, radius, maxmatch=maxmatch)
    r = check_pairs(a[0], a[1], a[2], sep, rad, maxmatch)
    if r is not True:
        return "HTM.match: %s" % r
    b = htm.Matcher(depth, ra2, dec2).match(ra1, dec1, radius, maxmatch=maxmatch)
    r = check_pairs(b[0], b[1], b[2], sep, rad, maxmatch)
    if r is not True:
        return "Matcher.match: %s" % r
    if not (np.array_equal(a[0], b[0]) and np.array_equal(a[1], b[1]) and np.array_equal(a[2], b[2])) and maxmatch <= 0:
        return "the reusable matcher and the one-shot method give different pairs"
    # a file gives the same pairs as the in-memory call
    fn = os.path.join(os.environ.get("ESVC_SCRATCH", "/var/tmp"), "esvc-htm-%d.pairs" % os.getpid())
    try:
        cnt = h.match(ra1, dec1, ra2, dec2, radius, maxmatch=maxmatch, file=fn)
        if a[0].size == 0:
            if cnt not in (0, None) and cnt != 0:
                return "file mode reports %r pairs, memory mode none" % (cnt,)
        else:
            data = htm.read_pairs(fn)
            if cnt != a[0].size or data.size != a[0].size:
                return "file mode: count %r, %d rows read, memory mode %d pairs" % (cnt, data.size, a[0].size)
            if not (np.array_equal(data["i1"], a[0]) and np.array_equal(data["i2"], a[1])):
                return "file mode: different pairs from the in-memory call"
            if not (np.abs(data["d12"] - a[2]) <= 1e-12 * np.maximum(1, np.abs(a[2]))).all():
                return "file mode: separations differ from the in-memory call"
    finally:
        if os.path.exists(fn):
            os.remove(fn)
    return True


def depth_statement(ra1, dec1, ra2, dec2, radius, depths):
    """the pair set does not depend on the tree depth"""
    import numpy as np
    import esutil.htm as htm
    ref = None
    sep = sky_sep(ra1, dec1, ra2, dec2)
    rad = np.zeros(np.size(ra1)) + np.asarray(radius, dtype="f8")
    amb = np.abs(sep - rad[:, None]) <= EDGE
    for d in depths:
        m1, m2, d12 = htm.HTM(d).match(ra1, dec1, ra2, dec2, radius, maxmatch=-1)
        keep = ~amb[m1, m2]
        s = set(zip(m1[keep].tolist(), m2[keep].tolist()))
        if ref is None:
            ref, d0 = s, d
        elif s != ref:
            return "depth %d and depth %d give different pair sets (%d vs %d pairs; e.g. %r)" % (
                d0, d, len(ref), len(s), sorted(ref ^ s)[:3])
    return True


contract("esutil.htm#match", params={}, assumed=True, runtime_name="esutil.htm.HTM",
         why_assumed="bounded statement oracle (labelled): the triangle search is the C++ HTM library (SpatialDomain/SpatialConvex/"
                     "SpatialIndex), outside the reach of the VC generator; brute-force all-pairs separations in long double",
         rt_ensures={"exactly-the-pairs-within-the-radius": "match_statement(ra1, dec1, ra2, dec2, radius, depth, maxmatch) is True"},
         props=["C12"])
contract("esutil.htm#match-depths", params={}, assumed=True, runtime_name="esutil.htm.HTM",
         why_assumed="bounded statement oracle (labelled), see esutil.htm#match",
         rt_ensures={"pair-set-independent-of-depth": "depth_statement(ra1, dec1, ra2, dec2, radius, depths) is True"},
         props=["C12"])


def _points(np, rng, kind, n):
    """point sets of the statement: uniform, clustered caps, poles, the seam, duplicates"""
    if kind == "uniform":
        return rng.uniform(0, 360, n), np.degrees(np.arcsin(rng.uniform(-1, 1, n)))
    if kind.startswith("cap"):
        size = float(kind[3:])
        ra0, dec0 = rng.uniform(0, 360), np.degrees(np.arcsin(rng.uniform(-0.95, 0.95)))
        dec = dec0 + rng.uniform(-size, size, n)
        ra = ra0 + rng.uniform(-size, size, n) / max(np.cos(np.radians(dec0)), 0.05)
        return ra % 360, np.clip(dec, -90, 90)
    if kind.startswith("pole"):
        # a tight group around the north or south pole (tangent-plane offsets of `size` degrees): all right ascensions occur
        size = float(kind[4:])
        x, y = rng.normal(0, size, n), rng.normal(0, size, n)
        dec = (90 - np.hypot(x, y)) * (1 if rng.random() < 0.5 else -1)
        return np.degrees(np.arctan2(y, x)) % 360, dec
    if kind == "split":
        # used for two catalogues that overlap only partly: a 1-degree field astride the equator or an octant meridian
        ra0 = float(rng.choice([200.0, 90.0, 180.0, 33.0]))
        return (ra0 + rng.uniform(-0.5, 0.5, n)) % 360, rng.uniform(-0.5, 0.5, n)
    if kind == "north":
        return rng.uniform(0, 360, n), 90 - np.abs(rng.normal(0, 2.0, n)) * rng.choice([0, 1, 1, 1], n)
    if kind == "south":
        return rng.uniform(0, 360, n), -90 + np.abs(rng.normal(0, 0.5, n)) * rng.choice([0, 1, 1, 1], n)
    if kind == "seam":
        ra = rng.normal(0, 1.0, n) % 360
        ra[: n // 5] = rng.choice([0.0, 360.0 - 1e-9, 1e-9, 359.999], n // 5)
        return ra, rng.uniform(-30, 30, n)
    if kind == "octant":
        ra = rng.choice([0.0, 90.0, 180.0, 270.0, 45.0], n) + rng.choice([0, 0, 1e-7, -1e-7, 0.3], n)
        dec = rng.choice([0.0, 0.0, 45.0, -45.0, 90.0, -90.0, 30.0], n) + rng.choice([0, 0, 1e-7, -1e-7], n)
        return ra % 360, np.clip(dec, -90, 90)
    raise ValueError(kind)


def _layout(np, rng, a):
    """byte-swapped, non-contiguous, float32-free layouts of a coordinate array (values unchanged)"""
    k = rng.integers(0, 4)
    if k == 1:
        return a.astype(">f8")
    if k == 2:
        big = np.zeros(a.size * 2)
        big[::2] = a
        return big[::2]
    if k == 3:
        return a[::-1].copy()[::-1]
    return a


def _max_depth(radius):
    """deepest tree for which a cap of this radius is covered by at most a few thousand triangles (the cover is computed for
    every first-set point; deeper trees only cost time, the statement is the same at every depth)"""
    import math
    area = 2 * math.pi * (1 - math.cos(math.radians(min(max(radius, 1e-6), 180.0)))) * (180 / math.pi) ** 2
    d = 13
    while d > 1 and area / (41252.96 / (8 * 4 ** d)) > 4000:
        d -= 1
    return d


def _match_cases(tier, seed):
    import numpy as np
    rng = np.random.default_rng(seed + 31)
    kinds = ["uniform", "cap30", "cap5", "cap0.5", "cap0.01", "cap0.0001", "north", "south", "seam", "octant", "pole0.05", "pole0.001"]
    reps = 1 if tier == "quick" else 6
    for rep in range(reps):
        for kind in kinds:
            n1, n2 = (int(rng.integers(5, 25)), int(rng.integers(20, 120))) if tier == "quick" else (int(rng.integers(5, 60)), int(rng.integers(20, 400)))
            ra2, dec2 = _points(np, rng, kind, n2)
            self_match = rng.random() < 0.3
            if self_match:
                ra1, dec1 = ra2.copy(), dec2.copy()
            else:
                ra1, dec1 = _points(np, rng, kind, n1)
                # duplicates of second-set points and exact copies inside the first set
                k = min(3, n1)
                ra1[:k], dec1[:k] = ra2[:k], dec2[:k]
            scale = {"uniform": 20.0, "north": 3.0, "south": 1.0, "seam": 1.0, "octant": 1.0}.get(kind) or float(kind[4:] if kind.startswith("pole") else kind[3:])
            radii = [0.0, 1e-6, scale * 0.3, scale * rng.uniform(0.01, 1.5), rng.choice([60.0, 90.0, 120.0, 180.0])]
            radii.append(scale * rng.uniform(0.05, 1.0, ra1.size))        # one radius per point
            if tier == "quick":
                radii = [radii[rep % 2], radii[2 + int(rng.integers(0, 2))], radii[4] if ra2.size * ra1.size < 1500 else radii[3], radii[5]]
            if not self_match and ra1.size >= 6:
                # consecutive bit-identical first-set positions whose per-point radius grows and shrinks
                ra1[3], dec1[3] = ra1[2], dec1[2]
                ra1[5], dec1[5] = ra1[4], dec1[4]
                perpoint = radii[-1]
                perpoint[2], perpoint[3] = scale * 0.05, scale * 1.0
                perpoint[4], perpoint[5] = scale * 1.0, scale * 0.05
            for radius in radii:
                depth = min(int(rng.choice([1, 2, 3, 5, 7, 9, 10, 11, 12, 13])), _max_depth(float(np.max(radius))))
                maxmatch = int(rng.choice([-1, 0, 0, 1, 2, 3, 1000]))
                yield dict(ra1=_layout(np, rng, ra1), dec1=_layout(np, rng, dec1), ra2=_layout(np, rng, ra2), dec2=_layout(np, rng, dec2),
                           radius=radius if np.ndim(radius) == 0 else _layout(np, rng, radius), depth=depth, maxmatch=maxmatch,
                           kind=kind, self_match=self_match)


def _edge_cases(tier, seed):
    """pairs on either side of a triangle boundary (the equator, the octant meridians, a mid-latitude parallel crossing many leaf
    edges), separated by a set fraction of a radius between 5e-7 and 1e-4 degree: the smallest radii of the statement"""
    import numpy as np
    rng = np.random.default_rng(seed + 77)
    radii = [1e-6, 1.3e-6, 2e-6, 2.5e-6, 5e-6, 1e-5, 3e-5, 1e-4]
    if tier == "quick":
        radii = [1e-6, float(rng.choice([1.3e-6, 2e-6, 2.5e-6])), float(rng.choice([5e-6, 1e-5, 3e-5, 1e-4]))]
    n = 120 if tier == "quick" else 400
    for radius in radii:
        for where in ("equator", "meridian", "oblique"):
            frac = rng.uniform(0.05, 0.999, n)
            frac[: n // 3] = rng.uniform(0.85, 0.999, n // 3)
            sep = frac * radius
            if where == "equator":
                ra = rng.uniform(0, 360, n)
                ra1, ra2, dec1, dec2 = ra, ra.copy(), sep * 0.5, -sep * 0.5
            elif where == "meridian":
                dec = rng.uniform(-60, 60, n)
                m = rng.choice([0.0, 90.0, 180.0, 270.0, 45.0], n)
                half = 0.5 * sep / np.cos(np.radians(dec))
                ra1, ra2, dec1, dec2 = (m + half) % 360, (m - half) % 360, dec, dec.copy()
            else:
                ra = rng.uniform(0, 360, n)
                dec = rng.uniform(-80, 80, n)
                ang = rng.uniform(0, 2 * np.pi, n)
                ra1, dec1 = ra, dec
                ra2, dec2 = (ra + sep * np.cos(ang) / np.cos(np.radians(dec))) % 360, dec + sep * np.sin(ang)
            for depth in ([int(rng.choice([3, 10, 12, 13]))] if tier == "quick" else [3, 10, 13]):
                yield dict(ra1=np.asarray(ra1, dtype="f8"), dec1=np.asarray(dec1, dtype="f8"), ra2=np.asarray(ra2, dtype="f8"),
                           dec2=np.asarray(dec2, dtype="f8"), radius=radius if rng.random() < 0.7 else np.full(n, radius),
                           depth=depth, maxmatch=int(rng.choice([-1, 0, 1000])), kind="edge-" + where, self_match=False)


    # catalogues that overlap only partly: first-set points in and far outside the declination / right-ascension range of the
    # second set, interleaved (anything that pre-selects one list must keep reporting positions in the caller's arrays)
    for rep in range(2 if tier == "quick" else 12):
        n2 = int(rng.integers(30, 80))
        ra0, dec0 = float(rng.uniform(0, 360)), float(rng.uniform(-60, 60))
        ra2 = (ra0 + rng.uniform(-1, 1, n2)) % 360
        dec2 = dec0 + rng.uniform(-1, 1, n2)
        radius = float(rng.choice([0.01, 0.2]))
        n1 = 2 * int(rng.integers(6, 15))
        ra1, dec1 = np.empty(n1), np.empty(n1)
        pick = rng.integers(0, n2, n1)
        inside = rng.random(n1) < 0.5
        inside[1], inside[0] = True, False
        ra1[inside] = ra2[pick[inside]] + 0.3 * radius
        dec1[inside] = dec2[pick[inside]] + 0.3 * radius
        far = rng.choice([-1.0, 1.0], n1) * rng.uniform(5, 25, n1)
        ra1[~inside] = ra2[pick[~inside]] + (far[~inside] if rep % 2 else 0.0)
        dec1[~inside] = np.clip(dec2[pick[~inside]] + (0.0 if rep % 2 else far[~inside]), -90, 90)
        yield dict(ra1=ra1 % 360, dec1=dec1, ra2=ra2, dec2=dec2, radius=radius, depth=int(rng.choice([6, 9, 10])),
                   maxmatch=int(rng.choice([-1, 1, 3])), kind="partly-overlapping", self_match=False)


@domain("esutil.htm#match")
def _dom_match(tier, seed):
    import itertools
    import numpy as np
    for c in itertools.chain(_match_cases(tier, seed), _edge_cases(tier, seed)):
        key = "%s n1=%d n2=%d radius=%s depth=%d maxmatch=%d self=%s" % (
            c["kind"], c["ra1"].size, c["ra2"].size, ("%.3g" % c["radius"]) if np.ndim(c["radius"]) == 0 else "per-point", c["depth"], c["maxmatch"], c["self_match"])
        yield dict(call=(lambda: None), args=[], ghost={k: c[k] for k in ("ra1", "dec1", "ra2", "dec2", "radius", "depth", "maxmatch")}, key=key)


@domain("esutil.htm#match-depths")
def _dom_match_depths(tier, seed):
    import numpy as np
    k = 0
    for c in _match_cases(tier, seed + 1):
        k += 1
        if tier == "quick" and k % 4:
            continue
        dmax = _max_depth(float(np.max(c["radius"])))
        depths = sorted({min(d, dmax) for d in (1, 4, 8, 11, 13)})
        if len(depths) < 2:
            depths = [1, 2]
        yield dict(call=(lambda: None), args=[], ghost=dict(ra1=c["ra1"], dec1=c["dec1"], ra2=c["ra2"], dec2=c["dec2"], radius=c["radius"], depths=depths),
                   key="%s n1=%d n2=%d depths=%s" % (c["kind"], c["ra1"].size, c["ra2"].size, depths))


# ------------------------------------------------------------------------------------------------ C13
def ids_statement(ra, dec, depths):
    """valid range, hierarchy, scalar == array"""
    import numpy as np
    import esutil.htm as htm
    prev = None
    for d in depths:
        h = htm.HTM(d)
        ids = h.lookup_id(ra, dec)
        if ids.shape != (ra.size,) or ids.dtype != np.dtype("i8"):
            return "depth %d: ids have shape %s dtype %s" % (d, ids.shape, ids.dtype)
        lo, hi = 8 * 4 ** d, 16 * 4 ** d - 1
        if (ids < lo).any() or (ids > hi).any():
            k = int(np.flatnonzero((ids < lo) | (ids > hi))[0])
            return "depth %d: id %d of (%r, %r) outside [%d, %d]" % (d, ids[k], ra[k], dec[k], lo, hi)
        if prev is not None and prev[0] == d - 1:
            if ((ids >> 2) != prev[1]).any():
                k = int(np.flatnonzero((ids >> 2) != prev[1])[0])
                return "(%r, %r): id %d at depth %d is not a child of id %d at depth %d" % (ra[k], dec[k], ids[k], d, prev[1][k], d - 1)
        prev = (d, ids)
        for k in (0, ra.size // 2, ra.size - 1):
            one = h.lookup_id(float(ra[k]), float(dec[k]))
            if np.size(one) != 1 or int(np.ravel(one)[0]) != int(ids[k]):
                return "depth %d: scalar call gives %r, array call %d" % (d, one, ids[k])
        if d in (0, 5, 12, 20):
            # the same positions in other memory layouts: byte-swapped, strided, as a list
            big = np.zeros(ra.size * 2)
            big[::2] = ra
            for tag, a, b in ((">f8", ra.astype(">f8"), dec.astype(">f8")), ("strided", big[::2], dec),
                              ("mixed", ra, dec.astype(">f8")), ("list", list(ra[:5]), list(dec[:5]))):
                other = h.lookup_id(a, b)
                if not np.array_equal(other, ids[:len(other)]):
                    return "depth %d: %s input gives different ids" % (d, tag)
    return True


def intersect_statement(ra0, dec0, radius, depth, pra, pdec):
    """the triangles intersecting a circle contain the triangle of every position inside it; triangles reported as fully inside
    contain only positions inside the circle"""
    import numpy as np
    import esutil.htm as htm
    h = htm.HTM(depth)
    inc = np.asarray(h.intersect(ra0, dec0, radius, inclusive=True))
    full = np.asarray(h.intersect(ra0, dec0, radius, inclusive=False))
    lo, hi = 8 * 4 ** depth, 16 * 4 ** depth - 1
    for name, lst in (("inclusive", inc), ("fully-inside", full)):
        if lst.size and (lst.min() < lo or lst.max() > hi):
            return "%s list holds id %d outside [%d, %d]" % (name, lst.min() if lst.min() < lo else lst.max(), lo, hi)
        if np.unique(lst).size != lst.size:
            return "%s list holds a triangle twice" % name
    if not np.isin(full, inc).all():
        return "a fully-inside triangle is missing from the inclusive list"
    pts_ra = np.concatenate([[ra0], pra])
    pts_dec = np.concatenate([[dec0], pdec])
    sep = sky_sep([ra0], [dec0], pts_ra, pts_dec)[0]
    ids = h.lookup_id(pts_ra, pts_dec)
    inside = sep <= radius - 1e-9
    outside = sep > radius + 1e-9
    miss = inside & ~np.isin(ids, inc)
    if miss.any():
        k = int(np.flatnonzero(miss)[0])
        return "position (%r, %r) at %.9g deg from the centre is inside the circle but its triangle %d is not in the list" % (
            pts_ra[k], pts_dec[k], sep[k], ids[k])
    bad = outside & np.isin(ids, full)
    if bad.any():
        k = int(np.flatnonzero(bad)[0])
        return "triangle %d is reported fully inside but contains (%r, %r) at %.9g deg > radius" % (ids[k], pts_ra[k], pts_dec[k], sep[k])
    return True


def bincount_statement(ra1, dec1, ra2, dec2, rmin, rmax, nbin, scale, depth):
    """log-binned pair counts == brute force, for scale None / scalar / per point, and with precomputed ids / reverse indices"""
    import numpy as np
    import esutil.htm as htm
    import esutil.stat as stat
    h = htm.HTM(depth)
    sep = sky_sep(ra1, dec1, ra2, dec2)
    # separations are in degrees without a scale, and scale * angle in radians with one
    if scale is None:
        r = sep
    else:
        r = np.radians(sep) * (np.zeros(ra1.size) + np.asarray(scale, dtype="f8"))[:, None]
    lower, upper, counts = h.bincount(rmin, rmax, nbin, ra1, dec1, ra2, dec2, scale=scale)
    if not (len(lower) == len(upper) == len(counts) == nbin):
        return "lengths %d %d %d for nbin=%d" % (len(lower), len(upper), len(counts), nbin)
    edges = 10.0 ** (np.log10(rmin) + (np.log10(rmax) - np.log10(rmin)) / nbin * np.arange(nbin + 1))
    if not (np.allclose(lower, edges[:-1], rtol=1e-12, atol=0) and np.allclose(upper, edges[1:], rtol=1e-12, atol=0)):
        return "bin edges are not logarithmic between rmin and rmax"
    # brute force; pairs within 1e-9 (relative) of an edge are not constrained; identical coordinates are at distance zero (< rmin)
    lo_cnt = np.zeros(nbin, dtype="i8")
    hi_cnt = np.zeros(nbin, dtype="i8")
    for b in range(nbin):
        lo_cnt[b] = ((r >= edges[b] * (1 + 1e-9)) & (r < edges[b + 1] * (1 - 1e-9))).sum()
        hi_cnt[b] = ((r >= edges[b] * (1 - 1e-9)) & (r < edges[b + 1] * (1 + 1e-9))).sum()
    counts = np.asarray(counts)
    if ((counts < lo_cnt) | (counts > hi_cnt)).any():
        b = int(np.flatnonzero((counts < lo_cnt) | (counts > hi_cnt))[0])
        return "bin %d [%.6g, %.6g): %d pairs counted, brute force %d..%d" % (b, edges[b], edges[b + 1], counts[b], lo_cnt[b], hi_cnt[b])
    # precomputed ids and reverse indices
    ids = h.lookup_id(ra2, dec2)
    c2 = h.bincount(rmin, rmax, nbin, ra1, dec1, ra2, dec2, scale=scale, htmid2=ids, getbins=False)
    if not np.array_equal(np.asarray(c2), counts):
        return "supplying htmid2 changes the counts: %s vs %s" % (np.asarray(c2).tolist(), counts.tolist())
    minid, maxid = int(ids.min()), int(ids.max())
    hist, rev = stat.histogram(ids - minid, rev=True)
    c3 = h.bincount(rmin, rmax, nbin, ra1, dec1, ra2, dec2, scale=scale, htmid2=ids, htmrev2=rev, minid=minid, maxid=maxid, getbins=False)
    if not np.array_equal(np.asarray(c3), counts):
        return "supplying htmid2, htmrev2, minid, maxid changes the counts: %s vs %s" % (np.asarray(c3).tolist(), counts.tolist())
    # the caller's precomputed arrays in other layouts (a column of a table, a field of a record array, byte-swapped): the values
    # are what counts.  Done on a depth-1 tree, whose reverse-index table has a few dozen entries.
    h1 = htm.HTM(1)
    base = np.asarray(h1.bincount(rmin, rmax, nbin, ra1, dec1, ra2, dec2, scale=scale, getbins=False))
    ids = h1.lookup_id(ra2, dec2)
    minid, maxid = int(ids.min()), int(ids.max())
    hist, rev = stat.histogram(ids - minid, rev=True)
    tab = np.zeros((rev.size, 2), dtype=rev.dtype)
    tab[:, 0] = rev
    rec = np.zeros(ids.size, dtype=[("pad", "i4"), ("id", ids.dtype)])
    rec["id"] = ids
    for what, i2, r2 in (("a column of a 2-d table as htmrev2", ids, tab[:, 0]), ("a record field as htmid2", rec["id"], rev),
                         ("byte-swapped htmrev2", ids, rev.astype(rev.dtype.newbyteorder()))):
        c4 = h1.bincount(rmin, rmax, nbin, ra1, dec1, ra2, dec2, scale=scale, htmid2=i2, htmrev2=r2, minid=minid, maxid=maxid, getbins=False)
        if not np.array_equal(np.asarray(c4), base):
            return "%s changes the counts: %s vs %s" % (what, np.asarray(c4).tolist(), base.tolist())
    return True


contract("esutil.htm#ids", params={}, assumed=True, runtime_name="esutil.htm.HTM",
         why_assumed="bounded statement oracle (labelled): the recursive triangle descent is C++ (SpatialIndex), outside the reach of the VC generator",
         rt_ensures={"ids-in-range-hierarchical-scalar-equals-array": "ids_statement(ra, dec, depths) is True"},
         props=["C13"])
contract("esutil.htm#intersect", params={}, assumed=True, runtime_name="esutil.htm.HTM",
         why_assumed="bounded statement oracle (labelled): circle / triangle intersection is C++ (SpatialDomain, SpatialConvex)",
         rt_ensures={"circle-covered-and-full-triangles-inside": "intersect_statement(ra0, dec0, radius, depth, pra, pdec) is True"},
         props=["C13"])
contract("esutil.htm#bincount", params={}, assumed=True, runtime_name="esutil.htm.HTM",
         why_assumed="bounded statement oracle (labelled): the pair counter is C++ (HTMC::cbincount over the HTM library)",
         rt_ensures={"pair-counts-equal-brute-force": "bincount_statement(ra1, dec1, ra2, dec2, rmin, rmax, nbin, scale, depth) is True"},
         props=["C13"])


@domain("esutil.htm#ids")
def _dom_ids(tier, seed):
    import numpy as np
    rng = np.random.default_rng(seed + 32)
    n = 60 if tier == "quick" else 2000
    sets = []
    for kind in ("uniform", "north", "south", "seam", "octant", "cap0.0001"):
        sets.append((kind, _points(np, rng, kind, n)))
    special_ra = np.array([0.0, 90.0, 180.0, 270.0, 360.0 - 1e-12, 45.0, 0.0, 0.0, 123.0, 90.0, 180.0])
    special_dec = np.array([0.0, 0.0, 0.0, 0.0, 0.0, 35.26438968275466, 90.0, -90.0, 90.0, 45.0, -45.0])
    sets.append(("special", (special_ra, special_dec)))
    for kind, (ra, dec) in sets:
        yield dict(call=(lambda: None), args=[], ghost=dict(ra=ra, dec=dec, depths=list(range(0, 21))), key="%s n=%d depths 0..20" % (kind, ra.size))


@domain("esutil.htm#intersect")
def _dom_intersect(tier, seed):
    import numpy as np
    rng = np.random.default_rng(seed + 33)
    ncase = 30 if tier == "quick" else 400
    centres = [(0.0, 0.0), (90.0, 0.0), (0.0, 90.0), (10.0, -90.0), (359.9999, 30.0), (45.0, 35.26438968275466), (200.0, 89.5)]
    for k in range(ncase):
        ra0, dec0 = centres[k] if k < len(centres) else (float(rng.uniform(0, 360)), float(np.degrees(np.arcsin(rng.uniform(-1, 1)))))
        radius = float(10.0 ** rng.uniform(-4, np.log10(90.0))) if k % 4 else float(rng.choice([20.0, 25.0, 40.0, 60.0, 90.0]))
        depth = min(int(rng.integers(1, 13)), _max_depth(radius))
        # probes: inside, around the rim, and outside (up to 3 radii)
        m = 300 if tier == "quick" else 2000
        rr = radius * np.concatenate([np.sqrt(rng.uniform(0, 1, m // 2)), rng.uniform(0.98, 1.02, m // 4), rng.uniform(1, 3, m // 4)])
        rr = np.minimum(rr, 179.9)
        th = rng.uniform(0, 2 * np.pi, rr.size)
        # destination point at angular distance rr, bearing th
        d0, a0 = np.radians(dec0), np.radians(ra0)
        rrr = np.radians(rr)
        dec = np.arcsin(np.clip(np.sin(d0) * np.cos(rrr) + np.cos(d0) * np.sin(rrr) * np.cos(th), -1, 1))
        ra = a0 + np.arctan2(np.sin(th) * np.sin(rrr) * np.cos(d0), np.cos(rrr) - np.sin(d0) * np.sin(dec))
        yield dict(call=(lambda: None), args=[], ghost=dict(ra0=ra0, dec0=dec0, radius=radius, depth=depth, pra=np.degrees(ra) % 360, pdec=np.degrees(dec)),
                   key="centre (%.6g, %.6g) radius %.4g depth %d" % (ra0, dec0, radius, depth))


@domain("esutil.htm#bincount")
def _dom_bincount(tier, seed):
    import numpy as np
    rng = np.random.default_rng(seed + 34)
    kinds = ["uniform", "cap5", "cap0.5", "cap0.01", "north", "seam", "octant", "pole0.05", "split"]
    reps = 1 if tier == "quick" else 8
    for rep in range(reps):
        for kind in kinds:
            n1, n2 = int(rng.integers(5, 40)), int(rng.integers(30, 200))
            ra2, dec2 = _points(np, rng, kind, n2)
            if kind == "split":
                # the second catalogue lies on one side of the equator only, the first one straddles it
                keep = dec2 > 0.02
                ra2, dec2 = ra2[keep], dec2[keep]
                m1 = max(n1, 30)
                ra1 = (ra2[0] + rng.uniform(-0.5, 0.5, m1)) % 360          # the same field as the second catalogue
                dec1 = rng.uniform(-0.5, 0.5, m1)
                dec1[::2] = -np.abs(dec1[::2]) * 0.5         # every other point just south of the equator
            elif rng.random() < 0.3:
                ra1, dec1 = ra2[:n1].copy(), dec2[:n1].copy()
            else:
                ra1, dec1 = _points(np, rng, kind, n1)
            size = {"uniform": 30.0, "north": 3.0, "seam": 1.0, "octant": 1.0, "split": 1.0}.get(kind) or float(kind[4:] if kind.startswith("pole") else kind[3:])
            for scale_kind in ("none", "scalar", "array"):
                if scale_kind == "none":
                    scale, smax = None, 1.0
                elif scale_kind == "scalar":
                    scale = float(10.0 ** rng.uniform(-1, 2))
                    smax = scale
                else:
                    scale = 10.0 ** rng.uniform(-0.7, 0.7, ra1.size)      # differs from point to point, up and down
                    smax = float(scale.min())
                rmax = size * rng.uniform(0.5 if kind == "split" else 0.2, 1.0) * (1.0 if scale is None else np.radians(1.0) * smax)
                rmin = rmax * 10.0 ** rng.uniform(-3, -0.5)
                nbin = int(rng.integers(1, 9))
                # the pair counter histograms the ids of the second set over their whole range (8 * 4**depth bins when the set
                # straddles an octant boundary): depth 9 keeps that at 2e6 bins per call; depths 10..12 in the thorough tier
                depth = min(int(rng.integers(1, 13)), _max_depth(size), 9 if (tier == "quick" or rng.random() < 0.8) else 12)
                yield dict(call=(lambda: None), args=[], ghost=dict(ra1=ra1, dec1=dec1, ra2=ra2, dec2=dec2, rmin=float(rmin), rmax=float(rmax), nbin=nbin,
                                                                     scale=scale, depth=depth),
                           key="%s n1=%d n2=%d rmin=%.3g rmax=%.3g nbin=%d scale=%s depth=%d" % (kind, n1, n2, rmin, rmax, nbin, scale_kind, depth))
