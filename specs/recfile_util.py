"""Contracts for esutil/recfile/Util.py row/column selection (property C02)."""
from esvc.speclang import contract, domain


# --------------------------------------------------------------------------- spec functions (Python slice semantics)
# validated exhaustively against slice.indices() in esvc/selfcheck.py
def py_bound(x, n, default):
    """normalised bound of a slice with positive step over a sequence of length n"""
    return default if x is None else (max(x + n, 0) if x < 0 else min(x, n))


def py_count(a, b, step):
    """number of indices in range(a, b, step) for step > 0"""
    return 0 if b <= a else (b - a + step - 1) // step


def py_step(step):
    return 1 if step is None else step


_REC = "obj:Recfile{nrows:nat}"

contract(
    "esutil.recfile.Util.Recfile._get_slice_nrows",
    params=dict(self=_REC, arg="slice"),
    requires={"normalised": "arg.start is not None and arg.stop is not None and arg.step is not None"
                            " and arg.step >= 1 and arg.start <= arg.stop"},
    returns="int",
    ensures={"count": "result == py_count(arg.start, arg.stop, arg.step)"},
    props=["C02"],
)

contract(
    "esutil.recfile.Util.Recfile._process_slice",
    params=dict(self=_REC, arg="slice"),
    requires={"positive-step": "arg.step is None or arg.step >= 1"},
    returns="slice",
    ensures={
        # the row set {start + k*step : k < count} equals range(*slice.indices(nrows))
        "same-count-as-python": "py_count(result.start, result.stop, result.step)"
                                " == py_count(py_bound(arg.start, self.nrows, 0), py_bound(arg.stop, self.nrows, self.nrows), py_step(arg.step))",
        "same-first-row-as-python": "py_count(result.start, result.stop, result.step) == 0"
                                    " or result.start == py_bound(arg.start, self.nrows, 0)",
        "same-step": "result.step == py_step(arg.step)",
        # what the C++ reader requires of its arguments (assumed contract of read_binary_slice)
        "reader-precondition": "0 <= result.start and result.start <= result.stop and result.stop <= self.nrows",
    },
    props=["C02"],
)

contract(
    "esutil.recfile.Util.Recfile._fix_range",
    params=dict(self=_REC, num="int", isslice="bool"),
    returns="int",
    ensures={
        "slice-bound": "not isslice or result == py_bound(num, self.nrows, 0)",
        "single-row-wraps-negative": "isslice or not (-self.nrows <= num and num < 0) or result == self.nrows + num",
        "single-row-in-range-unchanged": "isslice or not (0 <= num and num < self.nrows) or result == num",
        "single-row-out-of-range-stays-out": "isslice or (-self.nrows <= num and num < self.nrows)"
                                              " or result < 0 or result >= self.nrows",
    },
    props=["C02"],
)

contract(
    "esutil.recfile.Util.Recfile._slice2rows",
    params=dict(self=_REC, start="opt[int]", stop="opt[int]", step="opt[pos]"),
    returns="arr[int]",
    ensures={
        "count": "len(result) == py_count(py_bound(start, self.nrows, 0), py_bound(stop, self.nrows, self.nrows), py_step(step))",
        "rows": "all(result[k] == py_bound(start, self.nrows, 0) + k * py_step(step) for k in range(0, len(result)))",
    },
    props=["C02"],
)


def _recfile_stub(nrows):
    import esutil.recfile.Util as U
    r = U.Recfile.__new__(U.Recfile)
    r.nrows = nrows
    return r


def _bounds(n):
    return [None] + list(range(-n - 2, n + 3))


@domain("esutil.recfile.Util.Recfile._process_slice")
def _dom_process_slice(tier, seed):
    for n in (range(0, 5) if tier == "quick" else range(0, 8)):
        for a in _bounds(n):
            for b in _bounds(n):
                for c in (None, 1, 2, 3):
                    yield dict(args=[_recfile_stub(n), slice(a, b, c)], names=["self", "arg"], key="n=%d %r" % (n, (a, b, c)))


@domain("esutil.recfile.Util.Recfile._slice2rows")
def _dom_slice2rows(tier, seed):
    for n in (range(0, 5) if tier == "quick" else range(0, 8)):
        for a in _bounds(n):
            for b in _bounds(n):
                for c in (None, 1, 2, 3):
                    yield dict(args=[_recfile_stub(n), a, b, c], names=["self", "start", "stop", "step"], key="n=%d %r" % (n, (a, b, c)))


@domain("esutil.recfile.Util.Recfile._fix_range")
def _dom_fix_range(tier, seed):
    for n in range(0, 6):
        for num in range(-n - 3, n + 4):
            for s in (True, False):
                yield dict(args=[_recfile_stub(n), num, s], names=["self", "num", "isslice"], key="n=%d num=%d %s" % (n, num, s))


# --------------------------------------------------------------------------- row lists
def wrap1(x, single, n):
    """a single scalar row in [-n, 0) counts from the end; rows of longer lists are taken literally"""
    return x + n if (single and x < 0) else x


_ROWS_BAD = ("(len(rows) == 1 and not (-self.nrows <= rows[0] and rows[0] < self.nrows))"
             " or (len(rows) > 1 and any(rows[j] < 0 or rows[j] >= self.nrows for j in range(0, len(rows))))")

contract(
    "esutil.recfile.Util.Recfile._get_rows2read",
    params=dict(self=_REC, rows="arr[int]"),
    returns="arr[int]",
    raises=[("ValueError", _ROWS_BAD, "iff")],     # out-of-range row lists are rejected
    ensures={
        "ascending-distinct": "all(result[i] < result[i + 1] for i in range(0, len(result) - 1))",
        "only-requested-rows": "all(any(result[i] == wrap1(rows[j], len(rows) == 1, self.nrows) for j in range(0, len(rows)))"
                               " for i in range(0, len(result)))",
        "every-requested-row": "all(any(result[i] == wrap1(rows[j], len(rows) == 1, self.nrows) for i in range(0, len(result)))"
                               " for j in range(0, len(rows)))",
        "in-range": "all(0 <= result[i] and result[i] < self.nrows for i in range(0, len(result)))",
        "fresh": "fresh(result)",
    },
    props=["C02", "C15"],
)

contract(
    "esutil.recfile.Util.Recfile._get_rows2read#scalar",
    runtime_name="esutil.recfile.Util.Recfile._get_rows2read",
    params=dict(self=_REC, rows="int"),
    returns="arr[int]",
    raises=[("ValueError", "not (-self.nrows <= rows and rows < self.nrows)", "iff")],
    ensures={"the-row": "len(result) == 1 and result[0] == (rows + self.nrows if rows < 0 else rows)"},
    props=["C02"],
)

contract(
    "esutil.recfile.Util.Recfile._get_rows2read#none",
    runtime_name="esutil.recfile.Util.Recfile._get_rows2read",
    params=dict(self=_REC, rows="none"),
    ensures={"all-rows": "result is None"},
    props=["C02"],
)


@domain("esutil.recfile.Util.Recfile._get_rows2read")
def _dom_rows2read(tier, seed):
    import itertools
    import numpy as np
    for n in (1, 2, 4):
        vals = list(range(-n - 1, n + 2))
        for ln in (1, 2, 3):
            for t in itertools.product(vals, repeat=ln):
                yield dict(args=[_recfile_stub(n), np.array(t, dtype="i8")], names=["self", "rows"], key="n=%d %r" % (n, t))
                if ln <= 2:
                    yield dict(args=[_recfile_stub(n), list(t)], names=["self", "rows"], key="n=%d list %r" % (n, t))


@domain("esutil.recfile.Util.Recfile._get_rows2read#scalar")
def _dom_rows2read_scalar(tier, seed):
    for n in (1, 3, 5):
        for r in range(-n - 2, n + 3):
            yield dict(args=[_recfile_stub(n), r], names=["self", "rows"], key="n=%d r=%d" % (n, r))


# --------------------------------------------------------------------------- columns
# column names are modelled as integers (only == is applied to them); the dtype invariant makes them distinct
_RECC = "obj:Recfile{nrows:nat,colnames:arr[int]}"
_DISTINCT = "all(self.colnames[i] != self.colnames[j] for i in range(0, len(self.colnames)) for j in range(0, len(self.colnames)) if i != j)"

contract(
    "esutil.recfile.Util.Recfile.get_colnum",
    params=dict(self=_RECC, colname="int"),
    requires={"distinct-names": _DISTINCT},
    returns="int",
    raises=[("ValueError", "not any(self.colnames[i] == colname for i in range(0, len(self.colnames)))", "iff")],
    ensures={"position": "0 <= result and result < len(self.colnames) and self.colnames[result] == colname"},
    runtime=False,
    props=["C02"],
)

contract(
    "esutil.recfile.Util.Recfile.get_colnums",
    params=dict(self=_RECC, colnames="arr[int]"),
    requires={"distinct-names": _DISTINCT},
    returns="arr[int]",
    raises=[("ValueError", "any(not any(self.colnames[i] == colnames[j] for i in range(0, len(self.colnames)))"
                           " for j in range(0, len(colnames)))", "iff")],
    ensures={
        "file-order": "all(result[i] < result[i + 1] for i in range(0, len(result) - 1))",
        "only-requested": "all(0 <= result[i] and result[i] < len(self.colnames)"
                          " and any(self.colnames[result[i]] == colnames[j] for j in range(0, len(colnames)))"
                          " for i in range(0, len(result)))",
        "every-requested": "all(any(self.colnames[result[i]] == colnames[j] for i in range(0, len(result)))"
                           " for j in range(0, len(colnames)))",
    },
    loops={"L0": dict(counter="k", inv={
        "filled": "all(0 <= colnums[j] and colnums[j] < len(self.colnames) and self.colnames[colnums[j]] == colnames[j]"
                  " for j in range(0, k))",
        "shape": "len(colnums) == len(colnames)",
    })},
    runtime=False,
    props=["C02"],
)
