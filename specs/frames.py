"""Property C15: non-in-place calls never modify the arrays passed to them.

Deductive part: every contract in /verif/specs tagged C15 carries frame obligations (each write statement targets memory that
is fresh in the call or listed in `modifies`) and, where stated, an explicit "input(s)-untouched" postcondition; they are
collected under C15 by the property tag.  This file adds the bounded sweep over the public entry points of all the families
the statement lists, including those whose deciding code is C++ (record files, HTM): every array argument is compared
bit for bit (buffer bytes of its base, dtype, shape, strides, flags) before and after the call."""
from esvc.speclang import contract, domain


def _fingerprint(a):
    import numpy as np
    base = a
    while isinstance(base, np.ndarray) and base.base is not None and isinstance(base.base, np.ndarray):
        base = base.base
    return (base.tobytes(), str(a.dtype.descr if a.dtype.names else a.dtype.str), a.shape, a.strides,
            a.flags.writeable, a.flags.c_contiguous, a.flags.f_contiguous)


def arrays_unchanged(before, arrays):
    for k, a in enumerate(arrays):
        if _fingerprint(a) != before[k]:
            return "argument %d changed" % k
    return True


contract("esutil#frames", params={}, assumed=True, runtime_name="esutil.numpy_util.match",
         why_assumed="bounded run-time sweep (labelled): the frame obligations of the Python and C code are proved per function in "
                     "the contracts tagged C15; C++ callees (records.cpp, htmc.cc) are read-only by assumption, checked here",
         rt_ensures={"every-array-argument-bit-identical-after-the-call": "arrays_unchanged(before, arrays) is True"},
         props=["C15"])


def _variants(np, x):
    """layouts / dtypes of one numeric 1-d array: native, byte-swapped, float32, integer, strided view, read from a 2-d column"""
    x = np.asarray(x, dtype="f8")
    big = np.zeros(x.size * 2)
    big[::2] = x
    col = np.zeros((x.size, 3))
    col[:, 1] = x
    yield "f8", x.copy()
    yield ">f8", x.astype(">f8")
    yield "f4", x.astype("f4")
    yield "i8", np.round(x).astype("i8")
    yield "strided", big[::2]
    yield "column", col[:, 1]


@domain("esutil#frames")
def _dom_frames(tier, seed):
    import os
    import numpy as np
    import esutil as eu
    import esutil.numpy_util as nu
    import esutil.stat as st
    import esutil.coords as co
    import esutil.sfile as sfile
    import esutil.htm as htm
    import esutil.cosmology as cosmology
    import esutil.wcsutil as wcsutil
    scratch = os.environ.get("ESVC_SCRATCH", "/var/tmp")
    calls = []

    def add(name, f, *arrs):
        calls.append((name, f, list(arrs)))

    ra0 = np.array([10.0, 200.5, 359.0, 0.25, 45.0])
    dec0 = np.array([-5.0, 33.25, 89.0, -60.5, 0.0])
    z0 = np.array([0.1, 0.5, 1.0, 2.0, 0.25])
    pos = np.array([0.5, 1.5, 2.5, 3.5, 3.75])
    cosmo = cosmology.Cosmo(omega_m=0.3)
    h = htm.HTM(7)
    hdr = dict(ctype1="RA---TAN", ctype2="DEC--TAN", crpix1=50.0, crpix2=60.0, crval1=150.0, crval2=2.0, cd1_1=-7e-5, cd1_2=1e-6,
               cd2_1=2e-6, cd2_2=7e-5, cunit1="deg", cunit2="deg", naxis1=100, naxis2=120)
    w = wcsutil.WCS(hdr)
    sip = dict(hdr, ctype1="RA---TAN-SIP", ctype2="DEC--TAN-SIP", a_order=2, b_order=2, ap_order=2, bp_order=2,
               a_2_0=1e-6, a_1_1=-2e-6, a_0_2=3e-7, b_2_0=-1e-6, b_1_1=5e-7, b_0_2=2e-6,
               ap_2_0=-1e-6, ap_1_1=2e-6, ap_0_2=-3e-7, bp_2_0=1e-6, bp_1_1=-5e-7, bp_0_2=-2e-6)
    tpv = dict(hdr, ctype1="RA---TPV", ctype2="DEC--TPV", pv1_0=1e-5, pv1_1=1.0005, pv1_2=1e-4, pv1_4=2e-3, pv1_5=-1e-3, pv1_6=5e-4,
               pv2_0=-1e-5, pv2_1=0.9995, pv2_2=-1e-4, pv2_4=-2e-3, pv2_5=1e-3, pv2_6=-5e-4)
    wmodels = [("TAN-SIP", wcsutil.WCS(sip)), ("TPV", wcsutil.WCS(tpv))]
    for tag, ra in _variants(np, ra0):
        for tag2, dec in list(_variants(np, dec0))[:(6 if tier != "quick" else 3)]:
            t = "%s/%s" % (tag, tag2)
            for fn in ("eq2gal", "gal2eq", "eq2ec", "ec2eq", "ec2gal", "gal2ec"):
                add("coords.%s %s" % (fn, t), (lambda a, b, fn=fn: getattr(co, fn)(a, b)), ra, dec)
            add("coords.eq2xyz " + t, lambda a, b: co.eq2xyz(a, b), ra, dec)
            for un in ("deg", "rad"):
                for stomp in (False, True):
                    add("coords.eq2xyz units=%s stomp=%s %s" % (un, stomp, t), (lambda a, b, un=un, stomp=stomp: co.eq2xyz(a, b, units=un, stomp=stomp)), ra, dec)
                    add("coords.xyz2eq units=%s stomp=%s %s" % (un, stomp, t),
                        (lambda a, b, un=un, stomp=stomp: co.xyz2eq(np.cos(a), np.sin(a), b * 0, units=un, stomp=stomp)), ra, dec)
            add("coords.eq2sdss " + t, lambda a, b: co.eq2sdss(a, b), ra, dec)
            add("coords.sdss2eq " + t, lambda a, b: co.sdss2eq(np.clip(a, -180, 180) * 0 + 10.0, b * 0 + 5.0), ra, dec)
            add("coords.sphdist deg " + t, lambda a, b: co.sphdist(a, b, a + 1.0, b * 0.5), ra, dec)
            add("coords.sphdist rad " + t, lambda a, b: co.sphdist(a / 60, b / 60, a / 59, b / 58, units=["rad", "rad"]), ra, dec)
            add("coords.gcirc " + t, lambda a, b: co.gcirc(a, b, a + 1.0, b * 0.5), ra, dec)
            add("coords.rotate " + t, lambda a, b: co.rotate(a, b, 10.0, 20.0, 30.0), ra, dec)
            add("htm.lookup_id " + t, lambda a, b: h.lookup_id(a, b), ra, dec)
            add("htm.match " + t, lambda a, b: h.match(a, b, a + 0.001, b, 0.1), ra, dec)
            add("htm.bincount " + t, lambda a, b: h.bincount(0.01, 1.0, 3, a, b, a + 0.01, b), ra, dec)
            add("htm.bincount scale " + t, lambda a, b: h.bincount(0.01, 1.0, 3, a, b, a + 0.01, b, scale=np.abs(b) + 1.0), ra, dec)
            add("wcs.image2sky " + t, lambda a, b: w.image2sky(a, b + 100), ra, dec)
            add("wcs.sky2image " + t, lambda a, b: w.sky2image(a * 0 + 150.001, b * 0 + 2.001), ra, dec)
            # the public building blocks of the transforms, for every distortion model: positions handed in directly
            for wt, ww in wmodels:
                add("wcs[%s].image2sky %s" % (wt, t), lambda a, b, ww=ww: ww.image2sky(a, b), ra, dec)
                add("wcs[%s].get_jacobian %s" % (wt, t), lambda a, b, ww=ww: ww.get_jacobian(a, b), ra, dec)
                for inv in (False, True):
                    add("wcs[%s].Distort inverse=%s %s" % (wt, inv, t), lambda a, b, ww=ww, inv=inv: ww.Distort(a, b, inverse=inv), ra, dec)
                    add("wcs[%s].ApplyCDMatrix inverse=%s %s" % (wt, inv, t), lambda a, b, ww=ww, inv=inv: ww.ApplyCDMatrix(a, b, inverse=inv), ra, dec)
                add("wcs[%s].image2sph %s" % (wt, t), lambda a, b, ww=ww: ww.image2sph(a * 1e-3, b * 1e-3), ra, dec)
                add("wcs[%s].sph2image %s" % (wt, t), lambda a, b, ww=ww: ww.sph2image(a, np.abs(b) * 0 + 89.5), ra, dec)
                add("wcs[%s].Rotate %s" % (wt, t), lambda a, b, ww=ww: ww.Rotate(np.deg2rad(a), np.deg2rad(b)), ra, dec)
        add("coords.shiftlon " + tag, lambda a: co.shiftlon(a, 90.0), ra)
        # unit vectors handed in by the caller, one component a rounding error outside [-1, 1] (as a normalisation can leave it)
        vx = np.array([0.0, 1e-9, 0.6, 0.0, 0.0])
        vy = np.array([0.0, 0.0, 0.8, 1e-9, 0.0])
        vz = np.array([1.0 + 2.220446049250313e-16, -1.0 - 2.220446049250313e-16, 0.0, 1.0, -1.0])
        for un in ("deg", "rad"):
            add("coords.xyz2eq caller's vectors units=%s %s" % (un, tag), (lambda a, b, c, un=un: co.xyz2eq(a, b, c, units=un)),
                vx.astype(ra.dtype) if ra.dtype.kind == "f" else vx, vy.copy(), vz.copy())
        add("coords.shiftlon wrap " + tag, lambda a: co.shiftlon(a, wrap=True), ra)
        add("coords.atbound " + tag, None, ra)      # documented in-place helper: not swept
    # tables whose columns differ in byte order (and strided views of them) through the byte-order converters
    mixed = np.zeros(6, dtype=[("id", "<i4"), ("flux", ">f8"), ("tag", "S3"), ("v", ">i2", (2,))])
    mixed["id"] = np.arange(6) + 1
    mixed["flux"] = np.arange(6) * 1.5 - 2
    mixed["tag"] = b"ab"
    mixed["v"] = np.arange(12).reshape(6, 2)
    for ttag, tbl in (("mixed", mixed), ("mixed strided", mixed[::2])):
        for conv in ("to_native", "to_big_endian", "to_little_endian", "byteswap"):
            for keep in (False, True):
                add("numpy_util.%s %s inplace=False keep_dtype=%s" % (conv, ttag, keep),
                    (lambda a, conv=conv, keep=keep: getattr(nu, conv)(a, inplace=False, keep_dtype=keep)), tbl)
    calls = [c for c in calls if c[1] is not None]
    # pre-computed ids (documented usage of bincount): the id array is an argument too
    ids0 = h.lookup_id(ra0, dec0)
    big_ids = np.zeros(ids0.size * 2, dtype="i8")
    big_ids[::2] = ids0
    for tag, ids in (("i8", ids0.copy()), ("strided", big_ids[::2]), (">i8", ids0.astype(">i8")), ("u8", ids0.astype("u8"))):
        add("htm.bincount htmid2= " + tag, lambda a, b, c: h.bincount(0.01, 1.0, 3, a, b, a, b, htmid2=c), ra0.copy(), dec0.copy(), ids)
        add("htm.bincount htmid2=, minid= " + tag, lambda a, b, c: h.bincount(0.01, 1.0, 3, a, b, a, b, htmid2=c, minid=int(ids0.min()), maxid=int(ids0.max())),
            ra0.copy(), dec0.copy(), ids)
    for tag, z in _variants(np, z0):
        for fn in ("Dc", "Dm", "Da", "Dl", "sigmacritinv"):
            add("cosmo.%s array-scalar %s" % (fn, tag), (lambda a, fn=fn: getattr(cosmo, fn)(a * 0.1, 3.0)), z)
            add("cosmo.%s scalar-array %s" % (fn, tag), (lambda a, fn=fn: getattr(cosmo, fn)(0.01, a)), z)
            add("cosmo.%s arrays %s" % (fn, tag), (lambda a, fn=fn: getattr(cosmo, fn)(a * 0.1, a)), z)
        add("cosmo.dV " + tag, lambda a: cosmo.dV(a), z)
        add("cosmo.Ez_inverse " + tag, lambda a: cosmo.Ez_inverse(a), z)
        add("cosmo.distmod " + tag, lambda a: cosmo.distmod(a), z)
    for tag, x in _variants(np, pos):
        wts = np.array([1.0, 2.0, 0.5, 1.5, 3.0])
        add("stat.histogram " + tag, lambda a: st.histogram(a, binsize=1.0, rev=True), x)
        add("stat.histogram more/weights " + tag, lambda a, b: st.histogram(a, binsize=1.0, weights=b, more=True), x, wts)
        add("stat.histogram nperbin " + tag, lambda a: st.histogram(a, nperbin=2, more=True), x)
        add("stat.Binner y/weights " + tag, lambda a, b, c: st.Binner(a, y=b, weights=c).dohist(nbin=2, max=4.0), x, x[::-1].copy(), wts)
        add("stat.wmom " + tag, lambda a, b: st.wmom(a, b, calcerr=True, sdev=True), x, wts)
        add("stat.wmedian " + tag, lambda a, b: st.wmedian(a, b), x, wts)
        add("stat.sigma_clip " + tag, lambda a, b: st.sigma_clip(a, weights=b, nsig=1.0, silent=True, extra={}), x, wts)
        add("stat.get_stats " + tag, lambda a: st.get_stats(a), x)
        add("stat.get_stats weights " + tag, lambda a, b: st.get_stats(a, weights=b), x, wts)
        add("stat.interplin " + tag, lambda a, b: st.interplin(a * 2, a, b), x, x + 0.3)
        add("numpy_util.match " + tag, lambda a, b: nu.match(a, b), x, x[::-1].copy())
        add("numpy_util.unique " + tag, lambda a: nu.unique(a), x)
        add("numpy_util.unique values=True " + tag, lambda a: nu.unique(a, values=True), x[::-1].copy() if tag in ("f8", "i8", "f4", ">f8") else x)
        add("numpy_util.match presorted " + tag, lambda a, b: nu.match(a, b, presorted=True), np.sort(x), x[::-1].copy())
        add("numpy_util.rem_dup " + tag, lambda a, b: nu.rem_dup(a, b), x, wts)
        for conv in ("to_native", "to_big_endian", "to_little_endian", "byteswap"):
            add("numpy_util.%s inplace=False %s" % (conv, tag), (lambda a, conv=conv: getattr(nu, conv)(a, inplace=False)), x)
            add("numpy_util.%s inplace=False keep_dtype=True %s" % (conv, tag),
                (lambda a, conv=conv: getattr(nu, conv)(a, inplace=False, keep_dtype=True)), x)
        wz = np.array([1.0, 0.0, 0.5, 0.0, 3.0])
        add("stat.wmom zero weights " + tag, lambda a, b: st.wmom(a, b, calcerr=True, sdev=True), x, wz)
        add("stat.wmedian zero weights " + tag, lambda a, b: st.wmedian(a, b), x, wz)
        add("stat.sigma_clip zero weights " + tag, lambda a, b: st.sigma_clip(a, weights=b, nsig=2.0, silent=True, extra={}), x, wz)
    cov = np.array([[2.0, 0.3], [0.3, 1.0]])
    add("stat.cov2cor", lambda a: st.cov2cor(a), cov)
    add("stat.cov2cor F-order", lambda a: st.cov2cor(a), np.asfortranarray(cov))
    add("stat.cor2cov", lambda a, b: st.cor2cov(a, b), cov, np.array([1.0, 2.0]))
    # structured arrays: native / byte-swapped / strided / 0-d / 2-d
    structs = []
    for order in "<>":
        d = np.zeros(6, dtype=[("a", order + "i4"), ("b", order + "f8"), ("s", "S3"), ("v", order + "i2", (2,))])
        d["a"] = np.arange(6)
        d["b"] = np.arange(6) + 0.5
        d["s"] = b"ab"
        d["v"] = np.arange(12).reshape(6, 2)
        structs += [("1d" + order, d), ("strided" + order, d[::2]), ("slice" + order, d.copy()[1:5]), ("2d" + order, d.reshape(3, 2)),
                    ("0d" + order, d[1:2].reshape(())[...])]
    k = 0
    for tag, d in structs:
        add("extract_fields " + tag, lambda a: nu.extract_fields(a, ["b", "a"]), d)
        add("remove_fields " + tag, lambda a: nu.remove_fields(a, "s"), d)
        add("add_fields " + tag, lambda a: nu.add_fields(a, [("n", "f8")], defaults=[1.5]), d)
        add("reorder_fields " + tag, lambda a: nu.reorder_fields(a, ["s", "b"]), d)
        add("combine_fields " + tag, lambda a: nu.combine_fields([a, np.zeros(a.shape, dtype=[("zz", "f4")])]), d)
        add("copy_fields (source) " + tag, lambda a: nu.copy_fields(a, np.zeros(a.shape, dtype=[("a", "i8"), ("q", "f4")])), d)
        add("split_fields " + tag, lambda a: nu.split_fields(a), d)
        add("compare_arrays " + tag, lambda a: nu.compare_arrays(a, a.copy(), verbose=False), d)
        for conv in ("to_native", "to_big_endian", "to_little_endian", "byteswap"):
            add("%s struct %s" % (conv, tag), (lambda a, conv=conv: getattr(nu, conv)(a)), d)
        if d.ndim == 1:
            for delim in (None, ",", " "):
                k += 1
                fname = os.path.join(scratch, "frames-%d.rec" % k)
                add("sfile.write delim=%r %s" % (delim, tag), (lambda a, fname=fname, delim=delim: (sfile.write(fname, a, delim=delim), os.unlink(fname))), d)
                add("sfile.write append delim=%r %s" % (delim, tag),
                    (lambda a, fname=fname, delim=delim: (sfile.write(fname, a, delim=delim), sfile.write(fname, a, delim=delim, append=True),
                                                          os.unlink(fname))), d)
    if tier == "quick":
        calls = calls[::2] + calls[1::6]
    for name, f, arrs in calls:
        before = [_fingerprint(a) for a in arrs]
        def run(f=f, arrs=arrs):
            try:
                f(*arrs)
            except Exception:      # noqa - a rejected call must leave its arguments alone just the same
                pass
        yield dict(call=run, args=[], ghost=dict(before=before, arrays=arrs), key=name)
