"""Contracts for Binner.calc_stats, _hist_by_num and _merge_last  (property C14).

calc_stats is verified against the statement bin by bin: given a valid reverse index (the postcondition of the histogram
engines, property C05), every reported array holds, for bin k, the sentinel when the bin is empty and otherwise the stated
statistic of exactly the members rev[rev[k]:rev[k+1]].  numpy's mean/std/median/sum are uninterpreted functions of the
member values (their definitions are assumed), so what is proved is *which members and which formula* each cell holds."""
from esvc.speclang import contract, domain


def members(rev, k):
    return rev[rev[k]:rev[k + 1]]


def ValidRev(rev, nhist, n):
    """a reverse index as produced by the histogram engines: offsets non-decreasing and inside the data area, members index
    the data"""
    return (len(rev) >= nhist + 1 and nhist >= 0
            and all(nhist + 1 <= rev[t] and rev[t] <= len(rev) for t in range(0, nhist + 1))
            and all(rev[t] <= rev[t + 1] for t in range(0, nhist))
            and all(0 <= rev[t] and rev[t] < n for t in range(nhist + 1, len(rev))))


# ------------------------------------------------------------------------------------------------ per-bin definitions
def _defs(v, W=None):
    """statistics of variable v ('self.x' or 'self.y') over members M (and weights W), as spec expressions of k"""
    M = "members(self['rev'], k)"
    V = "%s[%s]" % (v, M)
    first = "%s[self['rev'][self['rev'][k]]]" % v
    d = {
        "mean": (first, "%s.mean()" % V),
        "std": ("0", "%s.std()" % V),
        "err": (None, "%s.std() / sqrt(real(len(%s)))" % (V, M)),     # statement: only for >= 2 members
        "median": (first, "np.median(%s)" % V),
    }
    if W:
        WW = "self.weights[%s]" % M
        wm = "(SUM(%s * %s) / SUM(%s))" % (WW, V, WW)
        d.update({
            "wmean": (first, wm),
            "wstd": ("0", "sqrt(SUM(%s * (%s - %s) ** 2) / SUM(%s))" % (WW, V, wm, WW)),
            "werr": (None, "1.0 / sqrt(SUM(%s))" % WW),
            "werr2": (None, "sqrt(SUM(%s ** 2 * (%s - %s) ** 2)) / SUM(%s)" % (WW, V, wm, WW)),
        })
    return d


def _clause(arr, single, multi, upto, empty="-9999.0"):
    cnt = "(self['rev'][k + 1] - self['rev'][k])"
    s = "True" if single is None else "%s[k] == %s" % (arr, single)
    r = ("all((%s[k] == %s) if %s == 0 else ((%s) if %s == 1 else (%s[k] == %s)) for k in range(0, %s))"
         % (arr, empty, cnt, s, cnt, arr, multi, upto))
    if upto == "kk":
        r += " and all(%s[k] == %s for k in range(kk, nhist))" % (arr, empty)      # cells not reached yet still hold the sentinel
    return r


def _stats_clauses(has_y, has_w, target, upto):
    """target: 'post' -> arrays are self[...] items; 'inv' -> the function's locals"""
    xp = "x" if has_y else ""
    out = {}
    dx = _defs("self.x", has_w)
    M = "members(self['rev'], k)"
    for nm in ("mean", "std", "err", "median"):
        arr = "self['%s%s']" % (xp, nm) if target == "post" else "x" + nm
        multi = dx[nm][1]
        if nm == "err":
            # standard error = (the reported deviation of the bin) / sqrt(number of members); the deviation cell itself is
            # proved equal to the members' deviation by the "std" clause
            sd = "self['%sstd']" % xp if target == "post" else "xstd"
            multi = "%s[k] / sqrt(real(len(%s)))" % (sd, M)
        out["%s%s" % (xp, nm)] = _clause(arr, dx[nm][0], multi, upto)
    if has_y:
        dy = _defs("self.y", has_w)
        for nm in ("mean", "std", "err", "median"):
            arr = "self['y%s']" % nm if target == "post" else "y" + nm
            multi = dy[nm][1]
            if nm == "err":
                sd = "self['ystd']" if target == "post" else "ystd"
                multi = "%s[k] / sqrt(real(len(%s)))" % (sd, M)
            out["y" + nm] = _clause(arr, dy[nm][0], multi, upto)
    if has_w:
        M = "members(self['rev'], k)"
        arr = "self['whist']" if target == "post" else "whist"
        out["whist:summed-weight"] = _clause(arr, "self.weights[self['rev'][self['rev'][k]]]", "self.weights[%s].sum()" % M, upto, empty="0")
        for nm, loc in (("wmean", "mean"), ("wstd", "std"), ("werr", "err"), ("werr2", "err2")):
            arr = "self['w%s%s']" % (xp, loc) if target == "post" else "wx" + loc
            out["w%s%s" % (xp, loc)] = _clause(arr, dx[nm][0], dx[nm][1], upto)
        if has_y:
            for nm, loc in (("wmean", "mean"), ("wstd", "std"), ("werr", "err"), ("werr2", "err2")):
                arr = "self['wy%s']" % loc if target == "post" else "wy" + loc
                out["wy" + loc] = _clause(arr, dy[nm][0], dy[nm][1], upto)
    return out


def _locals_lens(has_y, has_w):
    names = ["xmean", "xstd", "xerr", "xmedian"]
    if has_y:
        names += ["ymean", "ystd", "yerr", "ymedian"]
    if has_w:
        names += ["whist", "wxmean", "wxstd", "wxerr", "wxerr2"]
        if has_y:
            names += ["wymean", "wystd", "wyerr", "wyerr2"]
    return " and ".join("len(%s) == nhist" % n for n in names)


def _binner(has_y, has_w, nperbin):
    flds = ["x:arr[real]", "y:" + ("arr[real]" if has_y else "none"), "weights:" + ("arr[real]" if has_w else "none"),
            "xpref:const:'%s'" % ("x" if has_y else ""), "dmin:real", "dmax:real",
            "['hist']:arr[int]", "['rev']:arr[int]"]
    if nperbin:
        flds.append("['nperbin']:int")
    else:
        flds.append("['binsize']:real")
    return "obj:Binner{%s}" % ",".join(flds)


def _written(has_y, has_w, nperbin):
    xp = "x" if has_y else ""
    keys = [xp + k for k in ("mean", "std", "err", "median")]
    if not nperbin:
        keys += [xp + k for k in ("low", "high", "center")]
    if has_y:
        keys += ["ymean", "ystd", "yerr", "ymedian"]
    if has_w:
        keys += ["whist"] + ["w" + xp + k for k in ("mean", "std", "err", "err2")]
        if has_y:
            keys += ["wy" + k for k in ("mean", "std", "err", "err2")]
    return keys


def _group_of(name):
    if name.startswith("whist") or name.startswith("wx") or (name.startswith("w") and not name.startswith("wy")):
        return "weighted-x"
    if name.startswith("wy"):
        return "weighted-y"
    if name.startswith("y"):
        return "y"
    return "x"


for _y in (False, True):
    for _w in (False, True):
        for _np in (False, True):
            _xp = "x" if _y else ""
            _post_all = _stats_clauses(_y, _w, "post", "len(self['hist'])")
            _inv_all = _stats_clauses(_y, _w, "inv", "kk")
            _pre = {"valid-reverse-index (C05's postcondition)": "ValidRev(self['rev'], len(self['hist']), len(self.x))"}
            if _y:
                _pre["y-same-length"] = "len(self.y) == len(self.x)"
            if _w:
                _pre["positive-weights-same-length"] = "len(self.weights) == len(self.x) and all(self.weights[t] > 0 for t in range(0, len(self.x)))"
            _groups = ["x"] + (["y"] if _y else []) + (["weighted-x"] if _w else []) + (["weighted-y"] if (_w and _y) else [])
            # one contract per group of output arrays: the groups are independent, so each proof carries only its own
            # invariants (the same function body is re-read and re-executed symbolically for each)
            for _g in _groups:
                _post = {k: v for k, v in _post_all.items() if _group_of(k) == _g}
                _inv = {k: v for k, v in _inv_all.items() if _group_of(k) == _g}
                if _g == "x":
                    if not _np:
                        _post["bin-edges-and-centres"] = (
                            "len(self['%slow']) == len(self['hist'])"
                            " and all(self['%slow'][k] == self.dmin + k * self['binsize']"
                            "         and self['%shigh'][k] == self.dmin + k * self['binsize'] + self['binsize']"
                            "         and self['%scenter'][k] == self.dmin + k * self['binsize'] + 0.5 * self['binsize']"
                            "         for k in range(0, len(self['hist'])))" % (_xp, _xp, _xp, _xp))
                    _post["inputs-untouched"] = "arr_eq(self.x, old(self.x))" + (" and arr_eq(self.y, old(self.y))" if _y else "") + \
                                                (" and arr_eq(self.weights, old(self.weights))" if _w else "")
                _inv["progress"] = "nhist == len(self['hist']) and same_object(revind, self['rev']) and " + _locals_lens(_y, _w)
                contract(
                    "esutil.stat.util.Binner.calc_stats#%s%s%s:%s" % ("y" if _y else "-", "w" if _w else "-", "n" if _np else "b", _g),
                    runtime_name="esutil.stat.util.Binner.calc_stats",
                    params=dict(self=_binner(_y, _w, _np)),
                    requires=_pre, ensures=_post,
                    modifies=["self['%s']" % k for k in _written(_y, _w, _np)],
                    loops={"L0": dict(counter="kk", inv=_inv)},
                    abstract=["div"],
                    props=["C14", "C15"], runtime=False, timeout=20,
                )


# ------------------------------------------------------------------------------------------------ equal-occupancy binning
_BINNUM = ("obj:Binner{x:arr[real],['hist']:arr[int],['rev']:arr[int],['low']:arr[real],['high']:arr[real]}")

contract(
    "esutil.stat.util.Binner._merge_last",
    params=dict(self=_BINNUM),
    requires={
        "valid-reverse-index": "ValidRev(self['rev'], len(self['hist']), len(self.x))",
        "sizes": "len(self['low']) == len(self['hist']) and len(self['high']) == len(self['hist'])",
    },
    ensures={
        "fewer-than-two-bins-untouched": "len(old(self['hist'])) >= 2 or (arr_eq(self['hist'], old(self['hist'])) and arr_eq(self['rev'], old(self['rev'])) and arr_eq(self['low'], old(self['low'])) and arr_eq(self['high'], old(self['high'])))",
        "one-bin-fewer": "len(old(self['hist'])) < 2 or (len(self['hist']) == len(old(self['hist'])) - 1 and len(self['low']) == len(self['hist'])"
                         " and len(self['high']) == len(self['hist']) and len(self['rev']) == len(old(self['rev'])) - 1)",
        "earlier-bins-unchanged": "len(old(self['hist'])) < 2 or all(self['hist'][t] == old(self['hist'])[t] and self['low'][t] == old(self['low'])[t]"
                                  " and self['high'][t] == old(self['high'])[t] for t in range(0, len(self['hist']) - 1))",
        "last-bin-is-the-union-of-the-old-last-two":
            "len(old(self['hist'])) < 2 or (self['hist'][len(self['hist']) - 1] == old(self['hist'])[len(self['hist']) - 1] + old(self['hist'])[len(self['hist'])]"
            " and self['low'][len(self['hist']) - 1] == old(self['low'])[len(self['hist']) - 1]"
            " and self['high'][len(self['hist']) - 1] == old(self['high'])[len(self['hist'])])",
        "offsets-shifted-by-one-and-last-offset-dropped":
            "len(old(self['hist'])) < 2 or (all(self['rev'][t] == old(self['rev'])[t] - 1 for t in range(0, len(self['hist'])))"
            " and self['rev'][len(self['hist'])] == old(self['rev'])[len(self['hist']) + 1] - 1)",
        "data-area-kept-in-order (so every slice holds the same members as before, the last one both old slices)":
            "len(old(self['hist'])) < 2 or all(self['rev'][p] == old(self['rev'])[p + 1] for p in range(len(self['hist']) + 1, len(self['rev'])))",
    },
    modifies=["self['hist']", "self['rev']", "self['low']", "self['high']"],
    post_types={"self['hist']": "arr[int]", "self['rev']": "arr[int]", "self['low']": "arr[real]", "self['high']": "arr[real]"},
    props=["C14"], runtime=False,
)


def binof(x, dmin, binsize):
    return trunc((x - dmin) / binsize)


def StartB(data, s, dmin, binsize, t, r):
    return (0 <= r and r <= len(s)
            and all(binof(data[s[k]], dmin, binsize) < t for k in range(0, r))
            and all(binof(data[s[k]], dmin, binsize) >= t for k in range(r, len(s))))


for _eng, _flag in (("", True), ("#py", False)):
    contract(
        "esutil.stat.util.Binner._do_hist" + _eng,
        runtime_name="esutil.stat.util.Binner._do_hist",
        params=dict(self="obj:Binner{weights:none}", data="arr[real]", dmin="real", sortind="arr[int]", bsize="real", nbin="int",
                    rev="const:True"),
        returns="tuple[arr[int],arr[int]]",
        globals=dict(have_chist=_flag),
        requires={
            "positive-binsize": "bsize > 0", "at-least-one-bin": "nbin >= 1",
            "sort-index-in-range": "all(0 <= sortind[k] and sortind[k] < len(data) for k in range(0, len(sortind)))",
            "bins-non-decreasing-along-sort": "all(binof(data[sortind[i]], dmin, bsize) <= binof(data[sortind[j]], dmin, bsize)"
                                              " for i in range(0, len(sortind)) for j in range(i + 1, len(sortind)))",
            "bins-non-negative": "all(binof(data[sortind[k]], dmin, bsize) >= 0 for k in range(0, len(sortind)))",
        },
        ensures={
            "sizes": "len(result[0]) == nbin and len(result[1]) == len(sortind) + nbin + 1",
            "rev-offsets-delimit-each-bin": "all(StartB(data, sortind, dmin, bsize, t, result[1][t] - nbin - 1) for t in range(0, nbin + 1))",
            "slice-length-equals-count": "all(result[0][t] == result[1][t + 1] - result[1][t] for t in range(0, nbin))",
            "data-area-is-the-sort-order": "all(result[1][nbin + 1 + k] == sortind[k] for k in range(0, len(sortind)))",
            "offsets-non-decreasing": "all(result[1][t] <= result[1][t + 1] for t in range(0, nbin))",
            "data-area-by-position": "all(result[1][p] == sortind[p - nbin - 1] for p in range(nbin + 1, len(result[1])))",
            "first-offset-starts-the-data-area": "result[1][0] == nbin + 1",
        },
        abstract=["div", "trunc"],
        props=["C14", "C05"], runtime=False,
    )


def StartK(bsize, t, r, m):
    """rank r is where bin t starts among the ranks 0..m-1 (bin number of rank k is trunc(k / nperbin))"""
    return (0 <= r and r <= m
            and all(binof(real(k), 0, bsize) < t for k in range(0, r))
            and all(binof(real(k), 0, bsize) >= t for k in range(r, m)))


_BYNUM = "obj:Binner{x:arr[real],weights:none,['wsort']:arr[int]}"
_NB = "len(self['hist'])"
_M = "len(self['wsort'])"

contract(
    "esutil.stat.util.Binner._hist_by_num",
    params=dict(self=_BYNUM, nperbin="pos", mergelast="const:False"),
    requires={
        "some-data": "len(self['wsort']) >= 1",
        "wsort-indexes-x": "all(0 <= self['wsort'][k] and self['wsort'][k] < len(self.x) for k in range(0, len(self['wsort'])))",
        "x-sorted-along-wsort (C05: _get_minmax_and_indices)":
            "all(self.x[self['wsort'][i]] <= self.x[self['wsort'][j]] for i in range(0, len(self['wsort'])) for j in range(i, len(self['wsort'])))",
        "bin-number-of-a-rank-is-monotone-and-non-negative (assumed: exact float division of integers below 2^53, truncation)":
            "all(binof(real(i), 0, real(nperbin)) <= binof(real(j), 0, real(nperbin)) and binof(real(i), 0, real(nperbin)) >= 0"
            " for i in range(0, len(self['wsort'])) for j in range(i, len(self['wsort'])))",
    },
    ensures={
        "sizes": "%s >= 1 and len(self['rev']) == %s + %s + 1 and len(self['low']) == %s and len(self['high']) == %s" % (_NB, _M, _NB, _NB, _NB),
        "offsets-delimit-the-ranks-of-each-bin": "all(StartK(real(nperbin), t, self['rev'][t] - %s - 1, %s) for t in range(0, %s + 1))" % (_NB, _M, _NB),
        "count-equals-slice-length": "all(self['hist'][t] == self['rev'][t + 1] - self['rev'][t] for t in range(0, %s))" % _NB,
        "reverse-indices-are-original-indices-in-sorted-order":
            "all(self['rev'][%s + 1 + k] == self['wsort'][k] for k in range(0, %s))" % (_NB, _M),
        "low-and-high-are-the-first-and-last-member-of-the-bin":
            "all(self['rev'][t] == self['rev'][t + 1] or (self['low'][t] == self.x[self['rev'][self['rev'][t]]]"
            " and self['high'][t] == self.x[self['rev'][self['rev'][t + 1] - 1]]) for t in range(0, %s))" % _NB,
        "nperbin-recorded": "self['nperbin'] == nperbin",
        "inputs-untouched": "arr_eq(self.x, old(self.x)) and arr_eq(self['wsort'], old(self['wsort']))",
    },
    modifies=["self['low']", "self['high']", "self['hist']", "self['rev']", "self['nperbin']"],
    post_types={},
    loops={"L0": dict(counter="kk", inv={
        "shape": "len(rev) == len(self['wsort']) + nbin + 1 and len(hist) == nbin and nbin >= 1 and len(self['low']) == nbin and len(self['high']) == nbin"
                 " and bsize == real(nperbin)",
        "offsets": "all(StartK(bsize, t, rev[t] - nbin - 1, len(self['wsort'])) for t in range(0, nbin + 1))"
                   " and all(rev[t] <= rev[t + 1] for t in range(0, nbin))",
        "counts": "all(hist[t] == rev[t + 1] - rev[t] for t in range(0, nbin))",
        "remapped-prefix": "all(rev[p] == self['wsort'][p - nbin - 1] for p in range(nbin + 1, rev[kk]))",
        "ranks-suffix": "all(rev[p] == p - nbin - 1 for p in range(rev[kk], len(rev)))",
        "edges-so-far": "all(rev[t] == rev[t + 1] or (self['low'][t] == self.x[self['wsort'][rev[t] - nbin - 1]]"
                        " and self['high'][t] == self.x[self['wsort'][rev[t + 1] - 1 - nbin - 1]]) for t in range(0, kk))",
    })},
    abstract=["div", "trunc"],
    props=["C14", "C15"], runtime=False, timeout=20,
)


contract(
    "esutil.stat.util.Binner._hist_by_num#mergelast",
    runtime_name="esutil.stat.util.Binner._hist_by_num",
    params=dict(self=_BYNUM, nperbin="pos", mergelast="const:True"),
    requires={
        "some-data": "len(self['wsort']) >= 1",
        "wsort-indexes-x": "all(0 <= self['wsort'][k] and self['wsort'][k] < len(self.x) for k in range(0, len(self['wsort'])))",
        "x-sorted-along-wsort (C05: _get_minmax_and_indices)":
            "all(self.x[self['wsort'][i]] <= self.x[self['wsort'][j]] for i in range(0, len(self['wsort'])) for j in range(i, len(self['wsort'])))",
        "bin-number-of-a-rank-is-monotone-and-non-negative (assumed: exact float division of integers below 2^53, truncation)":
            "all(binof(real(i), 0, real(nperbin)) <= binof(real(j), 0, real(nperbin)) and binof(real(i), 0, real(nperbin)) >= 0"
            " for i in range(0, len(self['wsort'])) for j in range(i, len(self['wsort'])))",
    },
    ensures={
        # the effect of the merge itself is _merge_last's contract (checked at the call site: its precondition - a valid
        # reverse index over the original indices - is an obligation here); whole-path results are compared bounded
        "nperbin-recorded": "self['nperbin'] == nperbin",
        "inputs-untouched": "arr_eq(self.x, old(self.x)) and arr_eq(self['wsort'], old(self['wsort']))",
        "one-entry-per-bin": "len(self['low']) == len(self['hist']) and len(self['high']) == len(self['hist'])",
    },
    modifies=["self['low']", "self['high']", "self['hist']", "self['rev']", "self['nperbin']"],
    post_types={},
    loops={"L0": dict(counter="kk", inv={
        "shape": "len(rev) == len(self['wsort']) + nbin + 1 and len(hist) == nbin and nbin >= 1 and len(self['low']) == nbin and len(self['high']) == nbin"
                 " and bsize == real(nperbin)",
        "offsets": "all(StartK(bsize, t, rev[t] - nbin - 1, len(self['wsort'])) for t in range(0, nbin + 1))"
                   " and all(rev[t] <= rev[t + 1] for t in range(0, nbin))",
        "counts": "all(hist[t] == rev[t + 1] - rev[t] for t in range(0, nbin))",
        "remapped-prefix": "all(rev[p] == self['wsort'][p - nbin - 1] for p in range(nbin + 1, rev[kk]))",
        "ranks-suffix": "all(rev[p] == p - nbin - 1 for p in range(rev[kk], len(rev)))",
        "edges-so-far": "all(rev[t] == rev[t + 1] or (self['low'][t] == self.x[self['wsort'][rev[t] - nbin - 1]]"
                        " and self['high'][t] == self.x[self['wsort'][rev[t + 1] - 1 - nbin - 1]]) for t in range(0, kk))",
    })},
    abstract=["div", "trunc"],
    props=["C14", "C15"], runtime=False, timeout=20,
)


# ------------------------------------------------------------------------------------------------ bounded stand-ins (labelled)
def _close(a, b, scale=1.0):
    import numpy as np
    a, b = np.asarray(a, dtype="f8"), np.asarray(b, dtype="f8")
    return a.shape == b.shape and bool(np.all(np.abs(a - b) <= 1e-9 * np.maximum(np.maximum(np.abs(a), np.abs(b)), scale)))


def binstats_statement(x, y, w, kw, b):
    """per-bin quantities computed directly from the members of each bin (members found by value, not through rev)"""
    import math
    import numpy as np
    x = np.asarray(x, dtype="f8")
    lo = kw.get("min", x.min())
    hi = kw.get("max", x.max())
    if "binsize" in kw:
        binsize = kw["binsize"]
        nbin = int(np.int64((hi - lo) / binsize)) + 1
    else:
        nbin = kw["nbin"]
        binsize = float(hi - lo) / nbin
    xp = "x" if y is not None else ""
    if len(b["hist"]) != nbin:
        return "nbin"
    sel = (x >= lo) & (x <= hi)
    binno = np.where(sel, ((x - lo) / binsize).astype("i8"), -1)
    edges = lo + np.arange(nbin) * binsize
    if not (_close(b[xp + "low"], edges) and _close(b[xp + "high"], edges + binsize) and _close(b[xp + "center"], edges + 0.5 * binsize)):
        return "edges"
    for t in range(nbin):
        m = np.where(binno == t)[0]
        if b["hist"][t] != m.size:
            return "count %d" % t
        for v, pref, arr in ((x, xp, "x"),) + (((np.asarray(y, dtype="f8"), "y", "y"),) if y is not None else ()):
            if m.size == 0:
                for k in ("mean", "std", "err", "median"):
                    if b[pref + k][t] != -9999.0:
                        return "sentinel %s %d" % (pref + k, t)
                continue
            vals = v[m]
            if not (_close(b[pref + "mean"][t], vals.mean()) and _close(b[pref + "std"][t], vals.std(), 1e-6 * max(1.0, abs(vals).max()))
                    and _close(b[pref + "median"][t], np.median(vals))):
                return "stats %s %d" % (pref, t)
            if m.size >= 2 and not _close(b[pref + "err"][t], vals.std() / math.sqrt(m.size), 1e-6 * max(1.0, abs(vals).max())):
                return "err %s %d" % (pref, t)
        if w is not None:
            ww = np.asarray(w, dtype="f8")[m]
            if not _close(b["whist"][t], ww.sum() if m.size else 0.0):
                return "whist %d" % t
            for v, pref in ((x, "w" + xp),) + (((np.asarray(y, dtype="f8"), "wy"),) if y is not None else ()):
                if m.size == 0:
                    if any(b[pref + k][t] != -9999.0 for k in ("mean", "std", "err", "err2")):
                        return "wsentinel %d" % t
                    continue
                vals = v[m]
                wm = (ww * vals).sum() / ww.sum()
                if not _close(b[pref + "mean"][t], wm):
                    return "wmean %s %d" % (pref, t)
                sc = 1e-6 * max(1.0, abs(vals).max())
                if not _close(b[pref + "std"][t], math.sqrt((ww * (vals - wm) ** 2).sum() / ww.sum()), sc):
                    return "wstd %s %d" % (pref, t)
                if m.size >= 2:
                    if not (_close(b[pref + "err"][t], 1.0 / math.sqrt(ww.sum())) and
                            _close(b[pref + "err2"][t], math.sqrt((ww ** 2 * (vals - wm) ** 2).sum()) / ww.sum(), sc)):
                        return "werr %s %d" % (pref, t)
    return True


def _run_binner(x, y, w, kw, via):
    import numpy as np
    import esutil.stat as st
    if via == "histogram":
        return st.histogram(x, weights=w, more=True, rev=True, **kw)
    b = st.Binner(x, y=y, weights=w)
    b.dohist(rev=True, **kw)
    return b


contract("esutil.stat.util.Binner.calc_stats#statement", params={}, assumed=True, runtime_name="esutil.stat.util.Binner.calc_stats",
         why_assumed="bounded run-time stand-in for the composition dohist -> engine -> calc_stats and for numpy's mean/std/median "
                     "definitions (calc_stats itself is proved bin by bin against a valid reverse index)",
         rt_ensures={"per-bin-quantities-equal-direct-computation": "binstats_statement(x, y, w, kw, result) is True"},
         props=["C14"])


@domain("esutil.stat.util.Binner.calc_stats#statement")
def _dom_binstats(tier, seed):
    import random
    import numpy as np
    rng = random.Random(seed)
    for _ in range(150 if tier == "quick" else 4000):
        n = rng.randint(1, 40)
        kind = rng.randint(0, 2)
        if kind == 0:
            x = np.array([rng.uniform(-2, 5) for _ in range(n)])
        elif kind == 1:
            x = np.array([rng.choice([0.0, 0.5, 1.0, 1.5, 2.5, 4.0]) for _ in range(n)])
        else:
            x = np.array([float(rng.randint(0, 6)) for _ in range(n)])
        y = None if rng.random() < 0.5 else np.array([rng.gauss(3, 2) for _ in range(n)])
        w = None if rng.random() < 0.5 else np.array([rng.choice([1.0, 0.25, 7.0, rng.uniform(0.1, 3)]) for _ in range(n)])
        kw = rng.choice([dict(binsize=1.0), dict(binsize=0.7), dict(nbin=3), dict(binsize=1.0, min=-0.5), dict(binsize=0.5, min=0.0, max=3.0),
                         dict(nbin=4, max=float(x.max()) + 1.0), dict(binsize=2.0, max=3.0)])
        lo, hi = kw.get("min", x.min()), kw.get("max", x.max())
        if not ((x >= lo) & (x <= hi)).any() or ("nbin" in kw and hi == lo):
            continue
        if "nbin" in kw and "max" not in kw:
            continue        # the maximum sits exactly on the last edge: bin membership of that datum is a rounding question
        via = "histogram" if (y is None and rng.random() < 0.4) else "binner"
        yield dict(call=(lambda x=x, y=y, w=w, kw=kw, via=via: _run_binner(x, y, w, kw, via)), args=[],
                   ghost=dict(x=x, y=y, w=w, kw=kw), key="n=%d y=%s w=%s %r %s" % (n, y is not None, w is not None, kw, via))


def bynum_statement(x, nperbin, mergelast, kw, b):
    """equal-occupancy binning: exactly nperbin consecutive sorted data per bin (short last bin merged when asked), low/high the
    smallest/largest member, reverse indices refer to the original array"""
    import numpy as np
    x = np.asarray(x, dtype="f8")
    lo, hi = kw.get("min", -np.inf), kw.get("max", np.inf)
    keep = np.where((x >= lo) & (x <= hi))[0]
    order = keep[np.argsort(x[keep], kind="stable")]
    groups = [order[k:k + nperbin] for k in range(0, order.size, nperbin)]
    if mergelast and len(groups) >= 2 and len(groups[-1]) != nperbin:
        groups[-2] = np.concatenate([groups[-2], groups[-1]])
        groups.pop()
    hist, rev = np.asarray(b["hist"]), np.asarray(b["rev"])
    if len(hist) != len(groups):
        return "nbin %d != %d" % (len(hist), len(groups))
    for t, g in enumerate(groups):
        sl = rev[rev[t]:rev[t + 1]]
        if hist[t] != len(g) or list(sl) != list(g):
            return "members %d" % t
        if b["low"][t] != x[g].min() or b["high"][t] != x[g].max():
            return "edges %d" % t
    return True


contract("esutil.stat.util.Binner._hist_by_num#statement", params={}, assumed=True, runtime_name="esutil.stat.util.Binner._hist_by_num",
         why_assumed="bounded run-time stand-in: the arithmetic fact trunc(k / nperbin) == k // nperbin for ranks (exact float division) "
                     "and the composition with _merge_last are not proved; the remapping loop and _merge_last are",
         rt_ensures={"exactly-nperbin-consecutive-sorted-data-per-bin": "bynum_statement(x, nperbin, mergelast, kw, result) is True"},
         props=["C14"])


@domain("esutil.stat.util.Binner._hist_by_num#statement")
def _dom_bynum(tier, seed):
    import itertools
    import random
    import numpy as np
    import esutil.stat as st
    rng = random.Random(seed)
    cases = []
    for n in range(1, 9 if tier == "quick" else 13):
        xs = [np.array([((7 * k) % n) + 0.5 for k in range(n)]), np.array([float(k // 2) for k in range(n)][::-1])]
        for x in xs:
            for nperbin in range(1, n + 2):
                for mergelast in (False, True):
                    cases.append((x, nperbin, mergelast, {}))
    for _ in range(40 if tier == "quick" else 1500):
        n = rng.randint(1, 30)
        x = np.array([rng.choice([rng.uniform(0, 10), float(rng.randint(0, 5))]) for _ in range(n)])
        kw = rng.choice([{}, {}, dict(min=2.0), dict(max=7.0), dict(min=1.0, max=8.0)])
        if not ((x >= kw.get("min", -1e9)) & (x <= kw.get("max", 1e9))).any():
            continue
        cases.append((x, rng.randint(1, n + 1), rng.random() < 0.5, kw))
    for x, nperbin, mergelast, kw in cases:
        def call(x=x, nperbin=nperbin, mergelast=mergelast, kw=kw):
            b = st.Binner(x)
            b.dohist(nperbin=nperbin, mergelast=mergelast, calc_stats=True, **kw)
            return b
        yield dict(call=call, args=[], ghost=dict(x=x, nperbin=nperbin, mergelast=mergelast, kw=kw),
                   key="n=%d nperbin=%d merge=%s %r" % (len(x), nperbin, mergelast, kw))

        # the same request through the public wrapper (its own forwarding of the options)
        def call2(x=x, nperbin=nperbin, mergelast=mergelast, kw=kw):
            return st.histogram(x, nperbin=nperbin, mergelast=mergelast, more=True, rev=True, **kw)
        yield dict(call=call2, args=[], ghost=dict(x=x, nperbin=nperbin, mergelast=mergelast, kw=kw),
                   key="histogram() n=%d nperbin=%d merge=%s %r" % (len(x), nperbin, mergelast, kw))
