"""Contracts for esutil/coords.py  (properties C08, C09, C19).

Reals with uninterpreted trigonometric functions constrained by the identities the arguments need (sin^2+cos^2=1, ranges of
the inverse functions); what is proved is totality (domains of arcsin / arccos / sqrt), documented output ranges, shapes and
the algebraic structure (which formula, which units).  Accuracy in doubles is a bounded stand-in against mpmath."""
from esvc.speclang import contract, domain

contract(
    "esutil.coords.euler",
    params=dict(ai="arr[real]", bi="arr[real]", select="int", b1950="bool", dtype="const:'f8'"),
    requires={"selector": "1 <= select and select <= 6", "same-length": "len(ai) == len(bi) and len(ai) >= 1"},
    ensures={
        "one-output-per-input": "len(result[0]) == len(ai) and len(result[1]) == len(ai)",
        "latitude-in-range": "all(-90 <= result[1][k] and result[1][k] <= 90 for k in range(0, len(ai)))",
        "longitude-in-range": "all(0 <= result[0][k] and result[0][k] < 360 for k in range(0, len(ai)))",
        "inputs-untouched": "arr_eq(ai, old(ai)) and arr_eq(bi, old(bi))",
    },
    props=["C09", "C15"], runtime=False, timeout=20,
)

_LON_IN = "len(lon_input) >= 1 and all(0 <= lon_input[k] and lon_input[k] < 360 for k in range(0, len(lon_input)))"

contract(
    "esutil.coords.shiftlon",
    params=dict(lon_input="arr[real]", shift="real", wrap="bool"),
    requires={"longitudes-in-[0,360)": _LON_IN},
    ensures={
        "one-output-per-input": "len(result) == len(lon_input)",
        "result-in-[0,360)": "all(0 <= result[k] and result[k] < 360 for k in range(0, len(result)))",
        "differs-from-input-minus-shift-by-a-multiple-of-360":
            "all(any(result[k] - (lon_input[k] - shift) == 360 * (sg * floor(abs(shift) / 360.0) + d) for sg in (-1, 1) for d in (-1, 0, 1))"
            "    for k in range(0, len(result)))",
        "input-untouched": "arr_eq(lon_input, old(lon_input))",
    },
    props=["C09", "C15"], runtime=False,
)

contract(
    "esutil.coords.shiftlon#wrap",
    params=dict(lon_input="arr[real]", shift="none", wrap="bool"),
    requires={"longitudes-in-[0,360)": _LON_IN},
    ensures={
        "one-output-per-input": "len(result) == len(lon_input)",
        "wrapped-to-(-180,180]-or-unchanged": "all((result[k] == lon_input[k] or result[k] == lon_input[k] - 360)"
                                              " and (not wrap or (-180 < result[k] and result[k] <= 180)) and (wrap or result[k] == lon_input[k])"
                                              " for k in range(0, len(result)))",
        "input-untouched": "arr_eq(lon_input, old(lon_input))",
    },
    props=["C09", "C15"], runtime=False,
)

contract(
    "esutil.coords._thetaphi2xyz",
    params=dict(theta="arr[real]", phi="arr[real]"),
    returns="tuple[arr[real],arr[real],arr[real]]",
    requires={"same-length": "len(theta) == len(phi)"},
    ensures={"unit-length": "all(result[0][k] * result[0][k] + result[1][k] * result[1][k] + result[2][k] * result[2][k] == 1 for k in range(0, len(theta)))",
             "one-vector-per-point": "len(result[0]) == len(theta) and len(result[1]) == len(theta) and len(result[2]) == len(theta)",
             "components: (cos theta cos phi, sin theta cos phi, sin phi)":
                 "all(result[0][k] == ufn('cos', theta[k]) * ufn('cos', phi[k]) and result[1][k] == ufn('sin', theta[k]) * ufn('cos', phi[k])"
                 " and result[2][k] == ufn('sin', phi[k]) for k in range(0, len(theta)))"},
    props=["C09", "C08"], runtime=False,
)

contract(
    "esutil.coords.gcirc",
    params=dict(ra1deg="arr[real]", dec1deg="arr[real]", ra2deg="arr[real]", dec2deg="arr[real]", getangle="const:False"),
    requires={"same-length": "len(ra1deg) >= 1 and len(dec1deg) == len(ra1deg) and len(ra2deg) == len(ra1deg) and len(dec2deg) == len(ra1deg)"},
    ensures={
        "one-result-per-pair": "len(result) == len(ra1deg)",
        "in-[0,pi]-and-defined (arccos argument clipped into its domain)": "all(0 <= result[k] and result[k] <= 3.141592653589793 for k in range(0, len(result)))",
        "exactly-zero-for-identical-inputs": "all(not (ra1deg[k] == ra2deg[k] and dec1deg[k] == dec2deg[k]) or result[k] == 0 for k in range(0, len(result)))",
        "inputs-untouched": "arr_eq(ra1deg, old(ra1deg)) and arr_eq(dec1deg, old(dec1deg)) and arr_eq(ra2deg, old(ra2deg)) and arr_eq(dec2deg, old(dec2deg))",
    },
    props=["C08", "C15"], runtime=False,
)

_W = ("all(0 <= w[j] and w[j] < len(longitude) for j in range(0, len(w)))")

contract(
    "esutil.coords.atbound",
    params=dict(longitude="arr[real]", minval="real", maxval="real"),
    requires={"window-at-least-one-turn": "maxval - minval >= 360"},
    ensures={"all-inside-the-window": "all(minval <= longitude[k] and longitude[k] <= maxval for k in range(0, len(longitude)))",
             "same-length": "len(longitude) == len(old(longitude))"},
    modifies=["longitude"],
    loops={"L0": dict(inv={"shape": "len(longitude) == len(old(longitude))",
                           "w-indexes-the-array": _W,
                           "w-lists-every-cell-below-the-window": "all(longitude[k] >= minval or any(w[j] == k for j in range(0, len(w)))"
                                                                  " for k in range(0, len(longitude)))"}),
           "L1": dict(inv={"shape": "len(longitude) == len(old(longitude))",
                           "w-indexes-the-array": _W,
                           "w-lists-every-cell-above-the-window": "all(longitude[k] <= maxval or any(w[j] == k for j in range(0, len(w)))"
                                                                  " for k in range(0, len(longitude)))",
                           "only-cells-above-the-window-are-listed": "all(longitude[w[j]] > maxval for j in range(0, len(w)))",
                           "lower-bound-kept": "all(minval <= longitude[k] for k in range(0, len(longitude)))"})},
    notes="termination of the two folding loops is not proved",
    props=["C09", "C19"], runtime=False,
)

contract(
    "esutil.coords.rotate", assumed=True, runtime=False,
    why_assumed="same arcsin / arctan2 structure as euler() with the sine and cosine of an arbitrary angle: the arcsin domain needs "
                "the Cauchy-Schwarz inequality over uninterpreted sin/cos, which z3 does not discharge; ranges and shapes are "
                "assumed here and checked by the bounded C09 oracle",
    params=dict(phi="real", theta="real", psi="real", ra="arr[real]", dec="arr[real]"),
    returns="tuple[arr[real],arr[real]]",
    requires={"same-length": "len(ra) == len(dec)"},
    ensures={"one-output-per-input": "len(result[0]) == len(ra) and len(result[1]) == len(ra)",
             "longitude-in-[0,360]": "all(0 <= result[0][k] and result[0][k] <= 360 for k in range(0, len(ra)))",
             "latitude-in-[-90,90]": "all(-90 <= result[1][k] and result[1][k] <= 90 for k in range(0, len(ra)))"},
    props=["C19", "C09"],
)

contract(
    "esutil.coords.randcap",
    params=dict(nrand="pos", ra="real", dec="real", rad="real", get_radius="const:True", dorot="bool", rng="opaque:rng"),
    returns="tuple[arr[real],arr[real],arr[real]]",
    requires={"centre-and-radius": "0 <= ra and ra <= 360 and -90 <= dec and dec <= 90 and 0 < rad and rad <= 180"},
    ensures={
        "requested-number-of-points": "len(result[0]) == nrand and len(result[1]) == nrand and len(result[2]) == nrand",
        "returned-radii-are-degrees-within-the-cap-radius": "all(0 <= result[2][k] and result[2][k] <= rad for k in range(0, nrand))",
        "latitudes-in-range": "all(-90 <= result[1][k] and result[1][k] <= 90 for k in range(0, nrand))",
    },
    decreases="1 if (dorot or dec >= 89.9 or dec <= -89.9) else 0",
    total_float_division=True, light_trig=True, materialize=True,
    notes="a drawn point that lands exactly on a pole makes the longitude 0/0 (nan): probability zero, not constrained here",
    props=["C19"], runtime=False, timeout=20,
)

_BOXPRE = {"box-ordered": "ra_range[0] <= ra_range[1] and dec_range[0] <= dec_range[1]"}
contract(
    "esutil.coords.randsphere",
    params=dict(num="pos", ra_range="lst[real,real]", dec_range="lst[real,real]", system="const:'eq'", rng="opaque:rng"),
    requires=_BOXPRE,
    raises=[("ValueError", "ra_range[0] < 0 or ra_range[1] > 360 or dec_range[0] < -90 or dec_range[1] > 90", "iff")],
    ensures={
        "requested-number-of-points": "len(result[0]) == num and len(result[1]) == num",
        "longitudes-inside-the-box": "all(ra_range[0] <= result[0][k] and result[0][k] <= ra_range[1] for k in range(0, num))",
        "latitudes-inside-the-box": "all(dec_range[0] <= result[1][k] and result[1][k] <= dec_range[1] for k in range(0, num))",
    },
    materialize=True, light_trig=True, libm_axioms=["arccos-decreasing", "arccos-cos"],
    props=["C19"], runtime=False, timeout=20,
)


# module-level dict filled by subscript assignments (not a literal): its two entries used here, as exact rationals of the
# code's own expressions (185 - 90) * D2R and 32.5 * D2R with D2R = math.pi / 180
from fractions import Fraction as _Fr  # noqa: E402
import math as _math  # noqa: E402
_SDSSPAR = {"node": _Fr(_math.pi) * 95 / 180, "etapole": _Fr(_math.pi) * _Fr(65, 2) / 180}

for _u in ("deg", "rad"):
    contract(
        "esutil.coords.eq2xyz#" + _u, runtime_name="esutil.coords.eq2xyz",
        params=dict(ra="arr[real]", dec="arr[real]", dtype="const:'f8'", units="const:%r" % _u, stomp="bool"),
        globals=dict(_sdsspar=_SDSSPAR),
        requires={"same-length": "len(ra) == len(dec)"},
        ensures={"unit-length": "all(result[0][k] * result[0][k] + result[1][k] * result[1][k] + result[2][k] * result[2][k] == 1 for k in range(0, len(ra)))",
                 "inputs-untouched": "arr_eq(ra, old(ra)) and arr_eq(dec, old(dec))",
                 "direction: the unit vector of (longitude, latitude) in the stated unit, longitude counted from the survey node when stomp is set":
                     "all(result[2][k] == ufn('sin', %(phi)s) and result[0][k] == ufn('cos', %(th)s) * ufn('cos', %(phi)s)"
                     " and result[1][k] == ufn('sin', %(th)s) * ufn('cos', %(phi)s) for k in range(0, len(ra)))" % dict(
                         phi=("dec[k] * 3.141592653589793 / 180" if _u == "deg" else "dec[k]"),
                         th=("(ra[k] * 3.141592653589793 / 180 - (_sdsspar['node'] if stomp else 0))" if _u == "deg"
                             else "(ra[k] - (_sdsspar['node'] if stomp else 0))"))},
        materialize=True,
        props=["C09", "C08", "C15"], runtime=False,
    )


# ------------------------------------------------------------------------------------------------ cumulative sampler (C19)
# "maps a uniform deviate u to the linear interpolation of the grid abscissae against the normalised cumulative distribution":
# proved for every deviate sequence the generator can return, modularly against the proved contract of stat.interplin
contract(
    "esutil.random.Generator._genrand_accum",
    params=dict(self="obj:Generator{rng:opaque:rng,xvals:arr[real],pcum:arr[real]}", numrand="nat"), returns="arr[real]",
    requires={"table": "len(self.pcum) >= 2 and len(self.xvals) == len(self.pcum)",
              "cumulative-distribution-strictly-increasing (a density without zero stretches)":
                  "all(self.pcum[i] < self.pcum[j] for i in range(0, len(self.pcum)) for j in range(i + 1, len(self.pcum)))"},
    ret_post={"return#0": {
        "one-value-per-requested-point": "len(result) == numrand and len(urand) == numrand",
        "deviates-are-uniform-on-[0,1]": "all(0 <= urand[k] and urand[k] <= 1 for k in range(0, numrand))",
        "each-deviate-is-mapped-through-the-piecewise-linear-inverse-of-the-cumulative-distribution":
            "all(not ((m == 0 or self.pcum[m] < urand[k]) and (m == len(self.pcum) - 2 or urand[k] <= self.pcum[m + 1]))"
            "    or approx(result[k], (urand[k] - self.pcum[m]) * (self.xvals[m + 1] - self.xvals[m]) / (self.pcum[m + 1] - self.pcum[m]) + self.xvals[m])"
            "    for k in range(0, numrand) for m in range(0, len(self.pcum) - 1))",
    }},
    ensures={"tables-untouched": "all(self.pcum[i] == old(self.pcum[i]) and self.xvals[i] == old(self.xvals[i]) for i in range(0, len(self.pcum)))"},
    abstract=["mul", "div"],
    props=["C19", "C15"], runtime=False,
)

contract(
    "esutil.random.random_indices",
    params=dict(imax="nat", nrand="nat", unique="bool", rng="opaque:rng", seed="none"), returns="arr[int]",
    requires={"enough-values-for-distinct-draws": "not unique or nrand <= imax"},
    ensures={"requested-number-in-range": "len(result) == nrand and all(0 <= result[k] and result[k] < imax for k in range(0, nrand))",
             "uniqueness-option-honoured": "not unique or all(result[a] != result[b] for a in range(0, nrand) for b in range(a + 1, nrand))"},
    props=["C19"], runtime=False,
)
