"""Contracts for the two histogram engines (property C05): esutil.stat.util._dohist and the C function PyCHist_chist.

Both are verified against the SAME functional specification, so they return identical arrays on identical inputs.
The one floating-point step, the bin number trunc((x - dmin)/binsize), is the same term in both engines and in the
specification (spec function binof); the callers establish that it is non-decreasing along the sort order
(stable argsort + monotone rounding) and non-negative (dmin <= every kept datum)."""
from esvc.speclang import contract, domain


def binof(x, dmin, binsize):
    return trunc((x - dmin) / binsize)


def Start(data, s, dmin, binsize, t, r):
    """r is the position in the sorted sequence where bin t starts"""
    return (0 <= r and r <= len(s)
            and all(binof(data[s[k]], dmin, binsize) < t for k in range(0, r))
            and all(binof(data[s[k]], dmin, binsize) >= t for k in range(r, len(s))))


_PRE = {
    "positive-binsize": "binsize > 0",
    "at-least-one-bin": "len({hist}) >= 1",
    "sort-index-in-range": "all(0 <= {s}[k] and {s}[k] < len({data}) for k in range(0, len({s})))",
    "bins-non-decreasing-along-sort": "all(binof({data}[{s}[i]], {dmin}, binsize) <= binof({data}[{s}[j]], {dmin}, binsize)"
                                      " for i in range(0, len({s})) for j in range(i + 1, len({s})))",
    "bins-non-negative": "all(binof({data}[{s}[k]], {dmin}, binsize) >= 0 for k in range(0, len({s})))",
    "hist-zeroed": "all({hist}[t] == 0 for t in range(0, len({hist})))",
    "rev-size": "len({rev}) == len({s}) + len({hist}) + 1",
}
_POST = {
    # the statement, clause by clause (nbin = len(hist); position r(t) = rev[t] - (nbin+1))
    "rev-offsets-delimit-each-bin":
        "all(Start({data}, {s}, {dmin}, binsize, t, {rev}[t] - len({hist}) - 1) for t in range(0, len({hist}) + 1))",
    "slice-length-equals-count":
        "all({hist}[t] == {rev}[t + 1] - {rev}[t] for t in range(0, len({hist})))",
    "data-area-is-the-sort-order":
        "all({rev}[len({hist}) + 1 + k] == {s}[k] for k in range(0, len({s})))",
    "offsets-non-decreasing":
        "all({rev}[t] <= {rev}[t + 1] for t in range(0, len({hist})))",
    "data-area-by-position":
        "all({rev}[p] == {s}[p - len({hist}) - 1] for p in range(len({hist}) + 1, len({rev})))",
}
_INV = {
    "progress": "0 <= {i} and {i} <= len({s}) and {offsetrel} and -1 <= binnum_old and binnum_old < len({hist})"
                " and len({rev}) == len({s}) + len({hist}) + 1",
    "data-area": "all({rev}[p] == {s}[p - len({hist}) - 1] for p in range(len({hist}) + 1, len({hist}) + 1 + {i}))",
    "counted-prefix": "len({hist}) + 1 <= end_offset and end_offset <= len({hist}) + 1 + {i}"
                      " and all(binof({data}[{s}[k]], {dmin}, binsize) < len({hist}) for k in range(0, end_offset - len({hist}) - 1))"
                      " and all(binof({data}[{s}[k]], {dmin}, binsize) >= len({hist}) for k in range(end_offset - len({hist}) - 1, {i}))",
    "last-bin": "(binnum_old == -1 and end_offset == len({hist}) + 1)"
                " or (binnum_old >= 0 and end_offset >= len({hist}) + 2"
                "     and binof({data}[{s}[end_offset - len({hist}) - 2]], {dmin}, binsize) == binnum_old)",
    "offsets": "all(Start({data}, {s}, {dmin}, binsize, t, {rev}[t] - len({hist}) - 1) and {rev}[t] < end_offset"
               " for t in range(0, binnum_old + 1))",
    "ascending": "all({rev}[t] <= {rev}[t + 1] for t in range(0, binnum_old))",
    "counts": "all({hist}[t] == {rev}[t + 1] - {rev}[t] for t in range(0, binnum_old))"
              " and (binnum_old < 0 or {hist}[binnum_old] == end_offset - {rev}[binnum_old])"
              " and all({hist}[t] == 0 for t in range(binnum_old + 1, len({hist})))",
}


def _fmt(d, **kw):
    return {k: v.format(**kw) for k, v in d.items()}


_PY = dict(data="data", s="s", dmin="dmin", hist="hist", rev="revind", i="i", offsetrel="offset == len(hist) + 1 + i")
_PYINV = _fmt(_INV, **_PY)

contract(
    "esutil.stat.util._dohist",
    params=dict(data="arr[real]", dmin="real", s="arr[int]", binsize="real", hist="arr[int]", revind="arr[int]"),
    requires=_fmt(_PRE, **_PY),
    ensures=_fmt(_POST, **_PY),
    modifies=["hist", "revind"],
    loops={
        "L0": dict(inv=_PYINV, dec="len(s) - i"),
        "L0.0": dict(inv=dict(_PYINV, **{
            "progress": _PYINV["progress"].replace("-1 <= binnum_old", "i < len(s) and -1 <= binnum_old"),
            "fill": "binnum_old + 1 <= tbin and tbin <= binnum + 1 and binnum == binof(data[s[i]], dmin, binsize)"
                    " and 0 <= binnum and binnum < len(hist) and binnum > binnum_old and offset == len(hist) + 1 + i"
                    " and end_offset == offset and revind[offset] == s[i]"
                    " and all(revind[t] == offset for t in range(binnum_old + 1, tbin))",
        }), dec="binnum + 1 - tbin"),
        "L1": dict(inv=dict(_PYINV, **{
            "progress": _PYINV["progress"].replace("0 <= i and i <= len(s)", "i == len(s)"),
            "fill": "binnum_old + 1 <= tbin and tbin <= len(hist) + 1"
                    " and all(revind[t] == end_offset for t in range(binnum_old + 1, tbin))",
        }), dec="len(hist) + 1 - tbin"),
    },
    props=["C05"],
    abstract=["div", "trunc"],
)

contract(
    "esutil.stat.util._dohist#norev",
    runtime_name="esutil.stat.util._dohist",
    params=dict(data="arr[real]", dmin="real", s="arr[int]", binsize="real", hist="arr[int]", revind="none"),
    requires={k: v for k, v in _fmt(_PRE, **_PY).items() if k != "rev-size"},
    ensures={"counts": "all(hist[t] == count_bin(data, s, dmin, binsize, t) for t in range(0, len(hist)))"},
    modifies=["hist"],
    runtime=True, checks=["safety", "frame"],
    loops={"L0": dict(inv={"progress": "0 <= i and i <= len(s) and -1 <= binnum_old and binnum_old < len(hist)"},
                      dec="len(s) - i"),
           "L0.0": dict(inv={"fill": "tbin >= 0 and i < len(s) and 0 <= binnum and binnum < len(hist)"}, dec="binnum + 1 - tbin")},
    props=["C05"],
)


def count_bin(data, s, dmin, binsize, t):
    return sum(1 for k in range(len(s)) if int((data[s[k]] - dmin) / binsize) == t)


def trunc(x):        # run-time meaning of the spec vocabulary word
    return int(x)


# ---------------------------------------------------------------------------------- the compiled engine
_C = dict(data="data_pyobj", s="sort_pyobj", dmin="datamin", hist="hist_pyobj", rev="rev_pyobj", i="i",
          offsetrel="True")
_CINV = _fmt(_INV, **_C)

contract(
    "esutil.stat.chist_pywrap_c.PyCHist_chist",
    lang="c", source="esutil/stat/chist_pywrap.c", runtime_name="esutil.stat._chist.chist",
    params=dict(data_pyobj="arr[real]", datamin="real", sort_pyobj="arr[int]", binsize="real", hist_pyobj="arr[int]",
                rev_pyobj="arr[int]"),
    requires=_fmt(_PRE, **_C),
    ensures=_fmt(_POST, **_C),
    modifies=["hist_pyobj", "rev_pyobj"],
    loops={
        "L0": dict(inv=_CINV, dec="len(sort_pyobj) - i"),
        "L0.0": dict(inv=dict(_CINV, **{
            "progress": _CINV["progress"].replace("-1 <= binnum_old", "i < len(sort_pyobj) and -1 <= binnum_old"),
            "locals": "dorev != 0 and nbin == len(hist_pyobj) and ndata == len(sort_pyobj) and offset == len(hist_pyobj) + 1 + i",
            "this-datum": "binnum == binof(data_pyobj[sort_pyobj[i]], datamin, binsize) and 0 <= binnum and binnum < len(hist_pyobj)"
                          " and binnum > binnum_old and rev_pyobj[offset] == sort_pyobj[i]",
            "all-counted-so-far": "end_offset == offset",
            "fill": "binnum_old + 1 <= tbin and tbin <= binnum + 1"
                    " and all(rev_pyobj[t] == offset for t in range(binnum_old + 1, tbin))",
        }), dec="binnum + 1 - tbin"),
        "L1": dict(inv=dict(_CINV, **{
            "progress": _CINV["progress"].replace("0 <= i and i <= len(sort_pyobj)", "i == len(sort_pyobj)"),
            "fill": "binnum_old + 1 <= tbin and tbin <= len(hist_pyobj) + 1 and dorev != 0 and nbin == len(hist_pyobj)"
                    " and all(rev_pyobj[t] == end_offset for t in range(binnum_old + 1, tbin))",
        }), dec="len(hist_pyobj) + 1 - tbin"),
    },
    props=["C05", "C15"],
    abstract=["div", "trunc"],
)


# ---------------------------------------------------------------------------------- the callers (Binner)
_BIN = "obj:Binner{x:arr[real],y:none,weights:none,sort_index:none,xpref:const:''}"

contract(
    "esutil.stat.util.Binner._get_sort_index",
    params=dict(self=_BIN),
    ensures={
        "stable-sort-index": "len(self.sort_index) == len(self.x)"
                             " and all(0 <= self.sort_index[i] and self.sort_index[i] < len(self.x) for i in range(0, len(self.x)))"
                             " and all(self.x[self.sort_index[i]] < self.x[self.sort_index[j]]"
                             "         or (self.x[self.sort_index[i]] == self.x[self.sort_index[j]] and self.sort_index[i] < self.sort_index[j])"
                             "         for i in range(0, len(self.x)) for j in range(i + 1, len(self.x)))",
        "every-index-once": "all(self.sort_index[i] != self.sort_index[j] for i in range(0, len(self.x)) for j in range(i + 1, len(self.x)))",
        "is-a-permutation": "is_permutation(self.sort_index, self.x)",
        "visible": "same_object(self['sort_index'], self.sort_index)",
    },
    modifies=["self.sort_index", "self['sort_index']"],
    post_types={"self.sort_index": "arr[int]", "self['sort_index']": "=self.sort_index"},
    runtime=False,
    props=["C05"],
)

_LO = "(min if min is not None else self.dmin)"
_HI = "(max if max is not None else self.dmax)"

contract(
    "esutil.stat.util.Binner._get_minmax_and_indices",
    params=dict(self=_BIN, min="opt[real]", max="opt[real]"),
    requires={"non-empty": "len(self.x) >= 1"},
    raises=[("ValueError", "not any(" + "(min is None or self.x[k] >= min) and (max is None or self.x[k] <= max)"
                           " for k in range(0, len(self.x)))", "iff")],
    ensures={
        "limits": "(min is None or self.dmin == min) and (max is None or self.dmax == max)"
                  " and (min is not None or (all(self.dmin <= self.x[k] for k in range(0, len(self.x)))"
                  "                          and any(self.dmin == self.x[k] for k in range(0, len(self.x)))))"
                  " and (max is not None or (all(self.dmax >= self.x[k] for k in range(0, len(self.x)))"
                  "                          and any(self.dmax == self.x[k] for k in range(0, len(self.x)))))",
        "kept-data-lie-within-the-limits":
            "all(0 <= self['wsort'][i] and self['wsort'][i] < len(self.x)"
            " and self.dmin <= self.x[self['wsort'][i]] and self.x[self['wsort'][i]] <= self.dmax"
            " for i in range(0, len(self['wsort'])))",
        "every-datum-within-the-limits-is-kept":
            "all(not (self.dmin <= self.x[k] and self.x[k] <= self.dmax) or any(self['wsort'][i] == k for i in range(0, len(self['wsort'])))"
            " for k in range(0, len(self.x)))",
        "ordered-by-value-ties-in-original-order":
            "all(self.x[self['wsort'][i]] < self.x[self['wsort'][j]]"
            "    or (self.x[self['wsort'][i]] == self.x[self['wsort'][j]] and self['wsort'][i] < self['wsort'][j])"
            "    for i in range(0, len(self['wsort'])) for j in range(i + 1, len(self['wsort'])))",
        "input-untouched": "arr_eq(self.x, old(self.x))",
    },
    modifies=["self.sort_index", "self['sort_index']", "self.dmin", "self.dmax", "self['min']", "self['max']", "self['wsort']"],
    post_types={"self.sort_index": "arr[int]", "self['sort_index']": "=self.sort_index", "self.dmin": "real", "self.dmax": "real",
                "self['min']": "real", "self['max']": "real", "self['wsort']": "arr[int]"},
    runtime=False,
    props=["C05", "C15"],
)


# ---------------------------------------------------------------------------------- bounded domains
def _engine_cases(tier):
    import itertools
    import numpy as np
    grids = [((0.0, 0.5, 1.0, 1.5, 2.0, 3.5), (0.5, 1.0, 2.0)),
             ((0.0, 0.1, 0.2, 0.3, 0.6, 0.7, 1.2), (0.1, 0.3, 0.7))]
    maxn = 3 if tier == "quick" else 4
    for vals, sizes in grids:
        for n in range(1, maxn + 1):
            for t in itertools.product(vals, repeat=n):
                data = np.array(t, dtype="f8")
                s = data.argsort(kind="stable")
                for binsize in sizes:
                    for nbin in (1, 2, 5):
                        yield data, float(data.min()), s, binsize, nbin


@domain("esutil.stat.util._dohist")
def _dom_dohist(tier, seed):
    import numpy as np
    for data, dmin, s, binsize, nbin in _engine_cases(tier):
        yield dict(args=[data, dmin, s, binsize, np.zeros(nbin, dtype="i8"), np.zeros(s.size + nbin + 1, dtype="i8")],
                   key="%r dmin=%r bs=%r nbin=%d" % (data.tolist(), dmin, binsize, nbin))


@domain("esutil.stat.chist_pywrap_c.PyCHist_chist")
def _dom_chist(tier, seed):
    import numpy as np
    for data, dmin, s, binsize, nbin in _engine_cases(tier):
        yield dict(args=[data, dmin, s, binsize, np.zeros(nbin, dtype="i8"), np.zeros(s.size + nbin + 1, dtype="i8")],
                   key="%r dmin=%r bs=%r nbin=%d" % (data.tolist(), dmin, binsize, nbin))
    # strided (non-contiguous) data: the C code reads through the general accessor
    big = np.arange(12, dtype="f8")
    d = big[::3]
    yield dict(args=[d, 0.0, d.argsort(kind="stable"), 2.0, np.zeros(5, dtype="i8"), np.zeros(4 + 6, dtype="i8")], key="strided")


def hist_statement(data, kw, hist, rev):
    """direct transcription of the C05 statement for histogram(data, rev=True, **kw)"""
    import numpy as np
    data = np.asarray(data, dtype="f8")
    lo = kw.get("min", data.min())
    hi = kw.get("max", data.max())
    if "binsize" in kw:
        binsize = kw["binsize"]
        nbin = int(np.int64((hi - lo) / binsize)) + 1
    else:
        nbin = kw["nbin"]
        binsize = float(hi - lo) / nbin
    if len(hist) != nbin or len(rev) < nbin + 1:
        return False
    total = 0
    for b in range(nbin):
        members = [k for k in range(data.size) if lo <= data[k] <= hi and int(np.int64((data[k] - lo) / binsize)) == b]
        members.sort(key=lambda k: (data[k], k))        # ordered by value, ties in original order
        sl = list(rev[rev[b]:rev[b + 1]])
        if sl != members or hist[b] != len(members):
            return False
        total += len(members)
    return int(np.sum(hist)) == total


def _run_histogram(data, kw, engine):
    import numpy as np
    import esutil.stat.util as u
    saved = u.have_chist
    u.have_chist = engine == "c"
    try:
        h, r = u.histogram(data, rev=True, **kw)
    finally:
        u.have_chist = saved
    return np.array(h), np.array(r)


def _both_engines(data, kw):
    import numpy as np
    hc, rc = _run_histogram(data, kw, "c")
    hp, rp = _run_histogram(data, kw, "py")
    # the counts alone (no reverse indices requested), from both engines and through Binner.dohist
    import esutil.stat.util as u
    plain = []
    saved = u.have_chist
    try:
        for eng in (True, False):
            u.have_chist = eng
            plain.append(np.array(u.histogram(data, **kw)))
            b = u.Binner(np.asarray(data))
            b.dohist(**kw)
            plain.append(np.array(b["hist"]))
        # weights never decide what is counted: zero, negative and positive weights give the counts and reverse indices
        # of the unweighted call
        n = np.asarray(data).size
        wsets = [np.zeros(n), np.where(np.arange(n) % 2 == 0, 0.0, 1.5), np.where(np.arange(n) % 3 == 0, -1.0, 0.25)]
        weighted = True
        for wi, w in enumerate(wsets):
            u.have_chist = wi != 1
            with np.errstate(all="ignore"):
                res = u.histogram(data, weights=w, rev=True, **kw)
            if not (np.array_equal(res["hist"], hc) and np.array_equal(res["rev"], rc)):
                weighted = False
    finally:
        u.have_chist = saved
    return dict(hist=hc, rev=rc, same=bool(np.array_equal(hc, hp) and np.array_equal(rc, rp) and hc.dtype == hp.dtype),
                plain_same=bool(all(np.array_equal(p, hc) for p in plain)), weighted_same=weighted)


contract("esutil.stat.util.histogram#statement", params={}, assumed=True, runtime_name="esutil.stat.util.histogram",
         why_assumed="bounded run-time stand-in for the composition histogram -> Binner -> engine (the engines and the "
                     "sort/limit selection are proved separately)",
         rt_ensures={"counts-and-reverse-indices-partition-the-counted-data": "hist_statement(data, kw, result['hist'], result['rev'])",
                     "engines-identical": "result['same']",
                     "counts-without-reverse-indices-are-the-same-counts (both engines, histogram and Binner.dohist)": "result['plain_same']",
                     "weights-do-not-decide-what-is-counted (zero and negative weights included)": "result['weighted_same']"},
         raises=[("ValueError", "no_data", "iff")],
         props=["C05"])


@domain("esutil.stat.util.histogram#statement")
def _dom_histogram(tier, seed):
    import itertools
    import random
    import numpy as np
    sets = []
    vals = (0.0, 0.3, 0.5, 1.0, 2.0, 2.5)
    for n in (1, 2, 3):
        for t in itertools.product(vals, repeat=n):
            sets.append(np.array(t))
    rng = random.Random(seed)
    for _ in range(40 if tier == "quick" else 1500):
        n = rng.randint(1, 30)
        kind = rng.randint(0, 3)
        if kind == 0:
            sets.append(np.array([rng.randint(-3, 6) for _ in range(n)], dtype="i8"))
        elif kind == 1:
            sets.append(np.array([rng.choice([0.1 * k for k in range(12)]) for _ in range(n)]))
        elif kind == 2:
            sets.append(np.array([rng.uniform(-2, 2) for _ in range(n)]))
        else:
            sets.append(np.array(sorted((rng.randint(0, 4) for _ in range(n)), reverse=True), dtype="f8"))
    specs = [dict(binsize=1.0), dict(binsize=0.5), dict(binsize=0.1), dict(nbin=1), dict(nbin=3),
             dict(binsize=1.0, min=0.5), dict(binsize=0.7, max=2.0), dict(nbin=2, min=0.3, max=2.0),
             dict(binsize=0.5, min=-1.0, max=1.0), dict(nbin=4, max=1.0)]
    # the same values in other layouts: byte-swapped, single precision, integers, strided
    extra = []
    for d in sets[-12:]:
        d8 = np.asarray(d, dtype="f8")
        big = np.zeros(d8.size * 2)
        big[::2] = d8
        extra += [d8.astype(">f8"), big[::2], np.round(d8).astype(">i4"), np.round(d8 * 4).astype("f4") / 4]
    sets = sets + extra
    for data in sets:
        for kw in specs:
            d = np.asarray(data, dtype="f8")
            lo, hi = kw.get("min", d.min()), kw.get("max", d.max())
            none = not ((d >= lo) & (d <= hi)).any()
            if not none and "nbin" in kw and hi == lo:
                continue      # zero bin size: outside the statement's domain (binsize > 0)
            yield dict(call=(lambda data=data, kw=kw: _both_engines(data, kw)), args=[],
                       ghost=dict(data=data, kw=kw, no_data=bool(none)), key="%r %r" % (np.asarray(data).tolist(), kw))
