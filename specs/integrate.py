"""Contracts for esutil/integrate: the C Gauss-Legendre routine, its Python wrapper and the QGauss integrators  (property C17).

Proved (reals): the structure of the rule the C routine returns (one node/weight per requested point, every cell written,
nodes mirrored about the interval midpoint, weights mirrored), the wrapper's argument check, the integrators' formula
(f1 times the weighted sum over the affinely mapped nodes; for tabulated data, of interplin's values) and the object
invariant that makes results independent of earlier calls.  The numerical content of the Newton iteration (node values,
positivity and sum of the weights, exactness to degree 2n-1) is a bounded stand-in against an independent rule."""
from esvc.speclang import contract, domain

# ------------------------------------------------------------------------------------------------ the C routine
contract(
    "esutil.integrate.cgauleg_pywrap_c.PyCGauleg_cgauleg",
    lang="c", source="esutil/integrate/cgauleg_pywrap.c", runtime_name="esutil.integrate._cgauleg.cgauleg",
    params=dict(x1="real", x2="real", npts_long="int"),
    returns="tuple[arr[real],arr[real]]",
    requires={"at-least-one-point (checked by the Python wrapper)": "npts_long >= 1"},
    ensures={
        "one-node-and-weight-per-point": "len(result[0]) == npts_long and len(result[1]) == npts_long",
        "nodes-mirrored-about-the-midpoint (the middle node of an odd rule is its own mirror image: its distance from the midpoint is numerical, bounded)":
            "all(2 * k == npts_long - 1 or approx(result[0][k] + result[0][npts_long - 1 - k], x1 + x2) for k in range(0, npts_long))",
        "weights-mirrored": "all(approx(result[1][k], result[1][npts_long - 1 - k]) for k in range(0, npts_long))",
    },
    loops={
        "L0": dict(inv={
            "progress": "1 <= i and i <= m + 1 and npts == npts_long and m == c_div(npts + 1, 2) and xm == (x1 + x2) / 2.0"
                        " and len(xarray) == npts and len(warray) == npts",
            "low-half-done": "all((2 * k == npts - 1 or xarray[k] + xarray[npts - 1 - k] == 2 * xm) and warray[k] == warray[npts - 1 - k] for k in range(0, i - 1))",
            "high-half-done": "all((2 * k == npts - 1 or xarray[k] + xarray[npts - 1 - k] == 2 * xm) and warray[k] == warray[npts - 1 - k]"
                              " for k in range(npts - (i - 1), npts))",
        }, dec="m + 1 - i"),
        "L0.0": dict(inv={"unchanged-context": "1 <= i and i <= m"}),
        "L0.0.0": dict(inv={"counter": "1 <= j"}, dec="npts + 1 - j"),
    },
    total_float_division=True,
    notes="termination of the Newton loop (L0.0) is not proved",
    props=["C17", "C15"],
)


@domain("esutil.integrate.cgauleg_pywrap_c.PyCGauleg_cgauleg")
def _dom_cgauleg(tier, seed):
    for n in list(range(1, 40)) + [64, 101, 200]:
        for a, b in ((-1.0, 1.0), (0.0, 4.0), (-3.5, -1.25), (2.0, 2.0 + 1e-9), (-1e9, 3e9), (5.0, 1.0)):
            yield dict(args=[a, b, n], key="n=%d [%g,%g]" % (n, a, b))


# ------------------------------------------------------------------------------------------------ Python layer
contract(
    "esutil.integrate.util.gauleg",
    params=dict(x1="real", x2="real", npts="int"),
    globals=dict(have_cgauleg=True),
    raises=[("ValueError", "npts <= 0", "iff")],
    returns="tuple[arr[real],arr[real]]",
    ensures={
        "one-node-and-weight-per-point": "len(result[0]) == npts and len(result[1]) == npts",
        "nodes-mirrored-about-the-midpoint": "all(2 * k == npts - 1 or approx(result[0][k] + result[0][npts - 1 - k], x1 + x2) for k in range(0, npts))",
        "weights-mirrored": "all(approx(result[1][k], result[1][npts - 1 - k]) for k in range(0, npts))",
        "the-rule-is-a-function-of-its-arguments": "arr_eq(result[0], gl_nodes(x1, x2, npts)) and arr_eq(result[1], gl_weights(x1, x2, npts))",
    },
    asserts={"return#0:before": {
        "deterministic-routine": "assume_axiom(arr_eq(x, gl_nodes(x1, x2, npts)) and arr_eq(w, gl_weights(x1, x2, npts)))"}},
    props=["C17"], runtime=False,
)

_QG = "obj:QGauss{npts:opt[pos],xxi:opt[arr[real]],wii:opt[arr[real]],f2:none}"


def QInv(self):
    """the cached rule is the rule of the cached point count"""
    return (self.npts is None
            or (self.xxi is not None and self.wii is not None
                and arr_eq(self.xxi, gl_nodes(-1.0, 1.0, self.npts)) and arr_eq(self.wii, gl_weights(-1.0, 1.0, self.npts))))


_QPOST = {"self.npts": "opt[pos]", "self.xxi": "opt[arr[real]]", "self.wii": "opt[arr[real]]"}

contract(
    "esutil.integrate.util.QGauss.setup",
    params=dict(self=_QG, npts="opt[pos]"),
    requires={"invariant": "QInv(self)"},
    ensures={
        "invariant-kept": "QInv(self)",
        "point-count-is-the-requested-one-or-the-previous": "self.npts == (npts if npts is not None else old(self.npts))",
    },
    modifies=["self.npts", "self.xxi", "self.wii"], post_types=_QPOST, inline_calls=["QGauss.setup"],
    props=["C17"], runtime=False,
)

contract(
    "esutil.integrate.util.QGauss.integrate_func",
    params=dict(self=_QG, xvals="tuple[real,real]", func="func", npts="opt[pos]"),
    requires={"invariant": "QInv(self)"},
    raises=[("ValueError", "npts is None and self.npts is None", "iff")],
    ensures={
        "invariant-kept": "QInv(self)",
        "weighted-sum-over-the-mapped-nodes-of-the-requested-rule (independent of earlier calls)":
            "result == ((xvals[1] - xvals[0]) / 2.0) * SUM(apply('func', self.xxi * ((xvals[1] - xvals[0]) / 2.0) + (xvals[1] + xvals[0]) / 2.0) * self.wii)",
        "rule-used-is-the-requested-one": "self.npts == (npts if npts is not None else old(self.npts))",
    },
    modifies=["self.npts", "self.xxi", "self.wii"], post_types=_QPOST, inline_calls=["QGauss.setup"],
    props=["C17"], runtime=False,
)

contract(
    "esutil.integrate.util.QGauss.integrate_data",
    params=dict(self=_QG, xvals="arr[real]", yvals="arr[real]", npts="opt[pos]"),
    requires={"invariant": "QInv(self)",
              "table": "len(xvals) >= 2 and len(yvals) == len(xvals)",
              "strictly-increasing-abscissae": "all(xvals[i] < xvals[j] for i in range(0, len(xvals)) for j in range(i + 1, len(xvals)))"},
    raises=[("ValueError", "npts is None and self.npts is None", "iff")],
    ensures={"invariant-kept": "QInv(self)",
             "rule-used-is-the-requested-one": "self.npts == (npts if npts is not None else old(self.npts))",
             "inputs-untouched": "arr_eq(xvals, old(xvals)) and arr_eq(yvals, old(yvals))"},
    # the statement, with the interpolated values yi as the witness: the result is f1 times the weighted sum of yi, the yi
    # are interplin's values (its proved contract) at the mapped nodes of the requested rule over [min x, max x]
    ret_post={"return#2": {
        "weighted-sum-of-the-interpolated-values": "result == f1 * SUM(yi * self.wii)",
        "mapped-nodes": "f1 == (x2 - x1) / 2.0 and f2 == (x2 + x1) / 2.0 and len(xi) == len(self.xxi)"
                        " and all(xi[k] == self.xxi[k] * f1 + f2 for k in range(0, len(xi)))",
        "interval-is-the-table-range": "all(x1 <= xvals[k] and xvals[k] <= x2 for k in range(0, len(xvals)))",
        "values-are-the-piecewise-linear-interpolant":
            "len(yi) == len(xi) and all(not ((m == 0 or xvals[m] < xi[k]) and (m == len(xvals) - 2 or xi[k] <= xvals[m + 1]))"
            "    or approx(yi[k], (xi[k] - xvals[m]) * (yvals[m + 1] - yvals[m]) / (xvals[m + 1] - xvals[m]) + yvals[m])"
            "    for k in range(0, len(xi)) for m in range(0, len(xvals) - 1))",
    }},
    modifies=["self.npts", "self.xxi", "self.wii"], post_types=_QPOST, inline_calls=["QGauss.setup"],
    abstract=["mul", "div"],
    props=["C17", "C15"], runtime=False,
)


# ------------------------------------------------------------------------------------------------ bounded stand-ins (labelled)
def gl_rule_ok(x, w, a, b, n):
    """the statement about the rule itself, against an independently computed Gauss-Legendre rule"""
    import numpy as np
    x, w = np.asarray(x), np.asarray(w)
    if x.shape != (n,) or w.shape != (n,) or not (np.isfinite(x).all() and np.isfinite(w).all()):
        return "shape/finite"
    xr, wr = np.polynomial.legendre.leggauss(n)
    width = b - a
    xr = xr * width / 2.0 + (a + b) / 2.0
    wr = wr * width / 2.0
    tol = 1e-9 * abs(width)
    lo, hi = min(a, b), max(a, b)
    if not ((x > lo).all() and (x < hi).all()):
        return "inside"
    if n > 1 and not (np.diff(x) * np.sign(width) > 0).all():
        return "ascending"
    if not (np.abs((x + x[::-1]) - (a + b)) <= tol).all() or not (np.abs(w - w[::-1]) <= tol).all():
        return "symmetric"
    if not (w * np.sign(width) > 0).all() or abs(w.sum() - width) > tol:
        return "weights"
    if not (np.abs(x - xr) <= tol).all() or not (np.abs(w - wr) <= tol).all():
        return "independent rule"
    return True


def gl_exact(x, w, a, b, n, seed):
    """every polynomial of degree <= 2n-1 is integrated with error below 1e-9 (b-a) max|p|"""
    import random
    import numpy as np
    rng = random.Random(seed)
    for deg in sorted({0, 1, n, 2 * n - 1, max(0, 2 * n - 2)}):
        # random combination of Legendre polynomials on [a,b] (well conditioned), exact integral = c0 * (b - a)
        c = np.array([rng.uniform(-1, 1) for _ in range(deg + 1)])
        t = (2 * np.asarray(x) - (a + b)) / (b - a)
        p = np.polynomial.legendre.legval(t, c)
        grid = np.polynomial.legendre.legval(np.linspace(-1, 1, 401), c)
        exact = c[0] * (b - a)
        if abs((w * p).sum() - exact) > 1e-9 * abs(b - a) * np.abs(grid).max():
            return "degree %d" % deg
    return True


def gauleg_is_fresh(x, w, a, b, n):
    import numpy as np
    import esutil.integrate as integ
    if n > 64:
        return True
    x2, w2 = integ.gauleg(a, b, n)
    if x2 is x or w2 is w or np.shares_memory(x2, x) or np.shares_memory(w2, w):
        return False
    keepx, keepw = x.copy(), w.copy()
    x2 *= 0.5
    w2 += 1.0
    x3, w3 = integ.gauleg(a, b, n)
    ok = np.array_equal(x3, keepx) and np.array_equal(w3, keepw)
    if ok and (a, b) == (-1.0, 1.0):
        q = integ.QGauss(n)       # the integrators get their rule from the same function
        ok = np.array_equal(np.asarray(q.xxi), keepx) and np.array_equal(np.asarray(q.wii), keepw)
    return bool(ok)


contract("esutil.integrate.util.gauleg#rule", params={}, assumed=True, runtime_name="esutil.integrate.util.gauleg",
         why_assumed="bounded run-time stand-in: node values, positivity/sum of weights and exactness are properties of the limit of "
                     "a floating-point Newton iteration (the structure of the returned rule is proved)",
         rt_ensures={"nodes-and-weights": "gl_rule_ok(result[0], result[1], a, b, n) is True",
                     "exact-to-degree-2n-1": "n > 30 or gl_exact(result[0], result[1], a, b, n, n) is True",
                     "new-arrays-on-every-call (what a caller does with one rule cannot reach the next one)": "gauleg_is_fresh(result[0], result[1], a, b, n)"},
         props=["C17"])


@domain("esutil.integrate.util.gauleg#rule")
def _dom_gauleg_rule(tier, seed):
    import esutil.integrate as integ
    ns = list(range(1, 61 if tier == "quick" else 201)) + [64, 100, 128, 200, 300, 500, 1000, 2000]
    for n in ns:
        ivs = [(-1.0, 1.0), (0.0, 4.0)] if n > 40 else [(-1.0, 1.0), (0.0, 4.0), (-7.5, -2.25), (0.0, 1e-12), (1.0, 1.0 + 1e-6), (-1e12, 2e12), (5.0, 1.0)]
        for a, b in ivs:
            yield dict(call=(lambda a=a, b=b, n=n: integ.gauleg(a, b, n)), args=[], ghost=dict(a=a, b=b, n=n), key="n=%d [%g,%g]" % (n, a, b))


def _ref_sum(f, a, b, n):
    import numpy as np
    import esutil.integrate as integ
    x, w = integ.gauleg(-1.0, 1.0, n)
    f1, f2 = (b - a) / 2.0, (b + a) / 2.0
    return f1 * (f(x * f1 + f2) * w).sum()


def qgauss_sequence_ok(calls, results):
    """each call returns the weighted sum of its own rule, whatever was used before on the same object"""
    import numpy as np
    for (kind, arg, n), got in zip(calls, results):
        if kind == "func":
            a, b, f = arg
            exp = _ref_sum(f, a, b, n)
        else:
            xs, ys = arg
            exp = _ref_sum(lambda t: np.interp(t, xs, ys), xs.min(), xs.max(), n)
        # tolerance relative to the size of the terms of the sum, not of the sum itself (integrands that change sign can
        # integrate to zero: a thorough-tier run with integer tables found one whose terms of size 1 cancel to 1e-16)
        if kind == "func":
            mag = _ref_sum(lambda t, f=f: np.abs(f(t)), a, b, n)
        else:
            mag = _ref_sum(lambda t: np.abs(np.interp(t, xs, ys)), xs.min(), xs.max(), n)
        if not approx(got, exp, max(1e-12, 1e-3 * abs(float(mag)))):
            return False
    return True


from esvc.speclang import approx  # noqa: E402

contract("esutil.integrate.util.QGauss#sequences", params={}, assumed=True, runtime_name="esutil.integrate.util.QGauss",
         why_assumed="bounded run-time stand-in: whole call sequences on one object (the per-call contracts with the object invariant "
                     "are proved; dispatch on FunctionType and the data path's numpy calls are run here)",
         rt_ensures={"every-call-uses-its-own-rule": "qgauss_sequence_ok(calls, result)"},
         props=["C17"])


def _np_funcs():
    import numpy as np

    def f_poly(t):
        return 3 * t ** 3 - t + 2

    def f_exp(t):
        return np.exp(-0.5 * t * t)

    def f_sin(t):
        return np.sin(3 * t) + 1.5
    return [f_poly, f_exp, f_sin]


@domain("esutil.integrate.util.QGauss#sequences")
def _dom_qgauss_seq(tier, seed):
    import random
    import numpy as np
    import esutil.integrate as integ
    rng = random.Random(seed)
    funcs = _np_funcs()
    for _ in range(60 if tier == "quick" else 1500):
        n0 = rng.choice([None, 3, 10, 40])
        calls = []
        cur = n0
        for _k in range(rng.randint(1, 5)):
            n = rng.choice([None, 2, 5, 10, 33, 80])
            if n is None and cur is None:
                n = 7
            eff = n if n is not None else cur
            prev, cur = cur, eff
            if rng.random() < 0.6:
                a, b = rng.choice([(-4.0, 4.0), (0.0, 1e-6), (2.0, -1.0), (-1e3, 5e3)])
                calls.append(("func", (a, b, rng.choice(funcs)), n, eff))
            else:
                m = rng.randint(2, 40)
                xs = np.cumsum([rng.choice([0.3, 1.0, 1e-7, 2.5]) for _ in range(m)]) * rng.choice([1.0, 1e-8, 1e-11, 1e5]) - rng.choice([0.0, 1.0])
                if not (np.diff(xs) > 0).all():
                    xs = xs + rng.choice([0.0, 1.0])       # the offset swallowed the spacings: tables are strictly increasing
                    xs = np.unique(xs)
                    m = xs.size
                    if m < 2:
                        cur = prev          # this call is dropped: the object has not seen its point count
                        continue
                ys = np.array([rng.uniform(-2, 2) for _ in range(m)])
                if rng.random() < 0.35:
                    # tables indexed by whole numbers (channel, pixel or bin numbers) are tables too: integer columns
                    off = rng.choice([0, 0, 100, -3])
                    xs = (np.cumsum([rng.choice([1, 1, 2, 5]) for _ in range(m)]) + off).astype(rng.choice(["i8", "i4", "i2", "u2"] if off >= 0 else ["i8", "i4", "i2"]))
                    if rng.random() < 0.3:
                        ys = np.array([rng.randint(-5, 5) for _ in range(m)], dtype=rng.choice(["i8", "i4"]))
                calls.append(("data", (xs, ys), n, eff))

        def run(n0=n0, calls=calls):
            q = integ.QGauss(npts=n0)
            out = []
            for kind, arg, n, eff in calls:
                if kind == "func":
                    a, b, f = arg
                    out.append(q.integrate([a, b], f, npts=n))
                else:
                    out.append(q.integrate(arg[0], arg[1], npts=n))
            return out
        yield dict(call=run, args=[], ghost=dict(calls=[(k, a, eff) for k, a, n, eff in calls]),
                   key="n0=%s %s" % (n0, [(k, n) for k, a, n, eff in calls]))


def qgauss2_ok(nx, ny, xr, yr, f, got):
    import numpy as np
    import esutil.integrate as integ
    x, wx = integ.gauleg(-1.0, 1.0, nx)
    y, wy = integ.gauleg(-1.0, 1.0, ny)
    xf1, xf2 = (xr[1] - xr[0]) / 2.0, (xr[1] + xr[0]) / 2.0
    yf1, yf2 = (yr[1] - yr[0]) / 2.0, (yr[1] + yr[0]) / 2.0
    tot = 0.0
    for i in range(nx):
        for j in range(ny):
            tot += wx[i] * wy[j] * f(np.array(x[i] * xf1 + xf2), np.array(y[j] * yf1 + yf2))
    return approx(got, xf1 * yf1 * tot, 1e-12)


contract("esutil.integrate.util.QGauss2#tensor", params={}, assumed=True, runtime_name="esutil.integrate.util.QGauss2",
         why_assumed="bounded run-time stand-in: the tensor-product grids are 2-d numpy broadcasting (meshgrid / newaxis), outside the prover's array model",
         rt_ensures={"tensor-product-sum": "qgauss2_ok(nx, ny, xr, yr, f, result)"},
         props=["C17"])


@domain("esutil.integrate.util.QGauss2#tensor")
def _dom_qgauss2(tier, seed):
    import numpy as np
    import esutil.integrate as integ

    def f1(x, y):
        return x * y * y + 1.0

    def f2(x, y):
        return np.exp(-0.5 * (x * x + y * y))

    def f_const(x, y):
        return 1.5          # an integrand that does not look at its arguments (the area times a constant)

    def f_xonly(x, y):
        return x * x
    for nx, ny in [(1, 1), (2, 2), (3, 4), (4, 3), (1, 5), (7, 2), (10, 10), (12, 30)]:
        for xr, yr in [((0.0, 1.0), (0.0, 2.0)), ((-3.0, 3.0), (-1.0, 0.5)), ((2.0, -1.0), (0.0, 1e-5))]:
            for f in (f1, f2, f_const, f_xonly):
                yield dict(call=(lambda nx=nx, ny=ny, xr=xr, yr=yr, f=f: integ.QGauss2(nx, ny).integrate_func(list(xr), list(yr), f)),
                           args=[], ghost=dict(nx=nx, ny=ny, xr=xr, yr=yr, f=f), key="%dx%d %s %s %s" % (nx, ny, xr, yr, f.__name__))
