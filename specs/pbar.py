"""Contracts for esutil/pbar.py (property C20: progress wrappers and parallel map)."""
from esvc.speclang import contract, domain

# The statement: "The progress wrappers yield exactly the items of the wrapped iterable, in order and evaluated lazily,
# for every option combination and whether or not the iterable has a known length."
# A generator is verified as a producer of a ghost output trace (gen=): at every `yield` the value is the next item of
# the source, exactly one item has been consumed since the previous yield, and at exhaustion all items were yielded.
# "No exception on any path" is the absence of unexpected-exception / safety failures.

_TOTAL_OK = "total is None or total >= 1 or nitems(iterable) == 0"   # a total of 0 contradicting a non-empty iterable is misuse

contract(
    "esutil.pbar.format_interval",
    params=dict(t="real"),
    returns="opaque:str",
    props=["C20"],
)

contract(
    "esutil.pbar.format_meter",
    params=dict(n="nat", total="opt[nat]", elapsed="real", n_bars="int"),
    requires={"rate-defined": "n >= 1 or elapsed <= 0"},
    returns="opaque:str",
    props=["C20"],
)

contract(
    "esutil.pbar.StatusPrinter.print_status",
    params=dict(self="obj:StatusPrinter{file:opaque:file,last_printed_len:nat}", s="opaque:str"),
    modifies=["self"],
    props=["C20"],
)

_OPTS = dict(desc="union[const:'',const:'x']", total="opt[nat]", file="opaque:file")

contract(
    "esutil.pbar.sbar",
    params=dict(iterable="iterable", **_OPTS),
    requires={"total-consistent": _TOTAL_OK},
    gen=dict(source="iterable"),
    raises=[("RuntimeError", "total is None and not defined_len(iterable)", "iff")],
    loops={"L0": dict(counter="k", inv={"trace": "nyielded() == k and consumed() == k"})},
    props=["C20"],
)

contract(
    "esutil.pbar._pbar_full",
    params=dict(iterable="iterable", leave="bool", mininterval="real", miniters="int", n_bars="int",
                simple="bool", **_OPTS),
    requires={"total-consistent": _TOTAL_OK,
              "simple-needs-length": "not simple or total is not None or defined_len(iterable)"},
    gen=dict(source="iterable"),
    loops={"L0": dict(counter="k", inv={"trace": "nyielded() == k and consumed() == k"}),
           "L1": dict(counter="k", inv={"trace": "nyielded() == k and consumed() == k and n == k and 0 <= last_print_n and last_print_n <= n"})},
    props=["C20"],
)

contract(
    "esutil.pbar.pbar",
    params=dict(iterable="iterable", leave="bool", mininterval="real", miniters="int", n_bars="int",
                simple="bool", **_OPTS),
    requires={"total-consistent": _TOTAL_OK,
              "simple-needs-length": "not simple or total is not None or defined_len(iterable)"},
    gen=dict(source="iterable"),
    props=["C20"],
)

contract(
    "esutil.pbar.prange",
    params=dict(args="union[tuple[nat],tuple[int,int]]", kwargs="const:{}"),
    gen=dict(source_expr="range(*args)"),
    props=["C20"],
)

contract(
    "esutil.pbar.pmap",
    params=dict(fn="func", iterable="iterable", chunksize="pos", nproc="pos", kw="const:{'total': None}"),
    returns="list[int]",
    ensures={
        "length": "len(result) == nitems(iterable)",
        "is-list-map-fn-items": "all(result[k] == mapped('fn', item(iterable, k)) for k in range(0, nitems(iterable)))",
    },
    runtime=False,
    props=["C20"],
)


# --------------------------------------------------------------------------- bounded domains
class _Counting:
    """iterator wrapper recording how many items were taken (laziness check)"""

    def __init__(self, items, with_len):
        self.items, self.taken = list(items), 0
        if with_len:
            self.__class__ = _CountingLen

    def __iter__(self):
        for x in self.items:
            self.taken += 1
            yield x


class _CountingLen(_Counting):
    def __len__(self):
        return len(self.items)


def _drive(wrapper, items, with_len, **kw):
    import io
    src = _Counting(items, with_len)
    out, lazy = [], True
    for x in wrapper(src, file=io.StringIO(), **kw):
        out.append(x)
        if src.taken != len(out):
            lazy = False
    return dict(items=out, lazy=lazy)


_RT = {"same-items-in-order": "result['items'] == expected", "lazy": "result['lazy']"}


def _wrapper_cases(fname, tier, optsets):
    import esutil.pbar as P
    fn = getattr(P, fname)
    for n in (0, 1, 2, 3, 11, 25):
        items = [("it", k) for k in range(n)]
        for with_len in (True, False):
            for kw in optsets:
                if (kw.get("simple") or fname == "sbar") and not with_len and kw.get("total") is None:
                    continue
                if kw.get("total") == 0 and n > 0:
                    continue
                yield dict(call=(lambda fn=fn, items=items, with_len=with_len, kw=kw: _drive(fn, items, with_len, **kw)),
                           args=[], ghost=dict(expected=items), key="%s n=%d len=%s %r" % (fname, n, with_len, kw))


_PBAR_OPTS = [dict(), dict(desc="d"), dict(total=3), dict(total=40), dict(leave=False), dict(simple=True),
              dict(simple=True, total=5), dict(mininterval=0.0), dict(mininterval=0.0, miniters=2), dict(n_bars=5),
              dict(mininterval=0.0, n_bars=0), dict(desc="x", leave=False, mininterval=0.0, total=2)]

contract("esutil.pbar.pbar#runtime", params={}, assumed=True, why_assumed="bounded run-time stand-in for the generator contracts",
         rt_ensures=_RT, props=["C20"], runtime_name="esutil.pbar.pbar")


@domain("esutil.pbar.pbar#runtime")
def _dom_pbar(tier, seed):
    yield from _wrapper_cases("pbar", tier, _PBAR_OPTS)
    yield from _wrapper_cases("sbar", tier, [dict(total=3), dict(desc="d", total=30)] + [dict()])
    import esutil.pbar as P
    import io
    for a in ((0,), (5,), (2, 9), (3, 3)):
        yield dict(call=(lambda a=a: dict(items=list(P.prange(*a, file=io.StringIO())), lazy=True)), args=[],
                   ghost=dict(expected=list(range(*a))), key="prange%r" % (a,))


contract("esutil.pbar.pmap#runtime", params={}, assumed=True, why_assumed="bounded run-time stand-in (process scheduling is the stdlib's contract)",
         rt_ensures={"is-list-map": "result == expected"}, props=["C20"], runtime_name="esutil.pbar.pmap")


@domain("esutil.pbar.pmap#runtime")
def _dom_pmap(tier, seed):
    import esutil.pbar as P
    import io
    from esvc.rt_helpers import slow_square as _slow_square
    combos = [(1, 1), (2, 1), (3, 2), (4, 5)] if tier == "quick" else [(p, c) for p in range(1, 9) for c in (1, 2, 3, 7)]
    for nproc, chunk in combos:
        for n in (0, 1, 7):
            items = list(range(n))
            for kw in (dict(total=n), dict()):
                yield dict(call=(lambda items=items, nproc=nproc, chunk=chunk, kw=kw:
                                 P.pmap(_slow_square, items, chunksize=chunk, nproc=nproc, file=io.StringIO(), **kw)),
                           args=[], ghost=dict(expected=[x * x for x in items]),
                           key="pmap n=%d nproc=%d chunk=%d %r" % (n, nproc, chunk, kw))
