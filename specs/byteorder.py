"""Contracts for the byte-order helpers of esutil.numpy_util and esutil.recfile.Util  (property C16; frame clauses C15).

Arrays are values of the byte-order model (esvc/bomodel.py): per base field an order code (0 '<', 1 '>', 2 '=', 3 '|') and
opaque stored bytes; numpy's byteswap / newbyteorder / decoding algebra is assumed and conformance-tested in the bounded
layer.  The machine order np.little_endian is a symbolic constant, so every statement is verified for both machines.
Structured arrays are verified with 1, 2 and 3 fields (the loops over dtype.names are unrolled over these field lists);
each field's order is arbitrary subject to the statement's "uniformly ordered" precondition."""
from esvc.speclang import contract, domain

_VARIANTS = [dict(array="bo"), dict(array="bo:a"), dict(array="bo:a,b"), dict(array="bo:a,b,c")]

_UNIFORM = ("all(bo_order(array, f) == 3 or bo_order(array, g) == 3 or bo_big(array, f) == bo_big(array, g)"
            " for f in bo_fields(array) for g in bo_fields(array))")

for _fn, _pred in (("is_big_endian", "bo_big"), ("is_little_endian", "bo_little")):
    contract(
        "esutil.numpy_util." + _fn,
        params=dict(array="bo"), returns="bool",
        ensures={"agrees-with-declared-order-on-all-four-spellings": "result == %s(array)" % _pred},
        props=["C16", "C15"],
    )

contract(
    "esutil.numpy_util.byteswap",
    params=dict(array="bo", inplace="const:False", keep_dtype="bool"),
    variants=_VARIANTS,
    ensures={
        "bytes-swapped": "all(bo_bytes(result, f) == bo_swapped(old(array), f) for f in bo_fields(array))",
        "declared-order-flipped-unless-keep_dtype":
            "all((bo_order(result, f) == bo_order(old(array), f)) if keep_dtype else"
            " (bo_order(result, f) == 3 or bo_big(result, f) != bo_big(old(array), f)) for f in bo_fields(array))",
        "values-preserved-unless-keep_dtype":
            "keep_dtype or all(bo_value(result, f) == bo_value(old(array), f) for f in bo_fields(array))",
        "field-structure-kept": "bo_names(result) == bo_names(old(array))",
        "independent-copy": "not shares_buffer(result, array) and not same_object(result, array)",
        "input-untouched": "all(bo_bytes(array, f) == bo_bytes(old(array), f) and bo_order(array, f) == bo_order(old(array), f)"
                           " for f in bo_fields(array))",
    },
    props=["C16", "C15"],
)

contract(
    "esutil.numpy_util.byteswap#inplace",
    runtime_name="esutil.numpy_util.byteswap",
    params=dict(array="bo", inplace="const:True", keep_dtype="bool"),
    variants=_VARIANTS,
    ensures={
        "bytes-swapped": "all(bo_bytes(result, f) == bo_swapped(old(array), f) for f in bo_fields(array))",
        "declared-order-flipped-unless-keep_dtype":
            "all((bo_order(result, f) == bo_order(old(array), f)) if keep_dtype else"
            " (bo_order(result, f) == 3 or bo_big(result, f) != bo_big(old(array), f)) for f in bo_fields(array))",
        "values-preserved-unless-keep_dtype":
            "keep_dtype or all(bo_value(result, f) == bo_value(old(array), f) for f in bo_fields(array))",
        "same-object-returned": "same_object(result, array)",
    },
    modifies=["array"],
    props=["C16"],
)


def _conv(target):
    """postconditions of to_<target>: target is bo_native / bo_big / bo_little"""
    return {
        "declared-order-is-the-requested-one-unless-keep_dtype":
            "keep_dtype or all(bo_order(result, f) == 3 or %s(result, f) for f in bo_fields(array))" % target,
        "values-preserved-unless-keep_dtype":
            "keep_dtype or all(bo_value(result, f) == bo_value(old(array), f) for f in bo_fields(array))",
        "keep_dtype-leaves-the-declared-byte-order-alone (only the bytes are swapped)":
            "not keep_dtype or all((bo_order(result, f) == 3) == (bo_order(old(array), f) == 3)"
            " and bo_big(result, f) == bo_big(old(array), f) for f in bo_fields(array))",
        "field-structure-kept": "bo_names(result) == bo_names(old(array))",
        "idempotent:already-converted-input-is-returned-bit-identical":
            "not all(bo_order(old(array), f) == 3 or %s(old(array), f) for f in bo_fields(array))"
            " or all(bo_bytes(result, f) == bo_bytes(old(array), f) and bo_order(result, f) == bo_order(old(array), f)"
            "        for f in bo_fields(array))" % target,
        "bytes-either-kept-or-swapped":
            "all(bo_bytes(result, f) == bo_bytes(old(array), f) for f in bo_fields(array))"
            " or all(bo_bytes(result, f) == bo_swapped(old(array), f) for f in bo_fields(array))",
    }


for _fn, _tgt in (("to_native", "bo_native"), ("to_big_endian", "bo_big"), ("to_little_endian", "bo_little")):
    contract(
        "esutil.numpy_util." + _fn,
        params=dict(array="bo", inplace="const:False", keep_dtype="bool"),
        variants=_VARIANTS,
        requires={"uniformly-ordered": _UNIFORM},
        ensures=dict(_conv(_tgt), **{
            "independent-copy-even-when-nothing-is-swapped": "not shares_buffer(result, array) and not same_object(result, array)",
            "input-untouched": "all(bo_bytes(array, f) == bo_bytes(old(array), f) and bo_order(array, f) == bo_order(old(array), f)"
                               " for f in bo_fields(array))",
        }),
        inline_calls=["byteswap"],
        props=["C16", "C15"],
    )
    contract(
        "esutil.numpy_util." + _fn + "#inplace",
        runtime_name="esutil.numpy_util." + _fn,
        params=dict(array="bo", inplace="const:True", keep_dtype="bool"),
        variants=_VARIANTS,
        requires={"uniformly-ordered": _UNIFORM},
        ensures=dict(_conv(_tgt), **{"same-object-returned": "same_object(result, array)"}),
        modifies=["array"],
        inline_calls=["byteswap"],
        props=["C16"],
    )


# ------------------------------------------------------------------------------------------------ descriptor stripping
_DESCR = "tuple[tuple[str,str],tuple[str,str,opaque],tuple[str,str]]"
_STRIPPED = ("len(result) == 3"
             " and result[0][0] == descr[0][0] and result[0][1] == descr[0][1][1:] and len(result[0]) == 2"
             " and result[1][0] == descr[1][0] and result[1][1] == descr[1][1][1:] and len(result[1]) == 3"
             " and result[2][0] == descr[2][0] and result[2][1] == descr[2][1][1:] and len(result[2]) == 2")

contract(
    "esutil.numpy_util.descr_to_native",
    params=dict(descr=_DESCR),
    ensures={"first-character-of-each-type-string-removed-names-and-shapes-kept": _STRIPPED,
             "shape-entry-kept": "same_object(result[1][2], descr[1][2])"},
    props=["C16"], runtime=False,
)

contract(
    "esutil.recfile.Util.remove_dtype_byteorder",
    params=dict(dtype="obj:dtype{descr:%s}" % _DESCR),
    ensures={"first-character-of-each-type-string-removed-names-and-shapes-kept": _STRIPPED.replace("descr[", "dtype.descr["),
             "shape-entry-kept": "same_object(result[1][2], dtype.descr[1][2])"},
    props=["C16"], runtime=False,
)

contract("esutil.numpy_util.descr_to_native#bounded", params=dict(descr="opaque"), assumed=True,
         runtime_name="esutil.numpy_util.descr_to_native",
         why_assumed="run-time evaluation of the proved clause on real numpy descriptors (bounded, labelled)",
         rt_ensures={"stripped": "[tuple(d) for d in result] == [tuple([d[0], d[1][1:]] + list(d[2:])) for d in descr]"},
         props=["C16"])
contract("esutil.recfile.Util.remove_dtype_byteorder#bounded", params=dict(dtype="opaque"), assumed=True,
         runtime_name="esutil.recfile.Util.remove_dtype_byteorder",
         why_assumed="run-time evaluation of the proved clause on real numpy dtypes (bounded, labelled)",
         rt_ensures={"stripped": "[tuple(d) for d in result] == [tuple([d[0], d[1][1:]] + list(d[2:])) for d in dtype.descr]"},
         props=["C16"])


@domain("esutil.numpy_util.descr_to_native#bounded")
def _dom_descr(tier, seed):
    for a in _bo_arrays(tier, seed):
        if a.dtype.names is not None:
            yield dict(args=[a.dtype.descr], key=str(a.dtype.descr))


@domain("esutil.recfile.Util.remove_dtype_byteorder#bounded")
def _dom_rmbo(tier, seed):
    for a in _bo_arrays(tier, seed):
        if a.dtype.names is not None:
            yield dict(args=[a.dtype], key=str(a.dtype.descr))


# ------------------------------------------------------------------------------------------------ esutil.recfile.Util twins
contract(
    "esutil.recfile.Util.is_little_endian",
    params=dict(dtype="bodtype"), returns="bool",
    ensures={"agrees-with-declared-order-on-all-four-spellings": "result == bo_little(dtype)"},
    props=["C16"], runtime=False,
)

contract(
    "esutil.recfile.Util.to_native_inplace",
    params=dict(array="bo"),
    variants=_VARIANTS,
    # no "uniformly ordered" precondition: a table whose fields differ in byte order is converted field by field (C04)
    ensures={
        "declared-native": "all(bo_order(array, f) == 3 or bo_native(array, f) for f in bo_fields(array))",
        "values-preserved": "all(bo_value(array, f) == bo_value(old(array), f) for f in bo_fields(array))",
        "already-native-input-is-left-bit-identical":
            "not all(bo_order(old(array), f) == 3 or bo_native(old(array), f) for f in bo_fields(array))"
            " or all(bo_bytes(array, f) == bo_bytes(old(array), f) and (bo_order(array, f) == 3) == (bo_order(old(array), f) == 3)"
            "        and bo_big(array, f) == bo_big(old(array), f) for f in bo_fields(array))",
        "returns-nothing": "result is None",
    },
    modifies=["array"],
    props=["C16", "C04"],
)


@domain("esutil.recfile.Util.to_native_inplace")
def _dom_to_native_inplace(tier, seed):
    for a in _bo_arrays(tier, seed):
        yield dict(args=[a.copy()], key="%s shape=%s" % (a.dtype.descr, a.shape))


# ------------------------------------------------------------------------------------------------ bounded domains
def _bo_arrays(tier, seed):
    """plain arrays of every numeric kind / size in both orders, strings, structured arrays with one shared order"""
    import itertools
    import random
    import numpy as np
    rng = random.Random(seed)
    kinds = ["i1", "u1", "i2", "u2", "i4", "u4", "i8", "u8", "f4", "f8", "c8", "c16", "b1", "S3", "U2"]
    shapes = [(), (3,), (2, 2)]
    for k in kinds:
        for o in "<>=|":
            if (o == "|") != (k in ("i1", "u1", "b1", "S3")):
                continue
            dt = np.dtype(k if o == "|" else o + k)
            for sh in shapes:
                n = int(np.prod(sh)) if sh else 1
                a = np.zeros(sh, dtype=dt)
                if dt.kind in "SU":
                    a[...] = np.array(["ab", "", "xyz", "q"][:n] if n <= 4 else ["a"] * n, dtype=dt).reshape(sh) if sh else "ab"
                elif dt.kind == "b":
                    a[...] = True
                else:
                    a[...] = (np.arange(n) * 258 + 3).reshape(sh).astype(dt) if sh else 259 % 120
                yield a
    multi = ["i2", "i4", "f8", "u8", "f4", "c8"]
    single = ["S3", "i1", "u1", "b1"]
    nstruct = 60 if tier == "quick" else 600
    for _ in range(nstruct):
        order = rng.choice("<>=")
        nf = rng.randint(1, 4)
        descr = []
        for j in range(nf):
            if rng.random() < 0.35:
                t = rng.choice(single)
            else:
                t = order + rng.choice(multi)
            if rng.random() < 0.3:
                descr.append(("f%d" % j, t, rng.choice([(2,), (2, 2)])))
            else:
                descr.append(("f%d" % j, t))
        sh = rng.choice(shapes)
        a = np.zeros(sh, dtype=descr)
        for nm in a.dtype.names:
            fld = a[nm]
            if fld.dtype.base.kind == "S":
                fld[...] = b"ab"
            elif fld.dtype.base.kind == "b":
                fld[...] = True
            else:
                fld[...] = rng.randint(1, 100)
        yield a


def _bo_domain(inplace):
    def dom(tier, seed):
        for a in _bo_arrays(tier, seed):
            for keep in (False, True):
                yield dict(args=[a.copy(), inplace, keep], key="%s shape=%s keep=%s" % (a.dtype.descr, a.shape, keep))
            if a.ndim >= 1:
                # the same values in arrays that are not contiguous: every other row of a longer array, every other column
                import numpy as np
                for keep in (False, True):
                    big = np.zeros((a.shape[0] * 2,) + a.shape[1:], dtype=a.dtype)
                    big[::2] = a
                    yield dict(args=[big[::2], inplace, keep], key="%s shape=%s keep=%s strided rows" % (a.dtype.descr, a.shape, keep))
                    if a.ndim == 2:
                        wide = np.zeros((a.shape[0], a.shape[1] * 2), dtype=a.dtype)
                        wide[:, ::2] = a
                        yield dict(args=[wide[:, ::2], inplace, keep], key="%s shape=%s keep=%s strided columns" % (a.dtype.descr, a.shape, keep))
    return dom


for _fn in ("byteswap", "to_native", "to_big_endian", "to_little_endian"):
    domain("esutil.numpy_util." + _fn)(_bo_domain(False))
    domain("esutil.numpy_util." + _fn + "#inplace")(_bo_domain(True))


@domain("esutil.numpy_util.is_big_endian")
def _dom_isbig(tier, seed):
    for a in _bo_arrays(tier, seed):
        if a.dtype.names is None:
            yield dict(args=[a])


@domain("esutil.numpy_util.is_little_endian")
def _dom_islittle(tier, seed):
    for a in _bo_arrays(tier, seed):
        if a.dtype.names is None:
            yield dict(args=[a])


# ------------------------------------------------------------------------------------------------ Recfile.write (C15 frame, C04)
contract("records.Write", params=dict(arr="opaque"), assumed=True, lang="c++", runtime=False,
         why_assumed="C++ (records.cpp Records::Write): reads PyArray_DATA row by row and writes the bytes / formatted text; it never "
                     "writes to the array (read from the source; bounded: bytes of the argument compared before and after)",
         props=["C15"])

_RECW = "obj:Recfile{robj:opaque:records,is_ascii:bool,nrows:int}"
contract(
    "esutil.recfile.Util.Recfile.write",
    params=dict(self=_RECW, data="bo"),
    variants=_VARIANTS and [dict(data="bo"), dict(data="bo:a"), dict(data="bo:a,b"), dict(data="bo:a,b,c")],
    ret_post={"end": {
        "text-writer-gets-native-order-fields-with-the-caller's-values (each field converted on its own)":
            "not self.is_ascii or all((bo_order(dataview, f) == 3 or bo_native(dataview, f))"
            " and bo_value(dataview, f) == bo_value(old(data), f) for f in bo_fields(data))",
        "binary-writer-gets-the-caller's-bytes-and-order":
            "self.is_ascii or all(bo_bytes(dataview, f) == bo_bytes(old(data), f) and bo_order(dataview, f) == bo_order(old(data), f)"
            " for f in bo_fields(data))",
    }},
    ensures={
        "caller's-table-untouched (bytes and declared byte order)":
            "all(bo_bytes(data, f) == bo_bytes(old(data), f) and bo_order(data, f) == bo_order(old(data), f) for f in bo_fields(data))",
        "row-count-advanced": "self.nrows >= old(self.nrows)",
    },
    modifies=["self.nrows"], post_types={"self.nrows": "int"},
    props=["C15", "C04"], runtime=False,
)
