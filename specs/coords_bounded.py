"""Bounded stand-ins (labelled, never counted as proved) for the numerical clauses of C08, C09 and C19: accuracy against an
extended-precision oracle, invertibility / isometry tolerances, points inside their region, sampler definitions."""
from esvc.speclang import contract, domain, approx


# ------------------------------------------------------------------------------------------------ oracle (80-bit long double)
def _unit(ra, dec):
    import numpy as np
    ra = np.deg2rad(np.atleast_1d(np.asarray(ra, dtype=np.longdouble)))
    dec = np.deg2rad(np.atleast_1d(np.asarray(dec, dtype=np.longdouble)))
    ra, dec = np.broadcast_arrays(ra, dec)
    return np.array([np.cos(ra) * np.cos(dec), np.sin(ra) * np.cos(dec), np.sin(dec)])


def true_sep(ra1, dec1, ra2, dec2):
    """great-circle angle in degrees: atan2(|u x v|, u.v) in long double (well conditioned at every separation)"""
    import numpy as np
    u, v = _unit(ra1, dec1), _unit(ra2, dec2)
    if u.shape != v.shape:
        n = max(u.shape[1], v.shape[1])
        u, v = np.broadcast_to(u, (3, n)), np.broadcast_to(v, (3, n))
    c = np.cross(u, v, axis=0)
    with np.errstate(invalid="ignore"):
        out = np.asarray(np.rad2deg(np.arctan2(np.sqrt((c * c).sum(axis=0)), (u * v).sum(axis=0))), dtype="f8")
    # a position that is not a number is at no finite distance from anything: every tolerance comparison then fails
    out[~np.isfinite(out)] = np.inf
    return out


def _pairs(tier, seed):
    import random
    import numpy as np
    rng = random.Random(seed)
    n = 400 if tier == "quick" else 40000

    def sph():
        return rng.uniform(0, 360), np.rad2deg(np.arcsin(rng.uniform(-1, 1)))
    fams = []
    for _ in range(n):
        fams.append(sph() + sph())
    for _ in range(n // 4):
        ra, dec = sph()
        d = 10.0 ** rng.uniform(-12, -3)
        ang = rng.uniform(0, 2 * np.pi)
        fams.append((ra, dec, ra + d * np.cos(ang) / max(np.cos(np.deg2rad(dec)), 1e-3), float(np.clip(dec + d * np.sin(ang), -90, 90))))
        eps = rng.choice([0.0, 1e-9, 1e-7, 1e-5, 1e-3, 0.5, 5.0])
        fams.append((ra, dec, (ra + 180.0) % 360.0, float(np.clip(-dec + eps, -90, 90))))
        fams.append((ra, 90.0 - rng.choice([0, 1e-9, 1e-5, 0.01]), rng.uniform(0, 360), 90.0 - rng.choice([0, 1e-9, 1e-3])))
        fams.append((ra, -90.0 + rng.choice([0, 1e-9, 1e-5]), rng.uniform(0, 360), rng.uniform(-90, 90)))
        fams.append((359.0 + rng.uniform(0, 1), dec, rng.uniform(0, 1), dec + rng.uniform(-1, 1) * 0.5))
        fams.append((ra, dec, ra, dec))
    # dense families where the cosine of the separation rounds to just outside [-1, 1] for about one pair in a hundred:
    # nearly identical and nearly antipodal pairs, 1e-9 .. 1e-6 degree off
    for _ in range(3000):
        ra, dec = sph()
        d = 10.0 ** rng.uniform(-9, -6)
        ang = rng.uniform(0, 2 * np.pi)
        dra, ddec = d * np.cos(ang) / max(np.cos(np.deg2rad(dec)), 1e-3), d * np.sin(ang)
        if rng.random() < 0.5:
            fams.append((ra, dec, ra + dra, float(np.clip(dec + ddec, -90, 90))))
        else:
            fams.append((ra, dec, (ra + 180.0 + dra) % 360.0, float(np.clip(-dec + ddec, -90, 90))))
    return np.array(fams).T


def sep_statement(ra1, dec1, ra2, dec2):
    import numpy as np
    import esutil.coords as co
    true = true_sep(ra1, dec1, ra2, dec2)
    s = co.sphdist(ra1, dec1, ra2, dec2)
    g = np.rad2deg(co.gcirc(ra1, dec1, ra2, dec2))
    if not (np.isfinite(s).all() and np.isfinite(g).all()):
        return "finite"
    if not ((s >= 0) & (s <= 180)).all() or not ((g >= 0) & (g <= 180 + 1e-12)).all():
        return "range"
    if not (np.abs(s - true).max() <= 1e-11):
        return "sphdist accuracy %g at %d" % (np.abs(s - true).max(), int(np.abs(s - true).argmax()))
    if not (np.abs(g - true).max() <= 2e-6):
        return "gcirc accuracy %g" % np.abs(g - true).max()
    if not np.array_equal(co.sphdist(ra2, dec2, ra1, dec1), s) and np.abs(co.sphdist(ra2, dec2, ra1, dec1) - s).max() > 1e-13:
        return "symmetric"
    same = (ra1 == ra2) & (dec1 == dec2)
    if not (s[same] == 0).all() or not (g[same] == 0).all():
        return "zero for identical inputs"
    if not (np.abs(co.sphdist(ra1 + 360.0, dec1, ra2, dec2) - s).max() <= 1e-11 and np.abs(co.sphdist(ra1, dec1, ra2 - 360.0, dec2) - s).max() <= 1e-11):
        return "+360 invariance"
    # scalar, length-1 and length-3 calls agree with the long-array call
    for k in (0, len(s) // 2, len(s) - 1):
        sc = co.sphdist(float(ra1[k]), float(dec1[k]), float(ra2[k]), float(dec2[k]))
        if np.asarray(sc).reshape(-1)[0] != s[k]:
            return "scalar vs array at %d" % k
        a1 = co.sphdist(ra1[k:k + 1], dec1[k:k + 1], ra2[k:k + 1], dec2[k:k + 1])
        if a1.shape != (1,) or a1[0] != s[k]:
            return "length-1 vs array"
    far = np.argsort(true)[-3:]
    a3 = co.sphdist(ra1[far], dec1[far], ra2[far], dec2[far])
    if not np.array_equal(a3, s[far]):
        return "length-3 (far pairs) vs array"
    r = co.sphdist(np.deg2rad(ra1), np.deg2rad(dec1), np.deg2rad(ra2), np.deg2rad(dec2), units=["rad", "rad"])
    if not (np.abs(np.rad2deg(r) - true).max() <= 1e-11):
        return "radian units"
    # longitudes are angles: negative radians and a full turn more are the same directions
    r = co.sphdist(np.deg2rad(ra1) - 2 * np.pi, np.deg2rad(dec1), np.deg2rad(ra2) + 2 * np.pi, np.deg2rad(dec2), units=["rad", "rad"])
    if not (np.abs(np.rad2deg(r) - true).max() <= 1e-10):
        return "radian units, longitudes shifted by a full turn"
    d2 = co.sphdist(np.deg2rad(ra1), np.deg2rad(dec1), np.deg2rad(ra2), np.deg2rad(dec2), units=["rad", "deg"])
    if not (np.abs(d2 - true).max() <= 1e-11):
        return "mixed units"
    # positions held in narrower floats are exact numbers too: the separation of the stored values, to the same tolerance
    for narrow in ("f4", "f2"):
        a1, b1, a2, b2 = (v.astype(narrow) for v in (ra1, dec1, ra2, dec2))
        t4 = true_sep(a1.astype("f8"), b1.astype("f8"), a2.astype("f8"), b2.astype("f8"))
        s4 = np.asarray(co.sphdist(a1, b1, a2, b2), dtype="f8")
        if not (np.abs(s4 - t4).max() <= 1e-11):
            return "sphdist accuracy for %s positions: %g" % (narrow, np.abs(s4 - t4).max())
        m4 = np.asarray(co.sphdist(a1, b1, ra2, dec2), dtype="f8")
        if not (np.abs(m4 - true_sep(a1.astype("f8"), b1.astype("f8"), ra2, dec2)).max() <= 1e-11):
            return "sphdist accuracy for %s first positions, double second positions" % narrow
    return True


contract("esutil.coords#separations", params={}, assumed=True, runtime_name="esutil.coords.sphdist",
         why_assumed="bounded run-time stand-in: accuracy of floating-point trigonometry against a long-double atan2 oracle "
                     "(totality, range, zero-for-identical and shapes of gcirc and the unit vectors are proved)",
         rt_ensures={"true-great-circle-angle-and-its-invariances": "sep_statement(ra1, dec1, ra2, dec2) is True"},
         props=["C08"])


@domain("esutil.coords#separations")
def _dom_sep(tier, seed):
    p = _pairs(tier, seed)
    chunks = 4
    n = p.shape[1] // chunks
    for c in range(chunks):
        q = p[:, c * n:(c + 1) * n]
        yield dict(call=(lambda: None), args=[], ghost=dict(ra1=q[0].copy(), dec1=q[1].copy(), ra2=q[2].copy(), dec2=q[3].copy()), key="chunk %d" % c)


# ------------------------------------------------------------------------------------------------ C09
_FWD = {"eq2gal": "gal2eq", "eq2ec": "ec2eq", "ec2gal": "gal2ec"}


def _gal_ref(ra, dec, b1950):
    """galactic coordinates from the documented pole and node constants (long double)"""
    import numpy as np
    aG, dG, lom = (192.25, 27.4, 33.0) if b1950 else (192.85948, 27.12825, 32.93192)
    ld = np.longdouble
    a = np.deg2rad(np.asarray(ra, dtype=ld) - ld(aG))
    d = np.deg2rad(np.asarray(dec, dtype=ld))
    dg = np.deg2rad(ld(dG))
    sb = np.sin(d) * np.sin(dg) + np.cos(d) * np.cos(dg) * np.cos(a)
    lon = ld(lom) + 90 - np.rad2deg(np.arctan2(np.cos(d) * np.sin(a), np.sin(d) * np.cos(dg) - np.cos(d) * np.sin(dg) * np.cos(a)))
    return np.asarray(lon % 360, dtype="f8"), np.asarray(np.rad2deg(np.arcsin(np.clip(sb, -1, 1))), dtype="f8")


def _ecl_ref(ra, dec):
    import numpy as np
    ld = np.longdouble
    e = np.deg2rad(ld("23.4392911111"))
    a, d = np.deg2rad(np.asarray(ra, dtype=ld)), np.deg2rad(np.asarray(dec, dtype=ld))
    sb = np.sin(d) * np.cos(e) - np.cos(d) * np.sin(e) * np.sin(a)
    lon = np.rad2deg(np.arctan2(np.sin(a) * np.cos(e) + np.tan(d) * np.sin(e), np.cos(a)))
    return np.asarray(lon % 360, dtype="f8"), np.asarray(np.rad2deg(np.arcsin(np.clip(sb, -1, 1))), dtype="f8")


def conv_statement(lon, lat, poles_only=False):
    import numpy as np
    import esutil.coords as co
    tol = 1e-5
    for b1950 in (False, True):
        for f, g in list(_FWD.items()) + [(g, f) for f, g in _FWD.items()]:
            lo, la = getattr(co, f)(lon, lat, b1950=b1950)
            if not (np.isfinite(lo).all() and np.isfinite(la).all()):
                return "%s b1950=%s not finite" % (f, b1950)
            if not ((lo >= 0) & (lo < 360)).all() or not ((la >= -90) & (la <= 90)).all():
                return "%s range" % f
            bl, bb = getattr(co, g)(lo, la, b1950=b1950)
            err = true_sep(bl, bb, lon, lat)
            near_pole = (np.abs(la) > 89.9) | (np.abs(lat) > 89.9)
            if poles_only:
                if err[near_pole].max(initial=0.0) > tol:
                    return "%s then %s b1950=%s near a pole: %g degree" % (f, g, b1950, err[near_pole].max())
                continue
            if err[~near_pole].max(initial=0.0) > tol:
                return "%s then %s b1950=%s does not return: %g" % (f, g, b1950, err[~near_pole].max())
            if poles_only:
                continue
            # isometry: separations to a shifted copy of the points are preserved
            lo2, la2 = getattr(co, f)(np.roll(lon, 1), np.roll(lat, 1), b1950=b1950)
            away = ~(near_pole | np.roll(near_pole, 1))
            if np.abs(true_sep(lo, la, lo2, la2) - true_sep(lon, lat, np.roll(lon, 1), np.roll(lat, 1)))[away].max(initial=0.0) > tol:
                return "%s not an isometry" % f
        if poles_only:
            continue
        gl, gb = co.eq2gal(lon, lat, b1950=b1950)
        rl, rb = _gal_ref(lon, lat, b1950)
        awayg = (np.abs(gb) < 89.9) & (np.abs(lat) < 89.9)
        if true_sep(gl, gb, rl, rb)[awayg].max(initial=0.0) > tol:
            return "eq2gal b1950=%s vs documented pole/node: %g" % (b1950, true_sep(gl, gb, rl, rb)[awayg].max())
        # chained conversions agree with the direct one
        el, eb = co.eq2ec(lon, lat, b1950=b1950)
        cl, cb = co.ec2gal(el, eb, b1950=b1950)
        awayc = awayg & (np.abs(eb) < 89.9)
        if true_sep(cl, cb, gl, gb)[awayc].max(initial=0.0) > tol:
            return "eq->ec->gal vs eq->gal b1950=%s" % b1950
    if poles_only:
        cl, ce = co.eq2sdss(lon, lat)
        ra, dec = co.sdss2eq(cl, ce)
        nps = (np.abs(cl) >= 89.9) | (np.abs(lat) >= 89.9)
        if true_sep(ra, dec, lon, lat)[nps].max(initial=0.0) > 1e-9:
            return "eq2sdss/sdss2eq near a pole of either system: %g degree" % true_sep(ra, dec, lon, lat)[nps].max()
        x, y, z = co.eq2xyz(lon, lat)
        ra, dec = co.xyz2eq(x, y, z)
        if true_sep(ra, dec, lon, lat)[np.abs(lat) >= 89.9].max(initial=0.0) > 1e-9:
            return "eq2xyz/xyz2eq near a pole"
        return True
    el, eb = co.eq2ec(lon, lat)
    rl, rb = _ecl_ref(lon, lat)
    awaye = (np.abs(eb) < 89.9) & (np.abs(lat) < 89.9)
    if true_sep(el, eb, rl, rb)[awaye].max(initial=0.0) > tol:
        return "eq2ec vs documented obliquity"
    # SDSS survey coordinates and unit vectors: 1e-9 degree
    cl, ce = co.eq2sdss(lon, lat)
    if not (((cl >= -90) & (cl <= 90)).all() and ((ce >= -180) & (ce <= 180)).all()):
        return "eq2sdss range"
    ra, dec = co.sdss2eq(cl, ce)
    aways = (np.abs(cl) < 89.9) & (np.abs(lat) < 89.9)
    if true_sep(ra, dec, lon, lat)[aways].max(initial=0.0) > 1e-9:
        return "eq2sdss/sdss2eq round trip %g" % true_sep(ra, dec, lon, lat)[aways].max()
    x, y, z = co.eq2xyz(lon, lat)
    if not (np.abs(x * x + y * y + z * z - 1).max() <= 1e-14):
        return "unit length"
    xs, ys, zs = co.eq2xyz(lon, lat, stomp=True)
    ras, decs = co.xyz2eq(xs, ys, zs, stomp=True)
    if np.abs(xs * xs + ys * ys + zs * zs - 1).max() > 1e-14 or true_sep(ras, decs, lon, lat)[np.abs(lat) < 89.9].max(initial=0.0) > 1e-9:
        return "eq2xyz/xyz2eq round trip in the stomp convention"
    xr, yr, zr = co.eq2xyz(np.deg2rad(lon), np.deg2rad(lat), units="rad")
    if max(np.abs(xr - x).max(), np.abs(yr - y).max(), np.abs(zr - z).max()) > 1e-14:
        return "eq2xyz radian units"
    ra, dec = co.xyz2eq(x, y, z)
    awayx = np.abs(lat) < 89.9
    if true_sep(ra, dec, lon, lat)[awayx].max(initial=0.0) > 1e-9 or not ((ra >= 0) & (ra <= 360)).all():
        return "eq2xyz/xyz2eq round trip"
    # positions held in single precision are positions too: the values they hold go round to the same 1e-9 degree
    lon4, lat4 = lon.astype("f4"), lat.astype("f4")
    x4, y4, z4 = co.eq2xyz(lon4, lat4)
    if not (np.abs(np.asarray(x4, dtype="f8") ** 2 + np.asarray(y4, dtype="f8") ** 2 + np.asarray(z4, dtype="f8") ** 2 - 1).max() <= 1e-14):
        return "unit length for float32 input"
    ra, dec = co.xyz2eq(x4, y4, z4)
    a4 = np.abs(lat4.astype("f8")) < 89.9
    if true_sep(ra, dec, lon4.astype("f8"), lat4.astype("f8"))[a4].max(initial=0.0) > 1e-9:
        return "eq2xyz/xyz2eq round trip for float32 input"
    return True


def long_catalog_statement(n):
    """the conversion of a point does not depend on how long the array it arrives in is (catalogues beyond any block size)"""
    import numpy as np
    import esutil.coords as co
    k = np.arange(n, dtype="f8")
    lon = (k * 0.6180339887498949 * 360.0) % 360.0
    lat = np.rad2deg(np.arcsin(((k * 0.7548776662466927) % 1.0) * 2 - 1))
    pick = np.unique(np.concatenate([np.arange(3), np.arange(n - 3, n), (np.arange(1, 40) * (n // 40)) % n,
                                     np.array([2 ** 16, 2 ** 20 - 1, 2 ** 20, 2 ** 20 + 1, 2 ** 21]) % n]))
    for b1950 in (True, False):
        for f in ("eq2gal", "gal2eq", "eq2ec", "ec2eq", "ec2gal", "gal2ec"):
            lo, la = getattr(co, f)(lon, lat, b1950=b1950)
            if lo.shape != (n,) or la.shape != (n,):
                return "%s shape" % f
            so, sa = getattr(co, f)(lon[pick], lat[pick], b1950=b1950)
            if not (np.array_equal(lo[pick], so) and np.array_equal(la[pick], sa)):
                return "%s b1950=%s: points of a %d-point catalogue convert differently from the same points in a short array" % (f, b1950, n)
    for sel in (1, 2):
        lo, la = co.euler(lon, lat, sel, b1950=True)
        so, sa = co.euler(lon[pick], lat[pick], sel, b1950=True)
        if not (np.array_equal(lo[pick], so) and np.array_equal(la[pick], sa)):
            return "euler select=%d b1950: long and short arrays differ" % sel
    return True


contract("esutil.coords#long-catalogues", params={}, assumed=True, runtime_name="esutil.coords.euler",
         why_assumed="bounded run-time stand-in: array lengths beyond any block a conversion might work in (the per-point "
                     "arithmetic is covered by the conversions statement)",
         rt_ensures={"a-point-converts-the-same-in-a-long-catalogue-as-in-a-short-array": "long_catalog_statement(n) is True"},
         props=["C09"])


@domain("esutil.coords#long-catalogues")
def _dom_long(tier, seed):
    sizes = [2 ** 20 + 5 + seed % 7] if tier == "quick" else [2 ** 20 + 5 + seed % 7, 2 ** 16 + 3, 3 * 2 ** 20 + 1]
    for n in sizes:
        yield dict(call=(lambda: None), args=[], ghost=dict(n=n), key="%d points" % n)


contract("esutil.coords#conversions", params={}, assumed=True, runtime_name="esutil.coords.euler",
         why_assumed="bounded run-time stand-in: inverse / isometry tolerances and agreement with the documented pole and node constants "
                     "are numerical statements about tabulated constants (ranges, totality and the table's inverse-pair structure are proved)",
         rt_ensures={"invertible-isometries-with-correct-poles": "conv_statement(lon, lat) is True",
                     "inverse-tolerance-within-0.1-degree-of-a-pole": "conv_statement(lon, lat, poles_only=True) is True"},
         props=["C09"])


@domain("esutil.coords#conversions")
def _dom_conv(tier, seed):
    import random
    import numpy as np
    rng = random.Random(seed)
    n = 300 if tier == "quick" else 30000
    lon = [rng.uniform(0, 360) for _ in range(n)] + [0.0, 360.0, 95.0, 275.0, 185.0, 5.0]
    lat = [float(np.rad2deg(np.arcsin(rng.uniform(-1, 1)))) for _ in range(n)] + [0.0, 0.0, 0.0, 32.5, 57.5, -57.5]
    # poles of every source and target system (both epochs), approached from several longitudes
    poles = [(0.0, 90.0), (0.0, -90.0), (192.85948, 27.12825), (12.85948, -27.12825), (192.25, 27.4), (12.25, -27.4), (12.2499, -27.4),
             (270.0, 66.5607088889), (90.0, -66.5607088889), (122.93192, 27.12825), (123.0, 27.4), (180.02322, 29.811438523)]
    for pl, pb in poles:
        for dl, db in ((0, 0), (1e-6, 1e-6), (-1e-4, 1e-4), (0.01, -0.01)):
            lon.append((pl + dl) % 360)
            lat.append(float(np.clip(pb + db, -90, 90)))
    yield dict(call=(lambda: None), args=[], ghost=dict(lon=np.array(lon), lat=np.array(lat)), key="sphere + poles")


def tiny_shift_statement(shifts):
    """shifts far below the rounding unit of 360: lon - shift rounds back onto the boundary"""
    import numpy as np
    import esutil.coords as co
    base = np.array([0.0, 1e-30, 359.99999999999994, 10.0])
    for sh in shifts:
        r = co.shiftlon(base, shift=sh)
        if not ((r >= 0) & (r < 360)).all():
            return "shiftlon(%r, shift=%r) = %r" % (base.tolist(), sh, r.tolist())
    return True


def rotate_shift_statement(lon, lat, angles, shifts):
    import numpy as np
    import esutil.coords as co
    for phi, theta, psi in angles:
        lo, la = co.rotate(phi, theta, psi, lon, lat)
        if not (np.isfinite(lo).all() and np.isfinite(la).all()) or not ((lo >= 0) & (lo <= 360)).all() or not ((la >= -90) & (la <= 90)).all():
            return "rotate range"
        if not (np.abs(true_sep(lo, la, np.roll(lo, 1), np.roll(la, 1)) - true_sep(lon, lat, np.roll(lon, 1), np.roll(lat, 1))).max() <= 1e-9):
            return "rotate not an isometry"
        # it is a proper rotation: the images of the three axes form an orthogonal matrix of determinant +1 that maps every
        # point to its image (so it is undone by the transposed matrix)
        ax_l, ax_b = co.rotate(phi, theta, psi, np.array([0.0, 90.0, 0.0]), np.array([0.0, 0.0, 90.0]))
        M = np.asarray(_unit(ax_l, ax_b), dtype="f8")
        if np.abs(M.T @ M - np.eye(3)).max() > 1e-12 or abs(np.linalg.det(M) - 1) > 1e-12:
            return "rotate is not a proper rotation"
        img = M @ np.asarray(_unit(lon, lat), dtype="f8")
        got = np.asarray(_unit(lo, la), dtype="f8")
        if not (np.abs(img - got).max() <= 1e-11):
            return "rotate does not act as one rotation matrix"
        # undone by its inverse: for this function's angle convention the inverse rotation is rotate(psi, -theta, phi)
        bl, bb = co.rotate(psi, -theta, phi, lo, la)
        if true_sep(bl, bb, lon, lat).max() > 1e-5:       # the statement's tolerance for inverses
            return "rotate(%r, %r, %r) is not undone by rotate(psi, -theta, phi)" % (phi, theta, psi)
        # one family of rotations: a tilt of a billionth of a degree moves no point by more than that
        tl, tb = co.rotate(phi, theta + 1e-9, psi, lon, lat)
        if true_sep(tl, tb, lo, la).max() > 1e-5:
            return "rotate(%r, %r, %r) jumps when the tilt changes by 1e-9 degree" % (phi, theta, psi)
    base = lon % 360.0
    base = base[base < 360.0]
    for sh in shifts:
        r = co.shiftlon(base, shift=sh)
        if not ((r >= 0) & (r < 360)).all():
            return "shiftlon range shift=%r" % sh
        k = (r - (base - sh)) / 360.0
        if not (np.abs(k - np.round(k)).max() <= 1e-9):
            return "shiftlon congruence"
        # the shift as second positional argument (the documented order lon, shift, wrap) and through shiftra
        if not np.array_equal(co.shiftlon(base, sh), r) or not np.array_equal(co.shiftra(base, sh), r) \
                or not np.array_equal(co.shiftra(base, shift=sh), r):
            return "shiftlon(lon, %r) positional / shiftra differ from shiftlon(lon, shift=%r)" % (sh, sh)
    w = co.shiftlon(base, wrap=True)
    if not ((w > -180) & (w <= 180)).all() or np.abs(((w - base) / 360.0) - np.round((w - base) / 360.0)).max() > 1e-12:
        return "wrap"
    if not np.array_equal(co.shiftlon(base, wrap=False), base):
        return "no-op"
    return True


contract("esutil.coords#rotate-shift", params={}, assumed=True, runtime_name="esutil.coords.rotate",
         why_assumed="bounded run-time stand-in for rotate (assumed contract of randcap) and for shiftlon/shiftra in doubles "
                     "(shiftlon is proved over the reals)",
         rt_ensures={"rotation-isometry-and-longitude-shifts": "rotate_shift_statement(lon, lat, angles, shifts) is True",
                     "shifts-below-the-rounding-unit-stay-in-[0,360)": "tiny_shift_statement([1e-20, -1e-20, 1e-15, 3e-14]) is True"},
         props=["C09"])


@domain("esutil.coords#rotate-shift")
def _dom_rot(tier, seed):
    import random
    import numpy as np
    rng = random.Random(seed + 3)
    n = 200 if tier == "quick" else 20000
    lon = np.array([rng.uniform(0, 360) for _ in range(n)] + [0.0, 359.999999, 350.0, 10.0, 180.0])
    lat = np.array([float(np.rad2deg(np.arcsin(rng.uniform(-1, 1)))) for _ in range(n)] + [90.0, -90.0, 0.0, 0.0, 45.0])
    angles = [(0.0, 0.0, 0.0), (10.0, 20.0, 30.0), (0.0, 90.0, 0.0), (275.0, -63.0, 33.0), (0.0, 180.0, 0.0),
              (0.0, 0.0, 30.0), (10.0, 0.0, -40.0), (15.0, 180.0, 5.0), (0.0, 360.0, 20.0), (-30.0, -0.0, 75.0)] + \
        [(rng.uniform(-360, 360), rng.uniform(-180, 180), rng.uniform(-360, 360)) for _ in range(5 if tier == "quick" else 200)]
    shifts = [0.0, 10.0, -10.0, 90.0, -90.0, 360.0, -360.0, 370.0, -725.0, 1e-9, -1e-9, 180.0, 359.999999] + \
        [rng.uniform(-1000, 1000) for _ in range(10)]
    yield dict(call=(lambda: None), args=[], ghost=dict(lon=lon, lat=lat, angles=angles, shifts=shifts), key="rotations and shifts")


# ------------------------------------------------------------------------------------------------ C19
def cap_statement(ra0, dec0, rad, dorot, legacy, seed):
    import numpy as np
    import esutil.coords as co

    def gen():
        return np.random.RandomState(seed) if legacy else np.random.default_rng(seed)
    n = 200
    ra, dec, r = co.randcap(n, ra0, dec0, rad, get_radius=True, dorot=dorot, rng=gen())
    if not (len(ra) == n and len(dec) == n and len(r) == n):
        return "count"
    if not (np.isfinite(ra).all() and np.isfinite(dec).all()):
        return "finite"
    if not ((ra >= 0) & (ra <= 360)).all() or not ((dec >= -90) & (dec <= 90)).all():
        return "ranges"
    sep = true_sep(ra, dec, ra0, dec0)
    if (sep > rad * (1 + 1e-9) + 1e-9).any():
        return "outside the cap by %g" % (sep - rad).max()
    if np.abs(sep - r).max() > 1e-7 * max(1.0, rad):
        return "returned radii differ from the separations by %g" % np.abs(sep - r).max()
    ra2, dec2 = co.randcap(n, ra0, dec0, rad, dorot=dorot, rng=gen())
    if not (np.array_equal(ra, ra2) and np.array_equal(dec, dec2)):
        return "not reproducible"
    return True


contract("esutil.coords.randcap#statement", params={}, assumed=True, runtime_name="esutil.coords.randcap",
         why_assumed="bounded run-time stand-in: 'within r of the centre' needs spherical trigonometry identities beyond the axiomatised "
                     "ones; counts, ranges and the unit of the returned radii are proved",
         rt_ensures={"points-inside-the-cap-radii-equal-separations-reproducible": "rad < 1e-4 or cap_statement(ra0, dec0, rad, dorot, legacy, seed) is True",
                     "caps-smaller-than-1e-4-degree": "rad >= 1e-4 or cap_statement(ra0, dec0, rad, dorot, legacy, seed) is True"},
         props=["C19"])


@domain("esutil.coords.randcap#statement")
def _dom_cap(tier, seed):
    import random
    rng = random.Random(seed)
    centres = [(0.0, 0.0), (359.9, 10.0), (0.05, -20.0), (120.0, 89.95), (10.0, 90.0), (200.0, -90.0), (45.0, -89.95), (300.0, 60.0), (180.0, 89.0)]
    centres += [(rng.uniform(0, 360), rng.uniform(-90, 90)) for _ in range(4 if tier == "quick" else 100)]
    radii = [1e-6, 1e-3, 0.1, 5.0, 60.0, 120.0, 180.0]
    k = 0
    # caps that come close to a pole without containing it, centred a few tens of degrees from the 0/360 seam: their
    # longitude half-width asin(sin r / cos dec) is far larger than r / cos dec, so they reach across the seam
    near_pole = [(58.0, 80.0, 9.0), (302.0, -80.0, 9.0), (62.0, 70.0, 19.0), (65.0, 85.0, 4.9), (295.0, 85.0, 4.9)]
    near_pole += [(rng.choice([1, -1]) * rng.uniform(40, 80) % 360, rng.choice([1, -1]) * d, (90 - d) * rng.uniform(0.9, 0.995))
                  for d in [rng.uniform(60, 88) for _ in range(3 if tier == "quick" else 60)]]
    for ra0, dec0, rad in near_pole:
        k += 1
        yield dict(call=(lambda: None), args=[], ghost=dict(ra0=ra0, dec0=dec0, rad=rad, dorot=False, legacy=bool(k % 2), seed=seed + k),
                   key="centre=(%g,%g) r=%g dorot=False (next to a pole)" % (ra0, dec0, rad))
    for ra0, dec0 in centres:
        for rad in radii:
            for dorot in (False, True):
                k += 1
                if tier == "quick" and k % 3:
                    continue
                yield dict(call=(lambda: None), args=[], ghost=dict(ra0=ra0, dec0=dec0, rad=rad, dorot=dorot, legacy=bool(k % 2), seed=seed + k),
                           key="centre=(%g,%g) r=%g dorot=%s" % (ra0, dec0, rad, dorot))


def box_statement(num, ra_range, dec_range, legacy, seed):
    import numpy as np
    import esutil.coords as co
    g = np.random.RandomState(seed) if legacy else np.random.default_rng(seed)
    ra, dec = co.randsphere(num, ra_range=ra_range, dec_range=dec_range, rng=g)
    lo_r, hi_r = ra_range if ra_range is not None else (0.0, 360.0)
    lo_d, hi_d = dec_range if dec_range is not None else (-90.0, 90.0)
    if len(ra) != num or len(dec) != num:
        return "count"
    if not ((ra >= lo_r) & (ra <= hi_r)).all():
        return "longitude outside the box"
    if not ((dec >= lo_d - 1e-12) & (dec <= hi_d + 1e-12)).all():
        return "latitude outside the box"
    g2 = np.random.RandomState(seed) if legacy else np.random.default_rng(seed)
    ra2, dec2 = co.randsphere(num, ra_range=ra_range, dec_range=dec_range, rng=g2)
    return bool(np.array_equal(ra, ra2) and np.array_equal(dec, dec2)) or "not reproducible"


contract("esutil.coords.randsphere#statement", params={}, assumed=True, runtime_name="esutil.coords.randsphere",
         why_assumed="bounded run-time stand-in with real numpy generators (the box property is proved for every deviate sequence)",
         rt_ensures={"points-inside-the-box-reproducible": "box_statement(num, ra_range, dec_range, legacy, seed) is True"},
         props=["C19"])


@domain("esutil.coords.randsphere#statement")
def _dom_box(tier, seed):
    boxes = [(None, None), ([10.0, 35.0], [-25.0, 15.0]), ([0.0, 360.0], [-90.0, 90.0]), ([5.0, 5.0], [10.0, 10.0]), ([350.0, 360.0], [80.0, 90.0]),
             ([0.0, 1e-9], [-90.0, -89.999]), (None, [0.0, 0.0]), ([100.0, 200.0], None)]
    for k, (rr, dr) in enumerate(boxes):
        for legacy in (True, False):
            yield dict(call=(lambda: None), args=[], ghost=dict(num=300, ra_range=rr, dec_range=dr, legacy=legacy, seed=seed + k), key="%r %r legacy=%s" % (rr, dr, legacy))


class _StubRng:
    """a generator that returns the deviates it was given (and records what it handed out)"""

    def __init__(self, u):
        import numpy as np
        self.u = np.asarray(u, dtype="f8")
        self.given = []

    def uniform(self, low=0.0, high=1.0, size=None):
        return low + (high - low) * self.random(size)

    def random(self, size=None):
        import numpy as np
        n = 1 if size is None else int(np.prod(size))
        out = np.resize(self.u, n).astype("f8")
        return out if size is not None else out[0]

    random_sample = random

    def normal(self, loc=0.0, scale=1.0, size=None):
        import numpy as np
        n = 1 if size is None else int(np.prod(size))
        out = (np.resize(self.u, n) - 0.5) * 4.0
        self.given.append(out.copy())
        return (loc + scale * out).reshape(size) if size is not None else loc + scale * out[0]

    def standard_normal(self, size=None):
        return self.normal(size=size)

    randn = None


def sampler_statement(x, p, u):
    """cumulative-method sampler: u -> linear interpolation of the grid abscissae against the normalised trapezoid-rule CDF"""
    import numpy as np
    import esutil.random as er
    g = er.Generator(p, x=x, method="accum", rng=_StubRng(u))
    got = np.atleast_1d(g.sample(len(u)))
    pf = p
    if callable(p):
        p = p(x)
    cum = np.concatenate([[0.0], np.cumsum((p[1:] + p[:-1]) * np.diff(x) / 2.0)])[1:]
    cum = cum / cum[-1]
    xv = x[1:]
    exp = np.interp(u, cum, xv)
    inside = u >= cum[0]
    if np.abs(got[inside] - exp[inside]).max(initial=0.0) > 1e-9 * max(1.0, np.abs(x).max()):
        return "not the interpolation of the grid against the trapezoid CDF"
    if ((got[inside] < xv[0] - 1e-12) | (got[inside] > xv[-1] + 1e-12)).any():
        return "outside the grid"
    order = np.argsort(u)
    if (np.diff(got[order]) < -1e-12 * max(1.0, np.abs(x).max())).any():
        return "not non-decreasing in u"
    if callable(p):
        return True
    g2 = er.Generator(p, x=x, method="accum", rng=_StubRng(cum))
    at = np.atleast_1d(g2.sample(len(cum)))
    if np.abs(at - xv).max() > 1e-9 * max(1.0, np.abs(x).max()):
        return "grid points not returned at their cumulative values"
    return True


contract("esutil.random.Generator#cumulative", params={}, assumed=True, runtime_name="esutil.random.Generator",
         why_assumed="bounded run-time stand-in with a stub deviate source: the sampler is interplin (proved, C18) applied to scipy's "
                     "cumulative_trapezoid (assumed)",
         rt_ensures={"inverts-the-trapezoid-CDF": "sampler_statement(x, p, u) is True"},
         props=["C19"])


@domain("esutil.random.Generator#cumulative")
def _dom_sampler(tier, seed):
    import random
    import numpy as np
    rng = random.Random(seed)
    for _ in range(40 if tier == "quick" else 1000):
        n = rng.randint(3, 40)
        x = np.cumsum([rng.choice([0.1, 1.0, 0.01, 3.0]) for _ in range(n)]) - rng.uniform(0, 5)
        p = np.array([rng.uniform(0.05, 3.0) for _ in range(n)])
        u = np.array(sorted(rng.random() for _ in range(30)) + [0.0, 1.0, 0.5])
        rng.shuffle(list(u))
        yield dict(call=(lambda: None), args=[], ghost=dict(x=x, p=p, u=u), key="n=%d" % n)
        if rng.random() < 0.5:
            a, b = rng.uniform(0.2, 2.0), rng.uniform(0.1, 1.0)
            yield dict(call=(lambda: None), args=[], ghost=dict(x=x, p=(lambda t, a=a, b=b: a + b * np.cos(t) ** 2), u=u), key="functional density, uneven grid n=%d" % n)


def cholesky_statement(cov, mean, n, seed):
    import numpy as np
    import esutil.random as er
    src = np.random.RandomState(seed)
    given = []

    def dist(m):
        out = src.standard_normal(m)
        given.append(out.copy())
        return out
    s = er.CholeskySampler(mean, cov, dist=dist)
    got = s.sample(n)
    if not given:
        return "the sampler did not draw from the supplied deviate source"
    L = np.linalg.cholesky(cov)
    d = len(mean)
    nn = 1 if n is None else n
    r = np.concatenate(given)[:d * nn].reshape(d, nn)
    exp = (L @ r).T + mean
    got2 = np.atleast_2d(got)
    if n is None and np.asarray(got).shape != (d,):
        return "single draw is not one vector"
    # tolerance relative to each parameter's standard deviation (covariances of any absolute scale)
    sig = np.sqrt(np.diag(cov))
    ok = got2.shape == exp.shape and bool((np.abs(got2 - exp) <= 1e-10 * sig + 1e-12 * np.abs(mean)).all())
    c = er.cholesky_sample(cov, nn, means=mean, dist=(lambda m, r=r: r.reshape(-1)[:m]))
    ok = ok and c.shape == exp.shape and bool((np.abs(c - exp) <= 1e-10 * sig + 1e-12 * np.abs(mean)).all())
    return bool(ok) or "not mean + L r"


contract("esutil.random.CholeskySampler#statement", params={}, assumed=True, runtime_name="esutil.random.CholeskySampler",
         why_assumed="bounded run-time stand-in with a recording deviate source (numpy.linalg.cholesky assumed)",
         rt_ensures={"mean-plus-lower-triangular-factor-times-the-deviates-drawn": "cholesky_statement(cov, mean, n, seed) is True"},
         props=["C19"])


@domain("esutil.random.CholeskySampler#statement")
def _dom_chol(tier, seed):
    import random
    import numpy as np
    rng = random.Random(seed)
    for d in range(1, 6):
        for _ in range(3 if tier == "quick" else 60):
            a = np.array([[rng.uniform(-1, 1) for _ in range(d)] for _ in range(d)])
            cov = a @ a.T + np.eye(d) * 0.5
            # correlated covariances of very small and very large absolute scale, and mixed scales between parameters
            cov = cov * rng.choice([1.0, 1.0, 1e-9, 1e-12, 1e8])
            if d > 1 and rng.random() < 0.3:
                sc = np.array([rng.choice([1.0, 1e-5, 1e4]) for _ in range(d)])
                cov = cov * np.outer(sc, sc)
            mean = np.array([rng.uniform(-3, 3) for _ in range(d)])
            for n in (None, 1, 7):
                yield dict(call=(lambda: None), args=[], ghost=dict(cov=cov, mean=mean, n=n, seed=seed + d), key="d=%d n=%s" % (d, n))


def indices_statement(imax, nrand, unique, seed, kind="legacy"):
    import numpy as np
    import esutil.random as er
    if kind == "legacy":
        ind = np.atleast_1d(er.random_indices(imax, nrand, unique=unique, rng=np.random.RandomState(seed)))
    elif kind == "new":
        ind = np.atleast_1d(er.random_indices(imax, nrand, unique=unique, rng=np.random.default_rng(seed)))
    else:
        ind = np.atleast_1d(er.random_indices(imax, nrand, unique=unique, seed=seed))
    if ind.size != nrand or not ((ind >= 0) & (ind < imax)).all():
        return "count / range"
    if unique and len(set(ind.tolist())) != nrand:
        return "not unique"
    return True


contract("esutil.random.random_indices#statement", params={}, assumed=True, runtime_name="esutil.random.random_indices",
         why_assumed="bounded run-time stand-in (range and uniqueness are numpy.random choice's contract)",
         rt_ensures={"range-and-uniqueness": "indices_statement(imax, nrand, unique, seed, kind) is True"},
         props=["C19"])


@domain("esutil.random.random_indices#statement")
def _dom_indices(tier, seed):
    for imax in (1, 2, 5, 50, 1000):
        for nrand in (1, 2, 5, 50):
            for unique in (False, True):
                if unique and nrand > imax:
                    continue
                yield dict(call=(lambda: None), args=[], ghost=dict(imax=imax, nrand=nrand, unique=unique, seed=seed, kind="legacy"), key="%d %d %s" % (imax, nrand, unique))
    # sparse requests from large ranges, sized so that independent draws would repeat an index in most calls (nrand**2 >> imax)
    for imax, nrand, kinds in ((3000000, 2500, ("legacy", "new", "seed")), (3000000, 6000, ("legacy", "new")), (10 ** 7, 8000, ("new", "seed")),
                               (10 ** 8, 30000, ("new",)), (2 ** 40, 4000000, ("new",)),
                               (50000, 49000, ("legacy", "new")), (1000, 1000, ("legacy", "new", "seed"))):
        for kind in kinds:
            for rep in range(2 if tier == "quick" else 6):
                yield dict(call=(lambda: None), args=[], ghost=dict(imax=imax, nrand=nrand, unique=True, seed=seed * 7 + rep, kind=kind),
                           key="%d %d unique %s #%d" % (imax, nrand, kind, rep))
