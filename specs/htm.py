"""Properties C12 and C13: HTM matching, ids, circle covers and pair counts.

The deciding code is the C++ HTM library (SpatialIndex / SpatialDomain / SpatialConvex, several thousand lines of C++ with
templates, std::map, std::vector and std::sort) behind htmc.cc.  The VC generator reaches the plain-C-like leaf of htmc.cc
(the great-circle distance used as the exact filter of the matcher) and the Python glue of htm.py (argument normalisation,
size checks, the reverse-index hand-off to the pair counter, the pair-file reader).  Everything else is decided by
*bounded, labelled* brute-force oracles; nothing in the bounded part is counted as proved."""
from esvc.speclang import contract, domain

# ------------------------------------------------------------------------------------------------ htmc.cc leaf: the exact filter
contract(
    "esutil.htm.htmc_cc.gcirc",
    lang="c", source="esutil/htm/htmc.cc", runtime=False,
    params=dict(ra1="real", dec1="real", ra2="real", dec2="real", degrees="bool"), returns="real",
    ensures={
        "identical-points-are-at-distance-zero": "not (ra1 == ra2 and dec1 == dec2) or result == 0",
        "a-separation: within [0, 180] degrees (half a turn)": "0 <= result and (not degrees or result <= 180)",
        "angle-from-its-sine-and-cosine: atan2(|north and east components of the sine|, cosine rule) - accurate at every separation":
            "(ra1 == ra2 and dec1 == dec2) or result == ufn('arctan2', ufn('sqrt', SinN(ra1, dec1, ra2, dec2) * SinN(ra1, dec1, ra2, dec2)"
            " + SinE(ra1, dec1, ra2, dec2) * SinE(ra1, dec1, ra2, dec2)), CosD(ra1, dec1, ra2, dec2)) * (R2D() if degrees else 1)",
    },
    light_trig=True,
    props=["C12", "C13"],
)


def CosD(ra1, dec1, ra2, dec2):
    return (ufn('sin', dec1 * D2R()) * ufn('sin', dec2 * D2R())
            + ufn('cos', dec1 * D2R()) * ufn('cos', dec2 * D2R()) * ufn('cos', (ra1 - ra2) * D2R()))


def SinN(ra1, dec1, ra2, dec2):
    return (ufn('cos', dec1 * D2R()) * ufn('sin', dec2 * D2R())
            - ufn('sin', dec1 * D2R()) * ufn('cos', dec2 * D2R()) * ufn('cos', (ra1 - ra2) * D2R()))


def SinE(ra1, dec1, ra2, dec2):
    return ufn('cos', dec2 * D2R()) * ufn('sin', (ra1 - ra2) * D2R())


def D2R():
    return 3.141592653589793 / 180.0


def R2D():
    return 180.0 / 3.141592653589793


# ------------------------------------------------------------------------------------------------ Python glue of htm.py
contract("htmc.Matcher.match", params=dict(ra="arr[real]", dec="arr[real]", radius="arr[real]", maxmatch="int", filename="str"),
         returns="opaque:pairs", assumed=True, lang="c++", runtime=False,
         why_assumed="C++ (htmc.cc Matcher::match): reads ra[i], dec[i] for i < size(ra) and radius[i] when size(radius) > 1 - its "
                     "memory-safety preconditions are what the Python layer must establish; the pairs it returns are decided by the "
                     "bounded oracle esutil.htm#match",
         requires={"one-declination-per-right-ascension": "len(dec) == len(ra)",
                   "one-radius-or-one-per-point": "len(radius) == 1 or len(radius) == len(ra)"},
         props=["C12"])

for _rk, _rt in (("array", "arr[real]"), ("scalar", "real")):
    contract("esutil.htm.htm.Matcher.match#radius-" + _rk, runtime_name="esutil.htm.htm.Matcher.match",
             params=dict(self="obj:Matcher{}", ra="arr[real]", dec="arr[real]", radius=_rt, maxmatch="int", file="none"),
             raises=[("ValueError", "len(ra) != len(dec)" + (" or (len(radius) != 1 and len(radius) != len(ra))" if _rk == "array" else ""), "iff")],
             ensures={"caller's-arrays-untouched": "all(ra[k] == old(ra[k]) for k in range(0, len(ra))) and all(dec[k] == old(dec[k]) for k in range(0, len(dec)))"},
             props=["C12", "C15"], runtime=False)

contract("htmc.HTMC.lookup_id", params=dict(ra="arr[real]", dec="arr[real]", htm_ids="arr[int]"), returns="none", assumed=True, lang="c++", runtime=False,
         why_assumed="C++ (htmc.cc HTMC::lookup_id): writes one id per position into htm_ids, reading ra[i], dec[i], htm_ids[i] for "
                     "i < size(ra); the ids themselves are decided by the bounded oracle esutil.htm#ids",
         requires={"three-arrays-of-one-length": "len(dec) == len(ra) and len(htm_ids) == len(ra)"},
         modifies=["htm_ids"],
         props=["C13"])
contract("esutil.htm.htm.HTM.lookup_id",
         params=dict(self="obj:HTM{}", ra="arr[real]", dec="arr[real]"), returns="arr[int]",
         raises=[("ValueError", "len(ra) != len(dec)", "iff")],
         ensures={"one-id-per-position": "len(result) == len(ra)",
                  "caller's-arrays-untouched": "all(ra[k] == old(ra[k]) for k in range(0, len(ra))) and all(dec[k] == old(dec[k]) for k in range(0, len(dec)))"},
         props=["C13", "C15"], runtime=False)

contract("esutil.htm.htm.log_bins",
         params=dict(rmin="real", rmax="real", nbin="int"), returns="tuple[arr[real],arr[real]]",
         requires={"positive-range-and-bins": "rmin > 0 and rmax > rmin and nbin >= 1"},
         ensures={"nbin-bins": "len(result[0]) == nbin and len(result[1]) == nbin",
                  "edges-are-10^(log10(rmin) + i*w) with w = (log10(rmax) - log10(rmin))/nbin: equally spaced in the logarithm":
                      "all(result[0][i] == ufn('pow', 10, ufn('log10', rmin) + (ufn('log10', rmax) - ufn('log10', rmin)) / nbin * i)"
                      " for i in range(0, nbin))",
                  "bins-are-contiguous": "all(result[1][i] == ufn('pow', 10, ufn('log10', rmin) + (ufn('log10', rmax) - ufn('log10', rmin)) / nbin * i"
                                         " + (ufn('log10', rmax) - ufn('log10', rmin)) / nbin) for i in range(0, nbin))"},
         props=["C13"], runtime=False)


# ------------------------------------------------------------------------------------------------ one-shot method == reusable matcher (C12)
contract("htmc.HTMC.get_depth", params=dict(), returns="int", assumed=True, lang="c++", runtime=False,
         why_assumed="C++ accessor: the depth the object was built with",
         ensures={"depth": "result == ufn('htm_depth') and result >= 0"}, props=["C12"])
contract("esutil.htm.htm.Matcher.__init__#ghost", runtime_name="esutil.htm.htm.Matcher.__init__",
         params=dict(self="obj:Matcher{}", depth="int", ra="arr[real]", dec="arr[real]"), assumed=True, runtime=False,
         why_assumed="ghost view of the reusable matcher: it is determined by the depth and the second point set it was built from "
                     "(the C++ constructor builds the triangle-id map from them)",
         requires={"one-declination-per-right-ascension": "len(ra) == len(dec)"},
         ensures={"built-from": "self.depth == depth and self.set2 == ufn('point_set', ra, dec)"},
         modifies=["self.depth", "self.set2"],
         post_types={"self.depth": "int", "self.set2": "real"},
         props=["C12"])
contract("esutil.htm.htm.Matcher.match#value", runtime_name="esutil.htm.htm.Matcher.match",
         params=dict(self="obj:Matcher{depth:int,set2:real}", ra="arr[real]", dec="arr[real]", radius="arr[real]",
                     maxmatch="int", file="str"),
         returns="real", assumed=True, runtime=False,
         why_assumed="the pairs returned by the reusable matcher as an uninterpreted function of everything they can depend on "
                     "(depth, second set, first set, radii, maxmatch); its Python glue is proved in Matcher.match#radius-*, "
                     "the pairs themselves are decided by the bounded oracle",
         ensures={"value": "result == ufn('htm_pairs', self.depth, self.set2, ra, dec, radius, maxmatch)"},
         props=["C12"])

contract("esutil.htm.htm.HTM.match",
         params=dict(self="obj:HTM{}", ra1="arr[real]", dec1="arr[real]", ra2="arr[real]", dec2="arr[real]", radius="arr[real]",
                     maxmatch="int", htmid2="none", htmrev2="none", minid="none", maxid="none", file="none", verbose="const:False"),
         returns="real",
         requires={"sizes": "len(ra1) == len(dec1) and len(ra2) == len(dec2) and (len(radius) == 1 or len(radius) == len(ra1))"},
         ensures={"the-one-shot-method-is-the-reusable-matcher-built-from-the-second-set-at-this-depth":
                  "result == ufn('htm_pairs', ufn('htm_depth'), ufn('point_set', ra2, dec2), ra1, dec1, radius, maxmatch)",
                  "caller's-arrays-untouched": "all(ra1[k] == old(ra1[k]) for k in range(0, len(ra1))) and all(ra2[k] == old(ra2[k]) for k in range(0, len(ra2)))"},
         callee_contracts={"Matcher.__init__": "esutil.htm.htm.Matcher.__init__#ghost", "Matcher.match": "esutil.htm.htm.Matcher.match#value"},
         props=["C12", "C15"], runtime=False)
