"""Contract for esutil.numpy_util.splitarray (property C20)."""
from esvc.speclang import contract, domain

contract(
    "esutil.numpy_util.splitarray",
    params=dict(nper="pos", var_input="arr[int]"),
    ensures={
        "count": "len(result) == (len(var_input) + nper - 1) // nper",
        "full-chunks": "all(len(result[j]) == nper for j in range(0, len(result) - 1))",
        "last-chunk": "len(result) == 0 or (1 <= len(result[len(result) - 1]) and len(result[len(result) - 1]) <= nper)",
        "concatenation-is-input": "all(result[g // nper][g % nper] == var_input[g] for g in range(0, len(var_input)))",
    },
    loops={"L0": dict(counter="k", locals={"chunks": "viewlist:var"}, inv={
        "count": "len(chunks) == k",
        "layout": "all(chunk_off(chunks, j) == j * nper"
                  " and len(chunks[j]) == (nper if (j + 1) * nper <= len(var) else len(var) - j * nper)"
                  " for j in range(0, k))",
    })},
    props=["C20"],
)


@domain("esutil.numpy_util.splitarray")
def _dom_splitarray(tier, seed):
    import numpy as np
    hi = 14 if tier == "quick" else 40
    for n in range(1, hi + 1):
        for nper in range(1, n + 3):
            yield dict(args=[nper, np.arange(n) * 3 + 1])
    yield dict(args=[2, [5, 6, 7]])
