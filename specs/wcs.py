"""Property C10: WCS pixel-to-sky follows the FITS convention and sky-to-pixel inverts it.

Deductive part (reals): the structure of the two chains - offset from the reference pixel, CD matrix and distortion in the
order of the convention (PV after the CD matrix, SIP before it), definite assignment on every branch, the linear map itself,
the coefficient layout of the PV and SIP polynomials, the longitude fold to [0,360), the RA-difference wrap, and the frame of
the forward transform (it writes nothing on the object).  Numerical part (bounded, labelled): an independent long-double
FITS-WCS reference for the forward transform, inversion accuracy, scalar/array agreement and independence from call history."""
from esvc.speclang import contract, domain, opaque

# ------------------------------------------------------------------------------------------------ bounded reference
PV1_TERMS = {0: (0, 0), 1: (1, 0), 2: (0, 1), 4: (2, 0), 5: (1, 1), 6: (0, 2), 7: (3, 0), 8: (2, 1), 9: (1, 2), 10: (0, 3)}
PV2_TERMS = {0: (0, 0), 1: (0, 1), 2: (1, 0), 4: (0, 2), 5: (1, 1), 6: (2, 0), 7: (0, 3), 8: (1, 2), 9: (2, 1), 10: (3, 0)}


def fits_reference(hdr, x, y, distort=True):
    """FITS-WCS papers I/II (+ TPV and SIP conventions) in long double: returns unit vectors of the sky positions"""
    import numpy as np
    L = np.longdouble
    x = np.asarray(x, dtype=L)
    y = np.asarray(y, dtype=L)
    dx = x - L(hdr["crpix1"])
    dy = y - L(hdr["crpix2"])
    cd = [[L(hdr["cd1_1"]), L(hdr["cd1_2"])], [L(hdr["cd2_1"]), L(hdr["cd2_2"])]]
    proj = hdr["ctype1"][4:].strip().upper()
    if proj == "-TAN-SIP":
        u, v = dx, dy
        if distort and any(k.startswith("a_") and k != "a_order" for k in hdr):
            fu = np.zeros_like(dx)
            fv = np.zeros_like(dx)
            # each polynomial has its own order keyword (A_ORDER for the A_p_q, B_ORDER for the B_p_q)
            for p in range(int(hdr["a_order"]) + 1):
                for q in range(int(hdr["a_order"]) + 1):
                    ka = "a_%d_%d" % (p, q)
                    if ka in hdr:
                        fu = fu + L(hdr[ka]) * dx ** p * dy ** q
            for p in range(int(hdr.get("b_order", hdr["a_order"])) + 1):
                for q in range(int(hdr.get("b_order", hdr["a_order"])) + 1):
                    kb = "b_%d_%d" % (p, q)
                    if kb in hdr:
                        fv = fv + L(hdr[kb]) * dx ** p * dy ** q
            u, v = dx + fu, dy + fv
        xi = cd[0][0] * u + cd[0][1] * v
        eta = cd[1][0] * u + cd[1][1] * v
    else:
        xi = cd[0][0] * dx + cd[0][1] * dy
        eta = cd[1][0] * dx + cd[1][1] * dy
        if distort and any(k.startswith("pv1_") for k in hdr):
            xi2 = np.zeros_like(xi)
            eta2 = np.zeros_like(xi)
            for k, (p, q) in PV1_TERMS.items():
                if "pv1_%d" % k in hdr:
                    xi2 = xi2 + L(hdr["pv1_%d" % k]) * xi ** p * eta ** q
            for k, (p, q) in PV2_TERMS.items():
                if "pv2_%d" % k in hdr:
                    eta2 = eta2 + L(hdr["pv2_%d" % k]) * xi ** p * eta ** q
            xi, eta = xi2, eta2
    d2r = np.arccos(L(-1)) / L(180)
    xi = xi * d2r
    eta = eta * d2r
    ra0 = L(hdr["crval1"]) * d2r
    dec0 = L(hdr["crval2"]) * d2r
    # gnomonic deprojection about (ra0, dec0): the tangent-plane point (xi, eta, 1) rotated to the sky
    s0, c0 = np.sin(dec0), np.cos(dec0)
    # unit vectors: east = (-sin ra0, cos ra0, 0); north = (-s0 cos ra0, -s0 sin ra0, c0); centre = (c0 cos ra0, c0 sin ra0, s0)
    sr, cr = np.sin(ra0), np.cos(ra0)
    vx = c0 * cr + xi * (-sr) + eta * (-s0 * cr)
    vy = c0 * sr + xi * cr + eta * (-s0 * sr)
    vz = s0 + eta * c0
    n = np.sqrt(vx * vx + vy * vy + vz * vz)
    return vx / n, vy / n, vz / n


def unit_of(lon, lat):
    import numpy as np
    L = np.longdouble
    d2r = np.arccos(L(-1)) / L(180)
    lon = np.asarray(lon, dtype=L) * d2r
    lat = np.asarray(lat, dtype=L) * d2r
    return np.cos(lat) * np.cos(lon), np.cos(lat) * np.sin(lon), np.sin(lat)


def sep_deg(a, b):
    import numpy as np
    d = np.sqrt((a[0] - b[0]) ** 2 + (a[1] - b[1]) ** 2 + (a[2] - b[2]) ** 2)
    return np.asarray(2 * np.arcsin(np.minimum(d / 2, 1)) * 180 / np.arccos(np.longdouble(-1)), dtype="f8")


def forward_statement(hdr, x, y):
    """image2sky against the reference, to 1e-9 degree on the sphere; longitude in [0,360), latitude in [-90,90];
    the reference pixel maps to the reference position; scalar and array calls agree; distort=False is the bare TAN chain"""
    import numpy as np
    import esutil.wcsutil as wcsutil
    w = wcsutil.WCS(dict(hdr))
    for distort in (True, False):
        lon, lat = w.image2sky(x.copy(), y.copy(), distort=distort)
        if np.shape(lon) != np.shape(x) or np.shape(lat) != np.shape(x):
            return "shape %s / %s for input %s (distort=%s)" % (np.shape(lon), np.shape(lat), np.shape(x), distort)
        if not (np.isfinite(lon).all() and np.isfinite(lat).all()):
            return "non-finite result (distort=%s)" % distort
        if not ((lon >= 0) & (lon < 360)).all():
            k = int(np.flatnonzero(~((lon >= 0) & (lon < 360)))[0])
            return "longitude %r outside [0,360) at pixel (%r, %r) (distort=%s)" % (float(lon[k]), float(x[k]), float(y[k]), distort)
        if not ((lat >= -90) & (lat <= 90)).all():
            return "latitude outside [-90,90] (distort=%s)" % distort
        ref = fits_reference(hdr, x, y, distort=distort)
        d = sep_deg(unit_of(lon, lat), ref)
        if not (d <= 1e-9).all():
            k = int(np.argmax(d))
            return "pixel (%r, %r) distort=%s: (%r, %r) is %.3g degree from the FITS reference" % (
                float(x[k]), float(y[k]), distort, float(lon[k]), float(lat[k]), float(d[k]))
        # scalar calls agree with the array call
        for k in (0, x.size // 2, x.size - 1):
            slon, slat = w.image2sky(float(x[k]), float(y[k]), distort=distort)
            if not (np.ndim(slon) == 0 and np.ndim(slat) == 0):
                return "scalar input gives a non-scalar result"
            if sep_deg(unit_of(slon, slat), unit_of(lon[k], lat[k])) > 1e-12 or not (0 <= slon < 360):
                return "scalar call (%r, %r) differs from the array call (%r, %r) at pixel (%r, %r)" % (
                    float(slon), float(slat), float(lon[k]), float(lat[k]), float(x[k]), float(y[k]))
    # the reference pixel (no constant distortion term in these headers unless stated)
    if not any(k in hdr for k in ("pv1_0", "pv2_0")):
        for args in ((hdr["crpix1"], hdr["crpix2"]), (np.array([hdr["crpix1"]]), np.array([hdr["crpix2"]]))):
            lon, lat = w.image2sky(*args)
            lon, lat = float(np.ravel(lon)[0]), float(np.ravel(lat)[0])
            if not (0 <= lon < 360):
                return "reference pixel: longitude %r outside [0,360)" % lon
            if sep_deg(unit_of(lon, lat), unit_of(hdr["crval1"], hdr["crval2"])) > 1e-9:
                return "reference pixel maps to (%r, %r) instead of (%r, %r)" % (lon, lat, hdr["crval1"], hdr["crval2"])
    return True


def inverse_statement(hdr, x, y):
    """sky2image(image2sky(x, y)) == (x, y): 1e-6 pixel with root finding (and for undistorted chains), the fitted polynomial's
    accuracy without; scalar and array agree"""
    import warnings
    import numpy as np
    import esutil.wcsutil as wcsutil
    w = wcsutil.WCS(dict(hdr))
    distorted = w.distort["name"] != "none"
    with warnings.catch_warnings():
        warnings.simplefilter("ignore")
        lon, lat = w.image2sky(x.copy(), y.copy())
        xb, yb = w.sky2image(lon.copy(), lat.copy())
        err = np.hypot(xb - x, yb - y)
        if not (err <= 1e-6).all():
            k = int(np.argmax(err))
            return "find=True: pixel (%r, %r) -> (%r, %r) -> (%r, %r), %.3g pixel off" % (
                float(x[k]), float(y[k]), float(lon[k]), float(lat[k]), float(xb[k]), float(yb[k]), float(err[k]))
        # the undistorted chain is inverted directly
        lon0, lat0 = w.image2sky(x.copy(), y.copy(), distort=False)
        xb, yb = w.sky2image(lon0.copy(), lat0.copy(), distort=False, find=False)
        err = np.hypot(xb - x, yb - y)
        if not (err <= 1e-6).all():
            k = int(np.argmax(err))
            return "distort=False: pixel (%r, %r) comes back %.3g pixel off" % (float(x[k]), float(y[k]), float(err[k]))
        if distorted:
            inside = (x >= 1) & (x <= hdr.get("znaxis1", hdr["naxis1"])) & (y >= 1) & (y <= hdr.get("znaxis2", hdr["naxis2"]))
            xb, yb = w.sky2image(lon.copy(), lat.copy(), find=False)
            err = np.hypot(xb - x, yb - y)[inside]
            # the accuracy of the fitted inverse polynomial is what the fit itself reports (rms over its own grid, in pixels)
            rms = wcsutil.WCS(dict(hdr)).InvertDistortion()
            if err.size and not (err <= 30 * rms + 1e-6).all():
                return "find=False: fitted inverse is %.3g pixel off inside the image, the fit's own rms is %.3g" % (float(err.max()), rms)
        for k in (0, x.size - 1):
            sx, sy = w.sky2image(float(lon[k]), float(lat[k]))
            if np.ndim(sx) != 0 or np.hypot(sx - x[k], sy - y[k]) > 1e-6:
                return "scalar sky2image: (%r, %r) instead of (%r, %r)" % (float(sx), float(sy), float(x[k]), float(y[k]))
    return True


def wcs_history_statement(hdr, x, y, calls):
    """results do not depend on what the same object did before: every call of a random interleaving on one object is compared
    with the same call on a fresh object"""
    import warnings
    import numpy as np
    import esutil.wcsutil as wcsutil

    def run(w, c):
        kind, k, opts = c
        xs, ys = (x[k], y[k]) if isinstance(k, int) else (x.copy(), y.copy())
        if kind == "image2sky":
            return w.image2sky(xs, ys, **opts)
        if kind == "get_jacobian":
            return w.get_jacobian(xs, ys, **opts)
        lon, lat = wcsutil.WCS(dict(hdr)).image2sky(xs, ys)
        lon = lon.copy() if hasattr(lon, "copy") else lon
        lat = lat.copy() if hasattr(lat, "copy") else lat
        return w.sky2image(lon, lat, **opts)
    with warnings.catch_warnings():
        warnings.simplefilter("ignore")
        shared = wcsutil.WCS(dict(hdr))
        for i, c in enumerate(calls):
            a = run(shared, c)
            b = run(wcsutil.WCS(dict(hdr)), c)
            for u, v in zip(a, b):
                if not np.allclose(u, v, rtol=0, atol=1e-9, equal_nan=True):
                    return "call %d %s%r after %s differs from the same call on a fresh object by %.3g" % (
                        i, c[0], c[2], [q[0] for q in calls[:i]], float(np.max(np.abs(np.asarray(u) - np.asarray(v)))))
    return True


def jacobian_statement(hdr, x, y):
    """get_jacobian is the central difference of image2sky (arcsec per pixel, RA scaled by -cos(dec)), also across RA=0"""
    import numpy as np
    import esutil.wcsutil as wcsutil
    w = wcsutil.WCS(dict(hdr))
    j = w.get_jacobian(x.copy(), y.copy())
    c = unit_of(*w.image2sky(x, y))
    px = unit_of(*w.image2sky(x + 1, y))
    mx = unit_of(*w.image2sky(x - 1, y))
    py = unit_of(*w.image2sky(x, y + 1))
    my = unit_of(*w.image2sky(x, y - 1))
    lon, lat = w.image2sky(x, y)
    ok = np.abs(lat) < 89.0
    # the size of the jacobian vectors equals half the separation of the displaced points (to second order)
    for a, b, (d1, d2) in ((px, mx, (j[0], j[2])), (py, my, (j[1], j[3]))):
        want = sep_deg(a, b) * 3600.0 / 2
        got = np.hypot(d1, d2)
        bad = ok & (np.abs(got - want) > 1e-3 * want + 1e-9)
        if bad.any():
            k = int(np.flatnonzero(bad)[0])
            return "jacobian at (%r, %r): |(dra, ddec)| = %r arcsec/pixel, displaced points give %r" % (float(x[k]), float(y[k]), float(got[k]), float(want[k]))
    return True


contract("esutil.wcsutil#forward", params={}, assumed=True, runtime_name="esutil.wcsutil.WCS",
         why_assumed="bounded statement oracle (labelled): floating-point agreement with an independent long-double FITS-WCS "
                     "reference cannot be decided by the real-number contracts",
         rt_ensures={"image2sky-equals-the-FITS-reference-to-1e-9-degree": "forward_statement(hdr, x, y) is True"},
         props=["C10"])
contract("esutil.wcsutil#inverse", params={}, assumed=True, runtime_name="esutil.wcsutil.WCS",
         why_assumed="bounded statement oracle (labelled): root finding (scipy fsolve) and least-squares polynomial inversion are "
                     "outside the reach of the VC generator",
         rt_ensures={"sky2image-inverts-image2sky": "inverse_statement(hdr, x, y) is True"},
         props=["C10"])
contract("esutil.wcsutil#history", params={}, assumed=True, runtime_name="esutil.wcsutil.WCS",
         why_assumed="bounded statement oracle (labelled) for the independence from earlier calls on the same object (lazy inverse "
                     "coefficients, reused scratch buffers); the forward transform's empty frame is proved",
         rt_ensures={"results-independent-of-earlier-calls": "wcs_history_statement(hdr, x, y, calls) is True",
                     "jacobian-is-the-central-difference": "jacobian_statement(hdr, x, y) is True"},
         props=["C10"])


def _headers(tier, seed):
    import math
    import random
    rng = random.Random(seed + 21)
    n = 3 if tier == "quick" else 25
    refpoints = [(150.0, 2.0), (0.0, 0.0), (359.99999, -30.0), (1e-6, 45.0), (10.0, 89.9), (200.0, -89.95), (0.0, 89.99),
                 (180.0, 0.0), (270.0, -60.0), (123.456, 90.0 - 1e-4)]
    out = []
    for kind in ("TAN", "TPV", "TAN-SIP"):
        pts = list(refpoints) + [(rng.uniform(0, 360), math.degrees(math.asin(rng.uniform(-1, 1)))) for _ in range(n)]
        if tier == "quick":
            # always: the RA=0 seam from both sides and a near-polar reference point; plus a few others
            pts = [(0.0, 0.0), (359.99999, -30.0), (10.0, 89.9)] + rng.sample(pts[3:], 4)
        for crval1, crval2 in pts:
            scale = rng.choice([0.05, 0.263, 1.0, 2.0, rng.uniform(0.05, 2.0)]) / 3600.0
            th = math.radians(rng.choice([0.0, 90.0, 180.0, 270.0, rng.uniform(0, 360)]))
            flip = rng.choice([1, -1])
            nax = (2048, 4096)
            crpix = rng.choice([(1024.5, 2048.5), (1.0, 1.0), (-3000.0, 6000.0), (rng.uniform(-5000, 8000), rng.uniform(-5000, 8000))])
            h = {"naxis1": nax[0], "naxis2": nax[1], "ctype1": "RA---" + kind, "ctype2": "DEC--" + kind, "cunit1": "deg", "cunit2": "deg",
                 "crpix1": crpix[0], "crpix2": crpix[1], "crval1": crval1, "crval2": crval2,
                 "cd1_1": flip * scale * math.cos(th), "cd1_2": -flip * scale * math.sin(th),
                 "cd2_1": scale * math.sin(th), "cd2_2": scale * math.cos(th)}
            # realistic magnitude: every higher-order term moves the farthest corner of the image by at most 1% of its
            # distance from the reference pixel (the distortion stays invertible over the image)
            rpix = max(math.hypot(cx - crpix[0], cy - crpix[1]) for cx in (1, nax[0]) for cy in (1, nax[1]))
            if kind == "TPV":
                rdeg = rpix * scale
                for ax in (1, 2):
                    for i in (1, 2, 4, 5, 6, 7, 8, 9, 10):
                        n_ = sum(PV1_TERMS[i])
                        v = rng.uniform(-1, 1) * 0.01 * rdeg ** (1 - n_)
                        if i == 1:
                            v = 1.0 + rng.uniform(-1, 1) * 2e-3
                        if i == 2:
                            v = rng.uniform(-1, 1) * 2e-3
                        h["pv%d_%d" % (ax, i)] = v
            if kind == "TAN-SIP":
                order = rng.choice([2, 3, 4])
                orders = {"a": order, "b": order}
                nsip = sum(1 for o in out if "a_order" in o and "znaxis1" not in o)
                if nsip < 2:
                    # the two polynomials need not have the same order: one header of each kind in every run
                    orders = {"a": 2 + nsip, "b": 3 - nsip}
                elif rng.random() < 0.4:
                    orders = {"a": rng.choice([2, 3, 4]), "b": rng.choice([2, 3, 4])}
                h["a_order"] = orders["a"]
                h["b_order"] = orders["b"]
                h["ap_order"] = max(orders.values())      # the constructor requires the inverse orders to be present
                h["bp_order"] = max(orders.values())
                for p in ("a", "b"):
                    order = orders[p]
                    for i in range(order + 1):
                        for j in range(order + 1 - i):
                            if i + j >= 2:
                                h["%s_%d_%d" % (p, i, j)] = rng.uniform(-1, 1) * 0.01 * rpix ** (1 - i - j)
            out.append(h)
            if kind != "TAN" and len(out) % 3 == 0:
                # the same header as an fpack image HDU carries it: the image size moves to ZNAXISn
                z = dict(h)
                z["znaxis1"], z["znaxis2"] = h["naxis1"], h["naxis2"]
                z["naxis1"], z["naxis2"] = 8, h["naxis2"]
                out.append(z)
    return out


def _pixels(rng, h, n):
    import numpy as np
    nx, ny = h.get("znaxis1", h["naxis1"]), h.get("znaxis2", h["naxis2"])
    xs = [1.0, float(nx), h["crpix1"], 1.0, float(nx)] + [rng.uniform(1, nx) for _ in range(n)]
    ys = [1.0, float(ny), h["crpix2"], float(ny), 1.0] + [rng.uniform(1, ny) for _ in range(n)]
    # and a few positions next to the reference pixel, where the native latitude is close to 90 degrees
    for d in (0.5, -3.0, 40.0):
        xs.append(h["crpix1"] + d)
        ys.append(h["crpix2"] - d / 2)
    if min(h["crval1"] % 360, (-h["crval1"]) % 360) < 1e-3:
        # the image straddles RA=0: positions whose sky longitude is a hair east or west of the seam.  They are located with
        # the independent reference (bisection along the east-west direction), so that the distortion does not move them away
        cd = np.array([[h["cd1_1"], h["cd1_2"]], [h["cd2_1"], h["cd2_2"]]])
        cdinv = np.linalg.inv(cd)
        scale = abs(h["cd2_2"] + 1j * h["cd2_1"])

        def east_angle(sdeg, tdeg):
            dxy = cdinv @ np.array([sdeg, tdeg])
            vx, vy, vz = fits_reference(h, np.array([h["crpix1"] + dxy[0]]), np.array([h["crpix2"] + dxy[1]]))
            return float(np.arctan2(vy[0], vx[0])), dxy
        for k in range(12):
            t = rng.uniform(-1, 1) * 1500 * scale
            lo, hi = -400 * scale, 400 * scale
            flo, fhi = east_angle(lo, t)[0], east_angle(hi, t)[0]
            if flo * fhi > 0:
                continue
            for _ in range(60):
                mid = (lo + hi) / 2
                fm = east_angle(mid, t)[0]
                if fm * flo > 0:
                    lo, flo = mid, fm
                else:
                    hi = mid
            eps = rng.choice([1, -1]) * 10.0 ** rng.uniform(-9, -5)
            dxy = east_angle((lo + hi) / 2 + eps, t)[1]
            xs.append(h["crpix1"] + dxy[0])
            ys.append(h["crpix2"] + dxy[1])
    return np.array(xs), np.array(ys)


def _desc(h):
    return "%s%s crval=(%.6g, %.6g) crpix=(%.6g, %.6g) cd=(%.3g %.3g %.3g %.3g)" % (
        h["ctype1"][4:], " (ZNAXIS)" if "znaxis1" in h else "", h["crval1"], h["crval2"], h["crpix1"], h["crpix2"], h["cd1_1"], h["cd1_2"], h["cd2_1"], h["cd2_2"])


@domain("esutil.wcsutil#forward")
def _dom_fwd(tier, seed):
    import random
    rng = random.Random(seed + 22)
    for h in _headers(tier, seed):
        x, y = _pixels(rng, h, 20 if tier == "quick" else 200)
        yield dict(call=(lambda: None), args=[], ghost=dict(hdr=h, x=x, y=y), key=_desc(h))


@domain("esutil.wcsutil#inverse")
def _dom_inv(tier, seed):
    import random
    rng = random.Random(seed + 23)
    for h in _headers(tier, seed):
        x, y = _pixels(rng, h, 6 if tier == "quick" else 40)
        yield dict(call=(lambda: None), args=[], ghost=dict(hdr=h, x=x, y=y), key=_desc(h))


@domain("esutil.wcsutil#history")
def _dom_hist(tier, seed):
    import random
    rng = random.Random(seed + 24)
    for h in _headers(tier, seed)[::(3 if tier == "quick" else 1)]:
        x, y = _pixels(rng, h, 3)
        calls = []
        for _ in range(8 if tier == "quick" else 20):
            kind = rng.choice(["image2sky", "sky2image", "sky2image", "get_jacobian"])
            k = rng.choice([None, rng.randrange(len(x))])
            if kind == "image2sky":
                opts = dict(distort=rng.choice([True, False]))
            elif kind == "sky2image":
                opts = dict(distort=rng.choice([True, False]), find=rng.choice([True, False]))
            else:
                opts = dict(distort=rng.choice([True, False]))
            calls.append((kind, k, opts))
        yield dict(call=(lambda: None), args=[], ghost=dict(hdr=h, x=x, y=y, calls=calls), key=_desc(h))


# ------------------------------------------------------------------------------------------------ deductive part
_WCS = ("obj:WCS{crpix:arr[real],cd:arr2[real],cdinv:arr2[real],projection:const:%r,distort:obj:dict{['name']:const:%r},"
        "_inverse_computed:bool}")

contract("esutil.wcsutil.WCS.ApplyCDMatrix",
         params=dict(self=_WCS % ("-TAN", "none"), x="real", y="real", inverse="bool"), returns="tuple[real,real]",
         requires={"2x2": "shape0(self.cd) == 2 and shape1(self.cd) == 2 and shape0(self.cdinv) == 2 and shape1(self.cdinv) == 2"},
         ensures={
             "forward-is-the-CD-matrix-times-the-offset":
                 "inverse or (result[0] == self.cd[0, 0] * x + self.cd[0, 1] * y and result[1] == self.cd[1, 0] * x + self.cd[1, 1] * y)",
             "inverse-uses-the-inverted-matrix":
                 "not inverse or (result[0] == self.cdinv[0, 0] * x + self.cdinv[0, 1] * y"
                 " and result[1] == self.cdinv[1, 0] * x + self.cdinv[1, 1] * y)",
             "object-untouched": "self.cd[0, 0] == old(self.cd[0, 0])",
         },
         props=["C10", "C15"], runtime=False)

contract("esutil.wcsutil.wrap_ra_diff#scalar", runtime_name="esutil.wcsutil.wrap_ra_diff",
         params=dict(dra="real"),
         ensures={
             "in-[-180,180]": "-180 <= result and result <= 180",
             "differs-from-the-input-by-whole-turns": "is_int((result - dra) / 360)",
             "values-already-in-range-are-returned-unchanged": "not (-180 <= dra and dra <= 180) or result == dra",
         },
         loops={"L0": dict(inv={"turns": "is_int((dra - old(dra)) / 360)",
                                "untouched-unless-below": "old(dra) < -180 or dra == old(dra)",
                                "never-pushed-above": "dra < 180 or dra == old(dra)"},
                        dec="floor(-dra / 360)"),
                "L1": dict(inv={"turns": "is_int((dra - old(dra)) / 360)", "lower": "dra >= -180",
                                "untouched-if-in-range": "old(dra) < -180 or old(dra) > 180 or dra == old(dra)"},
                        dec="floor(dra / 360)")},
         props=["C10"], runtime=False)

for _n in (2, 3):
    contract("esutil.wcsutil.Apply2DPolynomial#%dx%d" % (_n, _n), runtime_name="esutil.wcsutil.Apply2DPolynomial",
             params=dict(a="arr2[real]", x="real", y="real"),
             requires={"shape": "shape0(a) == %d and shape1(a) == %d" % (_n, _n)},
             ensures={"sum-of-a[i,j]-x^i-y^j (first index is the power of x)":
                      "result == " + " + ".join("a[%d, %d]%s%s" % (i, j, " * x" * i, " * y" * j) for i in range(_n) for j in range(_n)),
                      "coefficients-untouched": "all(a[i, j] == old(a[i, j]) for i in range(0, %d) for j in range(0, %d))" % (_n, _n)},
             props=["C10"], runtime=False)

contract("esutil.wcsutil.Apply2DPolynomial", params=dict(a="arr2[real]", x="real", y="real"), returns="real", assumed=True, runtime=False,
         why_assumed="general order: stands for its value as an uninterpreted function of the coefficient matrix and the point (the "
                     "index convention is proved for 2x2 and 3x3 matrices, the numerical value is checked by the bounded FITS reference)",
         ensures={"value": "result == ufn('P2D', a, x, y)"},
         props=["C10"])

_DIST = "obj:dict{['name']:const:%r,['a']:arr2[real],['b']:arr2[real],['ap']:arr2[real],['bp']:arr2[real]}"
_WCS2 = ("obj:WCS{crpix:arr[real],cd:arr2[real],cdinv:arr2[real],rotation_matrix:arr2[real],projection:const:%r,distort:" + _DIST +
         ",_inverse_computed:const:True}")
_SHAPES = ("shape0(self.cd) == 2 and shape1(self.cd) == 2 and shape0(self.cdinv) == 2 and shape1(self.cdinv) == 2"
           " and len(self.crpix) == 2")
_UNTOUCHED = ("self.crpix[0] == old(self.crpix[0]) and self.crpix[1] == old(self.crpix[1]) and self.cd[0, 0] == old(self.cd[0, 0])"
              " and self._inverse_computed == old(self._inverse_computed)")


def PolyA(self, x, y):
    return ufn('P2D', self.distort['a'], x, y)


def PolyB(self, x, y):
    return ufn('P2D', self.distort['b'], x, y)


def PolyAP(self, x, y):
    return ufn('P2D', self.distort['ap'], x, y)


def PolyBP(self, x, y):
    return ufn('P2D', self.distort['bp'], x, y)


for _name in ("scamp", "sip", "none"):
    _proj = "-TAN-SIP" if _name == "sip" else "-TPV"
    _lin = "x" if _name == "sip" else "0"
    _liny = "y" if _name == "sip" else "0"
    contract("esutil.wcsutil.WCS.Distort#forward:" + _name, runtime_name="esutil.wcsutil.WCS.Distort",
             params=dict(self=_WCS2 % (_proj, _name), x="real", y="real", inverse="const:False"), returns="tuple[real,real]",
             ensures={"forward-polynomials (PV: the polynomial itself; SIP: offset plus polynomial; none: identity)":
                      ("result[0] == x and result[1] == y" if _name == "none" else
                       "result[0] == %s + PolyA(self, x, y) and result[1] == %s + PolyB(self, x, y)" % (_lin, _liny)),
                      "object-untouched": _UNTOUCHED},
             callee_contracts={"Apply2DPolynomial": "esutil.wcsutil.Apply2DPolynomial"},
             props=["C10", "C15"], runtime=False)
    contract("esutil.wcsutil.WCS.Distort#inverse:" + _name, runtime_name="esutil.wcsutil.WCS.Distort",
             params=dict(self=_WCS2 % (_proj, _name), x="real", y="real", inverse="const:True"), returns="tuple[real,real]",
             ensures={"inverse-polynomials-once-computed":
                      ("result[0] == x and result[1] == y" if _name == "none" else
                       "result[0] == %s + PolyAP(self, x, y) and result[1] == %s + PolyBP(self, x, y)" % (_lin, _liny)),
                      "object-untouched": _UNTOUCHED},
             callee_contracts={"Apply2DPolynomial": "esutil.wcsutil.Apply2DPolynomial"},
             props=["C10"], runtime=False)

contract("esutil.wcsutil.WCS._rotate",
         params=dict(self="obj:WCS{}", longitude="real", latitude="real", r="arr2[real]"), returns="tuple[real,real]",
         requires={"3x3": "shape0(r) == 3 and shape1(r) == 3"},
         ensures={"longitude-in-[-180,180]-latitude-in-[-90,90]":
                  "-180 <= result[0] and result[0] <= 180 and -90 <= result[1] and result[1] <= 90",
                  "matrix-untouched": "all(r[i, j] == old(r[i, j]) for i in range(0, 3) for j in range(0, 3))"},
         light_trig=True, props=["C10"], runtime=False)

contract("esutil.wcsutil.WCS.image2sph#scalar", runtime_name="esutil.wcsutil.WCS.image2sph",
         params=dict(self="obj:WCS{rotation_matrix:arr2[real]}", x="real", y="real"), returns="tuple[real,real]",
         requires={"3x3": "shape0(self.rotation_matrix) == 3 and shape1(self.rotation_matrix) == 3"},
         ensures={"longitude-in-[0,360)": "0 <= result[0] and result[0] < 360",
                  "latitude-in-[-90,90]": "-90 <= result[1] and result[1] <= 90",
                  "object-untouched": "self.rotation_matrix[0, 0] == old(self.rotation_matrix[0, 0])"},
         inline_calls=["esutil.wcsutil.WCS.Rotate"],
         light_trig=True, props=["C10"], runtime=False)

contract("esutil.wcsutil.WCS.image2sph#value", runtime_name="esutil.wcsutil.WCS.image2sph",
         params=dict(self="obj:WCS{rotation_matrix:arr2[real]}", x="real", y="real"), returns="tuple[real,real]", assumed=True, runtime=False,
         why_assumed="the tangent-plane deprojection as a function of the plane coordinates and the rotation matrix (determinism; its "
                     "ranges and its empty frame are proved in image2sph#scalar, its value is checked by the bounded FITS reference)",
         ensures={"value": "result[0] == ufn('sky_lon', self.rotation_matrix, x, y) and result[1] == ufn('sky_lat', self.rotation_matrix, x, y)",
                  "ranges": "0 <= result[0] and result[0] < 360 and -90 <= result[1] and result[1] <= 90"},
         props=["C10"])
contract("esutil.wcsutil.WCS.sph2image#value", runtime_name="esutil.wcsutil.WCS.sph2image",
         params=dict(self="obj:WCS{rotation_matrix:arr2[real]}", longitude="real", latitude="real"), returns="tuple[real,real]",
         assumed=True, runtime=False,
         why_assumed="the tangent-plane projection as a function of the sky position and the rotation matrix (determinism; value "
                     "checked by the bounded inversion oracle)",
         ensures={"value": "result[0] == ufn('plane_u', self.rotation_matrix, longitude, latitude)"
                           " and result[1] == ufn('plane_v', self.rotation_matrix, longitude, latitude)"},
         props=["C10"])


def CDu(self, dx, dy):
    return self.cd[0, 0] * dx + self.cd[0, 1] * dy


def CDv(self, dx, dy):
    return self.cd[1, 0] * dx + self.cd[1, 1] * dy


def CDIu(self, u, v):
    return self.cdinv[0, 0] * u + self.cdinv[0, 1] * v


def CDIv(self, u, v):
    return self.cdinv[1, 0] * u + self.cdinv[1, 1] * v


def SkyLon(self, u, v):
    return ufn('sky_lon', self.rotation_matrix, u, v)


def SkyLat(self, u, v):
    return ufn('sky_lat', self.rotation_matrix, u, v)


def PlaneU(self, lon, lat):
    return ufn('plane_u', self.rotation_matrix, lon, lat)


def PlaneV(self, lon, lat):
    return ufn('plane_v', self.rotation_matrix, lon, lat)


_DX = "(x - self.crpix[0])"
_DY = "(y - self.crpix[1])"
_FWD = {
    # PV (TPV / scamp): CD matrix first, then the polynomial in the intermediate coordinates
    ("-TPV", "scamp", True): ("PolyA(self, CDu(self, {dx}, {dy}), CDv(self, {dx}, {dy}))", "PolyB(self, CDu(self, {dx}, {dy}), CDv(self, {dx}, {dy}))"),
    ("-TAN", "scamp", True): ("PolyA(self, CDu(self, {dx}, {dy}), CDv(self, {dx}, {dy}))", "PolyB(self, CDu(self, {dx}, {dy}), CDv(self, {dx}, {dy}))"),
    # SIP: the polynomial in pixel offsets first (added to the offsets), then the CD matrix
    ("-TAN-SIP", "sip", True): ("CDu(self, {dx} + PolyA(self, {dx}, {dy}), {dy} + PolyB(self, {dx}, {dy}))",
                                "CDv(self, {dx} + PolyA(self, {dx}, {dy}), {dy} + PolyB(self, {dx}, {dy}))"),
}
for _proj, _name in (("-TPV", "scamp"), ("-TAN", "scamp"), ("-TAN", "none"), ("-TAN-SIP", "sip"), ("-TAN-SIP", "none")):
    for _dist in (True, False):
        _u, _v = _FWD.get((_proj, _name, _dist), ("CDu(self, {dx}, {dy})", "CDv(self, {dx}, {dy})"))
        _u, _v = _u.format(dx=_DX, dy=_DY), _v.format(dx=_DX, dy=_DY)
        contract("esutil.wcsutil.WCS.image2sky#%s:%s:distort=%s" % (_proj, _name, _dist), runtime_name="esutil.wcsutil.WCS.image2sky",
                 params=dict(self=_WCS2 % (_proj, _name), x="real", y="real", distort="const:%s" % _dist), returns="tuple[real,real]",
                 requires={"shapes": _SHAPES},
                 ensures={
                     "FITS-order: offset from the reference pixel, CD matrix and distortion in the convention's order, deprojection":
                         "result[0] == SkyLon(self, %s, %s) and result[1] == SkyLat(self, %s, %s)" % (_u, _v, _u, _v),
                     "longitude-in-[0,360)": "0 <= result[0] and result[0] < 360",
                     "object-untouched": _UNTOUCHED,
                 },
                 callee_contracts={"WCS.ApplyCDMatrix": "esutil.wcsutil.WCS.ApplyCDMatrix", "WCS.image2sph": "esutil.wcsutil.WCS.image2sph#value",
                                   "WCS.Distort": "esutil.wcsutil.WCS.Distort#forward:" + _name},
                 props=["C10", "C15"], runtime=False)

_PU = "PlaneU(self, longitude, latitude)"
_PV = "PlaneV(self, longitude, latitude)"
for _proj, _name in (("-TPV", "scamp"), ("-TAN", "scamp"), ("-TAN", "none"), ("-TAN-SIP", "sip"), ("-TAN-SIP", "none")):
    for _dist in (True, False):
        if _name == "scamp" and _dist:
            # inverse PV polynomial in the intermediate coordinates, then the inverse CD matrix
            _xd = "CDIu(self, PolyAP(self, {u}, {v}), PolyBP(self, {u}, {v}))".format(u=_PU, v=_PV)
            _yd = "CDIv(self, PolyAP(self, {u}, {v}), PolyBP(self, {u}, {v}))".format(u=_PU, v=_PV)
        elif _name == "sip" and _dist:
            # inverse CD matrix first, then the inverse SIP polynomial added to the pixel offsets
            _iu, _iv = "CDIu(self, %s, %s)" % (_PU, _PV), "CDIv(self, %s, %s)" % (_PU, _PV)
            _xd = "%s + PolyAP(self, %s, %s)" % (_iu, _iu, _iv)
            _yd = "%s + PolyBP(self, %s, %s)" % (_iv, _iu, _iv)
        else:
            _xd, _yd = "CDIu(self, %s, %s)" % (_PU, _PV), "CDIv(self, %s, %s)" % (_PU, _PV)
        # with a distortion model present, find=True takes the root-finding path (not under contract): find=False here
        contract("esutil.wcsutil.WCS.sky2image#%s:%s:distort=%s" % (_proj, _name, _dist), runtime_name="esutil.wcsutil.WCS.sky2image",
                 params=dict(self=_WCS2 % (_proj, _name), longitude="real", latitude="real", distort="const:%s" % _dist,
                             find="const:False", xtol="real"),
                 returns="tuple[real,real]",
                 requires={"shapes": _SHAPES},
                 ensures={
                     "inverse-chain-in-the-reverse-order-of-the-forward-one (projection, inverse distortion / inverse CD matrix, reference pixel added)":
                         "result[0] == %s + self.crpix[0] and result[1] == %s + self.crpix[1]" % (_xd, _yd),
                     "object-untouched": _UNTOUCHED,
                 },
                 callee_contracts={"WCS.ApplyCDMatrix": "esutil.wcsutil.WCS.ApplyCDMatrix", "WCS.sph2image": "esutil.wcsutil.WCS.sph2image#value",
                                   "WCS.Distort": "esutil.wcsutil.WCS.Distort#inverse:" + _name},
                 props=["C10"], runtime=False)

# TPV convention (Calabretta et al. / scamp): PV1_k multiplies xi^p eta^q, PV2_k multiplies eta^p xi^q, with
#   k: 0 1 2 4 5 6 7 8 9 10  ->  (p,q): (0,0) (1,0) (0,1) (2,0) (1,1) (0,2) (3,0) (2,1) (1,2) (0,3);   k = 3 (radial term) unsupported
_PVK = [0, 1, 2, 4, 5, 6, 7, 8, 9, 10]
_PVPQ = [(0, 0), (1, 0), (0, 1), (2, 0), (1, 1), (0, 2), (3, 0), (2, 1), (1, 2), (0, 3)]
for _ax in (1, 2):
    _hdr = "obj:dict{" + ",".join("['pv%d_%d']:real" % (_ax, k) for k in _PVK) + ",['pv%d_3']:real,['crval1']:real}" % _ax
    _cl = " and ".join("result[0][%d, %d] == wcs['pv%d_%d']" % (((p, q) if _ax == 1 else (q, p)) + (_ax, k)) for k, (p, q) in zip(_PVK, _PVPQ))
    contract("esutil.wcsutil.WCS.ExtractPVCoeffs#pv%d" % _ax, runtime_name="esutil.wcsutil.WCS.ExtractPVCoeffs",
             params=dict(self="obj:WCS{}", wcs=_hdr, prefix="const:'pv%d'" % _ax), returns="tuple[arr2[real],int,int]",
             ensures={"TPV-convention: coefficient k of axis %d sits at the powers of (xi, eta) the convention gives it" % _ax: _cl,
                      "all-ten-found-third-order": "result[1] == 10 and result[2] == 3",
                      "radial-term-not-used-and-other-cells-zero": "result[0][3, 3] == 0 and result[0][2, 2] == 0 and result[0][3, 1] == 0"
                                                                   " and result[0][1, 3] == 0 and result[0][2, 3] == 0 and result[0][3, 2] == 0"},
             props=["C10"], runtime=False)

_SIPK = [(2, 0), (1, 1), (0, 2), (0, 1)]
contract("esutil.wcsutil.WCS.ExtractSIPCoeffs#order2", runtime_name="esutil.wcsutil.WCS.ExtractSIPCoeffs",
         params=dict(self="obj:WCS{}", wcs="obj:dict{['a_order']:const:2," + ",".join("['a_%d_%d']:real" % pq for pq in _SIPK) + ",['b_2_0']:real}",
                     prefix="const:'a'"),
         returns="tuple[arr2[real],int,int]",
         ensures={"SIP-convention: A_p_q multiplies u^p v^q (first index is the power of the first pixel axis)":
                  " and ".join("result[0][%d, %d] == wcs['a_%d_%d']" % (pq + pq) for pq in _SIPK),
                  "absent-coefficients-are-zero-and-the-other-axis-is-not-mixed-in":
                  "result[0][0, 0] == 0 and result[0][1, 0] == 0 and result[0][2, 2] == 0 and result[0][1, 2] == 0 and result[0][2, 1] == 0",
                  "count-and-order": "result[1] == 4 and result[2] == 2"},
         props=["C10"], runtime=False)
