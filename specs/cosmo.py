"""Contracts for esutil/cosmology/cosmolib.c (through the clang front end) and cosmology.py  (property C11).

The C functions are verified over the reals against Hogg (1999): E(z), the fixed-order Gauss-Legendre sums GL5 / GL10 (the
"documented fixed-order integration"), Dc, Dm (sinh / sin / flat), Da, Dl, dV, V, inverse critical density.  What is proved
is *which formula is computed*, the exact identities of the statement, division / sqrt safety from the struct invariant and
the vectorised wrappers' element-for-element agreement; the size of the quadrature truncation error is a bounded
stand-in (numerical analysis, not a first-order obligation)."""
from esvc.speclang import contract, domain, opaque, approx

COSMO = ("obj:cosmo{DH:real,flat:int,omega_m:real,omega_l:real,omega_k:real,tcfac:real,"
         "x:arr[real],w:arr[real],vx:arr[real],vw:arr[real]}")


# ---------------------------------------------------------------------------------------------- spec functions (Hogg 1999)
def CosmoInv(c):
    """struct invariant established by cosmo_new from the normalised parameters of Cosmo.extract_parms"""
    return ((c.flat == 0 or c.flat == 1) and c.DH > 0
            and (c.flat == 0 or (c.omega_k == 0 and c.omega_l == 1 - c.omega_m))
            and (c.flat == 1 or c.omega_k != 0)
            and (c.flat == 1 or c.omega_k <= 0 or c.tcfac == sqrt(c.omega_k) / c.DH)
            and (c.flat == 1 or c.omega_k > 0 or c.tcfac == sqrt(-c.omega_k) / c.DH)
            and len(c.x) == 5 and len(c.w) == 5 and len(c.vx) == 10 and len(c.vw) == 10
            and all(c.x[i] == -c.x[4 - i] and c.w[i] == c.w[4 - i] for i in range(0, 5)))


@opaque
def E2(c, z):
    """E(z)^2 = Om (1+z)^3 + Ok (1+z)^2 + OL   (Hogg eq. 14)"""
    return c.omega_m * (1 + z) * (1 + z) * (1 + z) + c.omega_k * (1 + z) * (1 + z) + c.omega_l


@opaque
def Einv(c, z):
    return 1 / sqrt(E2(c, z))


def node5(c, i, zmin, zmax):
    return c.x[i] * ((zmax - zmin) / 2) + (zmax + zmin) / 2


@opaque
def GL5(c, zmin, zmax):
    """the documented 5-point Gauss-Legendre sum of 1/E over [zmin, zmax]"""
    return sum(((zmax - zmin) / 2) * Einv(c, node5(c, i, zmin, zmax)) * c.w[i] for i in range(0, 5))


def Nodes5(c, zmin, zmax):
    """1/E is defined at the five nodes (E^2 > 0): true for every physical cosmology and z > -1"""
    return all(E2(c, node5(c, i, zmin, zmax)) > 0 for i in range(0, 5))


@opaque
def DcS(c, zmin, zmax):
    return c.DH * GL5(c, zmin, zmax)


@opaque
def DmS(c, zmin, zmax):
    """Hogg eq. 16 with the struct's curvature factor tcfac = sqrt(|Ok|)/DH"""
    return (DcS(c, zmin, zmax) if c.flat == 1 else
            (ufn("sinh", DcS(c, zmin, zmax) * c.tcfac) / c.tcfac if c.omega_k > 0 else
             ufn("sin", DcS(c, zmin, zmax) * c.tcfac) / c.tcfac))


@opaque
def DaS(c, zmin, zmax):
    return DmS(c, zmin, zmax) / (1 + zmax)


@opaque
def DlS(c, zmin, zmax):
    return DmS(c, zmin, zmax) * (1 + zmax)


@opaque
def dVS(c, z):
    """comoving volume element, Hogg eq. 28: DH (1+z)^2 Da^2 / E(z)"""
    return c.DH * DaS(c, 0, z) * DaS(c, 0, z) * Einv(c, z) * (1 + z) * (1 + z)


def node10(c, i, zmin, zmax):
    return c.vx[i] * ((zmax - zmin) / 2) + (zmax + zmin) / 2


@opaque
def VS(c, zmin, zmax):
    """4 pi times the documented 10-point Gauss-Legendre sum of the volume element"""
    return sum(((zmax - zmin) / 2) * dVS(c, node10(c, i, zmin, zmax)) * c.vw[i] for i in range(0, 10)) * 4.0 * 3.141592653589793


@opaque
def scinvS(c, zl, zs):
    return 0.0 if zs <= zl else DaS(c, zl, zs) * DaS(c, 0, zl) / DaS(c, 0, zs) * 6.015050454163015e-07


# definedness of each quantity (what the Python layer's domain 0 <= z, physical omegas guarantees; stated, not assumed away)
def PreE(c, z, _unused=0):
    return E2(c, z) > 0


def PreDc(c, zmin, zmax):
    return Nodes5(c, zmin, zmax)


def PreDa(c, zmin, zmax):
    return Nodes5(c, zmin, zmax) and zmax > -1


def PredV(c, z, _unused=0):
    return Nodes5(c, 0, z) and E2(c, z) > 0 and z > -1


def PreV(c, zmin, zmax):
    return all(PredV(c, node10(c, i, zmin, zmax)) for i in range(0, 10))


def PreScinv(c, zl, zs):
    return zl > -1 and (zs <= zl or (Nodes5(c, 0, zl) and Nodes5(c, 0, zs) and Nodes5(c, zl, zs) and DmS(c, 0, zs) != 0))


_SRC = "esutil/cosmology/cosmolib.c"
_INV = {"struct-invariant": "CosmoInv(c)"}


def _c(name, **kw):
    kw.setdefault("lang", "c")
    kw.setdefault("source", _SRC)
    kw.setdefault("runtime", False)
    kw.setdefault("props", ["C11", "C15"])
    return contract("esutil.cosmology.cosmolib_c." + name, **kw)


_c("ez_inverse", params=dict(c=COSMO, z="real"), returns="real",
   requires=dict(_INV, **{"defined": "PreE(c, z)"}),
   ensures={"equals-one-over-E": "result == Einv(c, z)", "positive": "result > 0"})

_c("ez_inverse_integral", params=dict(c=COSMO, zmin="real", zmax="real"), returns="real",
   requires=dict(_INV, **{"defined": "PreDc(c, zmin, zmax)"}),
   ensures={"is-the-5-point-Gauss-Legendre-sum-of-1/E": "result == GL5(c, zmin, zmax)"})

_c("Dc", params=dict(c=COSMO, zmin="real", zmax="real"), returns="real",
   requires=dict(_INV, **{"defined": "PreDc(c, zmin, zmax)"}),
   ensures={"DH-times-the-integral": "result == DcS(c, zmin, zmax)"})

_c("Dc#antisymmetric", params=dict(c=COSMO, zmin="real", zmax="real"), returns="real",
   requires=dict(_INV, **{"defined": "PreDc(c, zmin, zmax)", "reversed-defined": "PreDc(c, zmax, zmin)"}),
   ensures={"Dc(a,b)==-Dc(b,a)": "result == -DcS(c, zmax, zmin)"},
   asserts={"return#0:before": {
       "mirrored-nodes": "all(node5(c, i, zmax, zmin) == node5(c, 4 - i, zmin, zmax) for i in range(0, 5))",
       "mirrored-E2": "all(E2(c, node5(c, i, zmax, zmin)) == E2(c, node5(c, 4 - i, zmin, zmax)) for i in range(0, 5))",
       "mirrored-integrand": "all(Einv(c, node5(c, i, zmax, zmin)) == Einv(c, node5(c, 4 - i, zmin, zmax)) for i in range(0, 5))",
       "mirrored-terms": "all(((zmin - zmax) / 2) * Einv(c, node5(c, i, zmax, zmin)) * c.w[i]"
                         " == -(((zmax - zmin) / 2) * Einv(c, node5(c, 4 - i, zmin, zmax)) * c.w[4 - i]) for i in range(0, 5))",
       "mirrored-sum": "GL5(c, zmax, zmin) == -GL5(c, zmin, zmax)",
   }})

_c("Dm", params=dict(c=COSMO, zmin="real", zmax="real"), returns="real",
   requires=dict(_INV, **{"defined": "PreDc(c, zmin, zmax)"}),
   ensures={"Hogg-eq-16": "result == DmS(c, zmin, zmax)",
            "Dm==Dc-when-flat": "c.flat == 0 or result == DcS(c, zmin, zmax)"})

_c("Da", params=dict(c=COSMO, zmin="real", zmax="real"), returns="real",
   requires=dict(_INV, **{"defined": "PreDa(c, zmin, zmax)"}),
   ensures={"Da==Dm/(1+z)": "result == DaS(c, zmin, zmax)"})

_c("Dl", params=dict(c=COSMO, zmin="real", zmax="real"), returns="real",
   requires=dict(_INV, **{"defined": "PreDc(c, zmin, zmax)"}),
   ensures={"Dl==Dm(1+z)": "result == DlS(c, zmin, zmax)"})

_c("dV", params=dict(c=COSMO, z="real"), returns="real",
   requires=dict(_INV, **{"defined": "PredV(c, z)"}),
   ensures={"Hogg-eq-28": "result == dVS(c, z)"})

_c("V", params=dict(c=COSMO, zmin="real", zmax="real"), returns="real",
   requires=dict(_INV, **{"defined": "PreV(c, zmin, zmax)"}),
   ensures={"4pi-times-the-10-point-Gauss-Legendre-sum-of-dV": "result == VS(c, zmin, zmax)"})

_c("scinv", params=dict(c=COSMO, zl="real", zs="real"), returns="real",
   requires=dict(_INV, **{"defined": "PreScinv(c, zl, zs)"}),
   ensures={"zero-for-sources-at-or-in-front-of-the-lens": "zs > zl or result == 0",
            "Dls*Dl/Ds-times-4piG/c^2": "result == scinvS(c, zl, zs)"})


# ---------------------------------------------------------------------------------------------- the Python-visible wrappers
SELF = "obj:PyCosmoObject{cosmo:%s}" % COSMO
_WSRC = "esutil/cosmology/cosmolib_pywrap.c"
_WINV = {"struct-invariant": "CosmoInv(self.cosmo)"}
# family -> (spec function, definedness predicate, first/second argument stem)
_FAM = {"Dc": ("DcS", "PreDc", "zmin", "zmax"), "Dm": ("DmS", "PreDc", "zmin", "zmax"), "Da": ("DaS", "PreDa", "zmin", "zmax"),
        "Dl": ("DlS", "PreDc", "zmin", "zmax"), "scinv": ("scinvS", "PreScinv", "zl", "zs")}


def _w(name, **kw):
    kw.setdefault("lang", "c")
    kw.setdefault("source", _WSRC)
    kw.setdefault("runtime", False)
    kw.setdefault("props", ["C11", "C15"])
    return contract("esutil.cosmology.cosmolib_pywrap_c.PyCosmoObject_" + name, **kw)


def _vec(fam, S, P, a, b, mode):
    """contract of one vectorised wrapper: element-for-element the scalar definition"""
    A, B = a + "Obj", b + "Obj"
    if mode == "vec1":
        params, ea, eb, n = {A: "arr[real]", b: "real"}, A + "[k]", b, "len(%s)" % A
        extra = {}
    elif mode == "vec2":
        params, ea, eb, n = {a: "real", B: "arr[real]"}, a, B + "[k]", "len(%s)" % B
        extra = {}
    else:
        params, ea, eb, n = {A: "arr[real]", B: "arr[real]"}, A + "[k]", B + "[k]", "len(%s)" % A
        extra = {"same-length (checked by the Python dispatcher)": "len(%s) == len(%s)" % (A, B)}
    call = "%s(self.cosmo, %s, %s)" % (S, ea, eb)
    pre = "%s(self.cosmo, %s, %s)" % (P, ea, eb)
    _w("%s_%s" % (fam, mode), params=dict(dict(self=SELF), **params), returns="arr[real]",
       requires=dict(_WINV, **dict(extra, **{"defined-for-every-element": "all(%s for k in range(0, %s))" % (pre, n)})),
       ensures={"one-result-per-element": "len(result) == %s" % n,
                "element-for-element-the-scalar-result": "all(result[k] == %s for k in range(0, %s))" % (call, n)},
       loops={"L0": dict(inv={
           "progress": "0 <= i and i <= n and n == %s and len(resObj) == n" % n,
           "filled": "all(resObj[k] == %s for k in range(0, i))" % call}, dec="n - i")})


for _fam, (_S, _P, _a, _b) in _FAM.items():
    _w(_fam, params={"self": SELF, _a: "real", _b: "real"}, returns="real",
       requires=dict(_WINV, **{"defined": "%s(self.cosmo, %s, %s)" % (_P, _a, _b)}),
       ensures={"the-scalar-definition": "result == %s(self.cosmo, %s, %s)" % (_S, _a, _b)})
    for _mode in ("vec1", "vec2", "2vec"):
        _vec(_fam, _S, _P, _a, _b, _mode)

for _nm, _S, _P in (("ez_inverse", "Einv", "PreE"), ("dV", "dVS", "PredV")):
    _w(_nm, params=dict(self=SELF, z="real"), returns="real",
       requires=dict(_WINV, **{"defined": "%s(self.cosmo, z)" % _P}),
       ensures={"the-scalar-definition": "result == %s(self.cosmo, z)" % _S})
    _w(_nm + "_vec", params=dict(self=SELF, zObj="arr[real]"), returns="arr[real]",
       requires=dict(_WINV, **{"defined-for-every-element": "all(%s(self.cosmo, zObj[k]) for k in range(0, len(zObj)))" % _P}),
       ensures={"one-result-per-element": "len(result) == len(zObj)",
                "element-for-element-the-scalar-result": "all(result[k] == %s(self.cosmo, zObj[k]) for k in range(0, len(zObj)))" % _S},
       loops={"L0": dict(inv={
           "progress": "0 <= i and i <= n and n == len(zObj) and len(resObj) == n",
           "filled": "all(resObj[k] == %s(self.cosmo, zObj[k]) for k in range(0, i))" % _S}, dec="n - i")})

_w("ez_inverse_integral", params=dict(self=SELF, zmin="real", zmax="real"), returns="real",
   requires=dict(_WINV, **{"defined": "PreDc(self.cosmo, zmin, zmax)"}),
   ensures={"the-scalar-definition": "result == GL5(self.cosmo, zmin, zmax)"})
_w("V", params=dict(self=SELF, zmin="real", zmax="real"), returns="real",
   requires=dict(_WINV, **{"defined": "PreV(self.cosmo, zmin, zmax)"}),
   ensures={"the-scalar-definition": "result == VS(self.cosmo, zmin, zmax)"})


# ---------------------------------------------------------------------------------------------- cosmology.py
contract(
    "esutil.cosmology.cosmology.Cosmo.extract_parms",
    params=dict(self="opaque", omega_m="real", omega_l="real", omega_k="opt[real]", flat="bool"),
    ensures={
        "reported-flat-iff-no-curvature-given": "result[0] == (omega_k is None or omega_k == 0)",
        "omega_k-None-defaults-to-flat": "omega_k is not None or result[0]",
        "flat-forces-omega_k=0-and-omega_l=1-omega_m": "not result[0] or (result[3] == 0 and result[2] == 1 - omega_m)",
        "curved-keeps-the-given-values": "result[0] or (result[3] == omega_k and result[2] == omega_l)",
        "omega_m-kept": "result[1] == omega_m",
        "normal-form (re-normalising the result changes nothing: rebuilt and unpickled objects get the same struct)":
            "(result[3] == 0) == result[0] and (not result[0] or result[2] == 1 - result[1])",
    },
    props=["C11"], runtime=False,
)

PYSELF = "obj:Cosmo{_cosmo:%s}" % SELF
_DISP = {"Dc": ("DcS", "PreDc", "zmin", "zmax"), "Dm": ("DmS", "PreDc", "zmin", "zmax"), "Da": ("DaS", "PreDa", "zmin", "zmax"),
         "Dl": ("DlS", "PreDc", "zmin", "zmax"), "sigmacritinv": ("scinvS", "PreScinv", "zl", "zs")}

for _m, (_S, _P, _a, _b) in _DISP.items():
    _cc = "self._cosmo.cosmo"
    contract("esutil.cosmology.cosmology.Cosmo.%s#scalars" % _m, params={"self": PYSELF, _a: "real", _b: "real"},
             requires={"struct-invariant": "CosmoInv(%s)" % _cc, "defined": "%s(%s, %s, %s)" % (_P, _cc, _a, _b)},
             ensures={"the-scalar-definition": "result == %s(%s, %s, %s)" % (_S, _cc, _a, _b)},
             props=["C11", "C15"], runtime=False)
    contract("esutil.cosmology.cosmology.Cosmo.%s#array-scalar" % _m, params={"self": PYSELF, _a: "arr[real]", _b: "real"},
             requires={"struct-invariant": "CosmoInv(%s)" % _cc,
                       "defined": "all(%s(%s, %s[k], %s) for k in range(0, len(%s)))" % (_P, _cc, _a, _b, _a)},
             ensures={"element-for-element-the-scalar-result":
                      "len(result) == len(%s) and all(result[k] == %s(%s, %s[k], %s) for k in range(0, len(%s)))" % (_a, _S, _cc, _a, _b, _a),
                      "input-untouched": "arr_eq(%s, old(%s))" % (_a, _a)},
             props=["C11", "C15"], runtime=False)
    contract("esutil.cosmology.cosmology.Cosmo.%s#scalar-array" % _m, params={"self": PYSELF, _a: "real", _b: "arr[real]"},
             requires={"struct-invariant": "CosmoInv(%s)" % _cc,
                       "defined": "all(%s(%s, %s, %s[k]) for k in range(0, len(%s)))" % (_P, _cc, _a, _b, _b)},
             ensures={"element-for-element-the-scalar-result":
                      "len(result) == len(%s) and all(result[k] == %s(%s, %s, %s[k]) for k in range(0, len(%s)))" % (_b, _S, _cc, _a, _b, _b),
                      "input-untouched": "arr_eq(%s, old(%s))" % (_b, _b)},
             props=["C11", "C15"], runtime=False)
    contract("esutil.cosmology.cosmology.Cosmo.%s#arrays" % _m, params={"self": PYSELF, _a: "arr[real]", _b: "arr[real]"},
             requires={"struct-invariant": "CosmoInv(%s)" % _cc,
                       "defined": "len(%s) != len(%s) or all(%s(%s, %s[k], %s[k]) for k in range(0, len(%s)))" % (_a, _b, _P, _cc, _a, _b, _a)},
             raises=[("ValueError", "len(%s) != len(%s)" % (_a, _b), "iff")],
             ensures={"element-for-element-the-scalar-result":
                      "len(result) == len(%s) and all(result[k] == %s(%s, %s[k], %s[k]) for k in range(0, len(%s)))" % (_a, _S, _cc, _a, _b, _a),
                      "inputs-untouched": "arr_eq(%s, old(%s)) and arr_eq(%s, old(%s))" % (_a, _a, _b, _b)},
             props=["C11", "C15"], runtime=False)


# ---------------------------------------------------------------------------------------------- bounded stand-ins (labelled)
def _ref_quantities(pars, zmin, zmax):
    """independent evaluation: high-accuracy quadrature ('exact') and the documented fixed-order rules (5 / 10 points)"""
    import math
    import numpy as np
    from scipy import integrate
    flat, om, ol, ok, DH = pars

    def einv(z):
        return 1.0 / math.sqrt(om * (1 + z) ** 3 + ok * (1 + z) ** 2 + ol)

    def dc_exact(a, b):
        return DH * integrate.quad(einv, a, b, epsabs=0, epsrel=1e-13, limit=200)[0]

    x5, w5 = np.polynomial.legendre.leggauss(5)
    x10, w10 = np.polynomial.legendre.leggauss(10)

    def dc_gl(a, b):
        f1, f2 = (b - a) / 2.0, (b + a) / 2.0
        return DH * sum(f1 * einv(x * f1 + f2) * w for x, w in zip(x5, w5))

    def dm(dc):
        if flat:
            return dc
        t = math.sqrt(abs(ok)) / DH
        return math.sinh(dc * t) / t if ok > 0 else math.sin(dc * t) / t
    out = {}
    for tag, dcf in (("exact", dc_exact), ("gl", dc_gl)):
        dcv = dcf(zmin, zmax)
        dmv = dm(dcv)

        def dv(z, dcf=dcf):
            da0 = dm(dcf(0.0, z)) / (1 + z)
            return DH * (1 + z) ** 2 * da0 ** 2 * einv(z)
        if tag == "exact":
            vol = 4 * math.pi * integrate.quad(dv, zmin, zmax, epsabs=0, epsrel=1e-11, limit=200)[0]
        else:
            f1, f2 = (zmax - zmin) / 2.0, (zmax + zmin) / 2.0
            vol = 4 * math.pi * sum(f1 * dv(x * f1 + f2) * w for x, w in zip(x10, w10))
        if zmax <= zmin:
            sc = 0.0
        else:
            dl_, ds_, dls_ = dm(dcf(0, zmin)) / (1 + zmin), dm(dcf(0, zmax)) / (1 + zmax), dmv / (1 + zmax)
            sc = dls_ * dl_ / ds_ * 6.015050454163015e-07 if ds_ != 0 else float("nan")
        out[tag] = dict(Ez_inverse=einv(zmax), Dc=dcv, Dm=dmv, Da=dmv / (1 + zmax), Dl=dmv * (1 + zmax),
                        # undefined (not constrained) when the luminosity distance is not positive: a closed model whose
                        # comoving distance passes the antipode before zmax
                        distmod=(5 * math.log10(dm(dcf(0, zmax)) * (1 + zmax) * 1e6 / 10.0)
                                 if zmax > 0 and dm(dcf(0, zmax)) > 0 else None),
                        dV=dv(zmax), V=vol, sigmacritinv=sc)
    return out


def cosmo_matches_definitions(got, pars, zmin, zmax):
    """error <= 1.5 x the truncation error of the documented fixed-order rule (+ rounding)"""
    ref = _ref_quantities(pars, zmin, zmax)
    for k, v in got.items():
        ex, gl = ref["exact"][k], ref["gl"][k]
        if ex is None:
            continue
        scale = max(abs(ex), 1e-300)
        if abs(v - ex) > 1.5 * abs(gl - ex) + 2e-10 * scale:
            return False
    return True


def cosmo_identities(c, zmin, zmax):
    import numpy as np
    ok = True
    dm, da, dl, dc = c.Dm(zmin, zmax), c.Da(zmin, zmax), c.Dl(zmin, zmax), c.Dc(zmin, zmax)
    ok &= approx(da, dm / (1 + zmax), 1e-300) and approx(dl, dm * (1 + zmax), 1e-300)
    if c.flat():
        ok &= dm == dc
        ok &= c.omega_k() == 0 and approx(c.omega_l(), 1 - c.omega_m())
    ok &= approx(c.Dc(zmax, zmin), -dc, 1e-300)
    ok &= c.sigmacritinv(zmax, zmin) == 0.0 and c.sigmacritinv(zmax, zmax) == 0.0
    return bool(ok)


contract("esutil.cosmology.cosmology.Cosmo#definitions", params={}, assumed=True, runtime_name="esutil.cosmology.cosmology.Cosmo",
         why_assumed="bounded run-time stand-in: the size of the Gauss-Legendre truncation error and floating-point rounding are not "
                     "first-order obligations (which formula is computed is proved in cosmolib_c.* and the wrappers)",
         rt_ensures={"within-1.5x-the-truncation-error-of-the-documented-rule": "cosmo_matches_definitions(result, pars, zmin, zmax)"},
         props=["C11"])


def _cosmologies(tier, seed):
    import random
    rng = random.Random(seed)
    base = [dict(omega_m=0.3), dict(omega_m=0.27, omega_l=0.73, omega_k=0.0), dict(omega_m=1.0), dict(omega_m=0.3, omega_l=0.6, omega_k=0.1, flat=False),
            dict(omega_m=0.4, omega_l=0.9, omega_k=-0.3, flat=False), dict(omega_m=1.5, omega_l=0.0, omega_k=-0.5), dict(omega_m=0.05, omega_l=0.45, omega_k=0.5),
            dict(omega_m=0.3, h=0.7), dict(omega_m=0.25, H0=30.0), dict(omega_m=0.3, omega_l=0.1, omega_k=0.0, flat=False),
            dict(omega_m=0.3, omega_l=0.2, flat=True, omega_k=None)]
    for _ in range(6 if tier == "quick" else 200):
        om = rng.uniform(0.02, 1.5)
        if rng.random() < 0.4:
            base.append(dict(omega_m=om, H0=rng.uniform(30, 120)))
        else:
            ok = rng.uniform(-0.5, 0.5)
            ol = 1 - om - ok
            # physical cosmologies only (the statement's domain, the precondition E(z)^2 > 0 of every contract): no
            # "bounce" models whose E(z)^2 = om (1+z)^3 + ok (1+z)^2 + ol dips to or below zero somewhere in 0 <= z <= 6
            if min(om * (1 + z) ** 3 + ok * (1 + z) ** 2 + ol for z in [k * 0.01 for k in range(0, 601)]) < 0.05:
                continue
            base.append(dict(omega_m=om, omega_l=ol, omega_k=ok, flat=False, H0=rng.uniform(30, 120)))
    return base


def _pars_of(c):
    return (bool(c.flat()), c.omega_m(), c.omega_l(), c.omega_k(), c.DH())


@domain("esutil.cosmology.cosmology.Cosmo#definitions")
def _dom_cosmo_def(tier, seed):
    import random
    import esutil.cosmology as cosmology
    rng = random.Random(seed)
    for kw in _cosmologies(tier, seed):
        c = cosmology.Cosmo(**kw)
        pars = _pars_of(c)
        zs = [(0.0, 0.1), (0.0, 1.0), (0.5, 1.0), (0.0, 5.0), (2.0, 5.0), (0.3, 0.3)] + \
             [tuple(sorted((rng.uniform(0, 5), rng.uniform(0, 5)))) for _ in range(2 if tier == "quick" else 20)]
        for zmin, zmax in zs:
            def call(c=c, zmin=zmin, zmax=zmax):
                r = dict(Ez_inverse=c.Ez_inverse(zmax), Dc=c.Dc(zmin, zmax), Dm=c.Dm(zmin, zmax), Da=c.Da(zmin, zmax),
                         Dl=c.Dl(zmin, zmax), dV=c.dV(zmax), V=c.V(zmin, zmax), sigmacritinv=c.sigmacritinv(zmin, zmax))
                if zmax > 0:
                    r["distmod"] = c.distmod(zmax)
                return r
            yield dict(call=call, args=[], ghost=dict(pars=pars, zmin=zmin, zmax=zmax), key="%r z=%.3f..%.3f" % (kw, zmin, zmax))


contract("esutil.cosmology.cosmology.Cosmo#identities", params={}, assumed=True, runtime_name="esutil.cosmology.cosmology.Cosmo",
         why_assumed="bounded run-time stand-in: the identities are proved over the reals; 'to rounding' in doubles is checked here",
         rt_ensures={"exact-identities-hold-to-rounding": "cosmo_identities(c, zmin, zmax)"},
         props=["C11"])


@domain("esutil.cosmology.cosmology.Cosmo#identities")
def _dom_cosmo_ident(tier, seed):
    import esutil.cosmology as cosmology
    for kw in _cosmologies(tier, seed):
        c = cosmology.Cosmo(**kw)
        for zmin, zmax in [(0.0, 0.2), (0.1, 1.0), (0.0, 5.0), (1.5, 4.0)]:
            yield dict(call=(lambda: None), args=[], ghost=dict(c=c, zmin=zmin, zmax=zmax), key="%r %s %s" % (kw, zmin, zmax))


def cosmo_vectorised(c, name, a, b):
    """array-valued calls (either or both arguments; any dtype / layout / list) equal the scalar calls element for element"""
    import numpy as np
    f = getattr(c, name)
    exp = []
    aa = np.atleast_1d(np.asarray(a, dtype="f8")) if not np.isscalar(a) else None
    bb = np.atleast_1d(np.asarray(b, dtype="f8")) if not np.isscalar(b) else None
    n = len(aa) if aa is not None else len(bb)
    for k in range(n):
        x = float(aa[k]) if aa is not None else float(a)
        y = float(bb[k]) if bb is not None else float(b)
        exp.append(f(x, y))
    got = f(a, b)
    return isinstance(got, np.ndarray) and got.shape == (n,) and all(g == e or (g != g and e != e) for g, e in zip(got.tolist(), exp))


contract("esutil.cosmology.cosmology.Cosmo#vectorised", params={}, assumed=True, runtime_name="esutil.cosmology.cosmology.Cosmo",
         why_assumed="bounded run-time stand-in: dtype conversion, strides and list inputs are handled by numpy.asarray (assumed "
                     "contract); the element-for-element loop itself is proved for contiguous float64 arrays",
         rt_ensures={"element-for-element-the-scalar-results": "cosmo_vectorised(c, name, a, b)"},
         raises=[("ValueError", "mismatch", "iff")],
         props=["C11", "C15"])


@domain("esutil.cosmology.cosmology.Cosmo#vectorised")
def _dom_cosmo_vec(tier, seed):
    import numpy as np
    import esutil.cosmology as cosmology
    cs = [cosmology.Cosmo(omega_m=0.3), cosmology.Cosmo(omega_m=0.4, omega_l=0.9, omega_k=-0.3, flat=False)]
    base = np.array([0.1, 0.25, 0.5, 1.0, 2.0, 3.5])
    big = np.linspace(0.05, 4.0, 12)
    variants = [("f8", base), ("f4", base.astype("f4")), ("i8", np.array([0, 1, 2, 3, 4, 5])), ("list", list(base)),
                ("strided", big[::2]), ("reversed", base[::-1]), (">f8", base.astype(">f8")), ("len1", base[:1]),
                ("column", np.stack([big[:6], big[6:]], axis=1)[:, 1])]
    for c in cs:
        for name in ("Dc", "Dm", "Da", "Dl", "sigmacritinv"):
            for tag, arr in variants:
                n = len(arr)
                for a, b, kind in ((arr, 4.5, "array-scalar"), (0.01, arr, "scalar-array"), (np.asarray(arr, dtype="f8") * 0.1, arr, "arrays")):
                    yield dict(call=(lambda: None), args=[], ghost=dict(c=c, name=name, a=a, b=b, mismatch=False),
                               key="%s %s %s flat=%s" % (name, tag, kind, c.flat()))
            # pair lists as a lensing code builds them: grouped by lens (repeated first redshift), sources in front of, at and
            # behind the lens in any order, reversed pairs
            for tag, a, b in (("grouped", [0.2, 0.5, 0.5, 0.5, 0.9, 0.9], [0.8, 0.3, 0.9, 0.5, 0.1, 2.0]),
                              ("grouped2", [0.4, 0.4, 0.4, 1.0, 1.0], [0.4, 0.7, 0.2, 3.0, 1.0]),
                              ("wide", [0.0, 0.5, 0.0, 2.5, 5.0], [5.0, 4.0, 2.1, 0.1, 0.0])):
                yield dict(call=(lambda: None), args=[], ghost=dict(c=c, name=name, a=np.array(a), b=np.array(b), mismatch=False),
                           key="%s %s arrays flat=%s" % (name, tag, c.flat()))
            yield dict(call=(lambda c=c, name=name: getattr(c, name)(np.array([0.1, 0.2]), np.array([1.0, 2.0, 3.0]))), args=[],
                       ghost=dict(c=c, name=name, a=np.array([0.1]), b=np.array([0.2]), mismatch=True), key="%s mismatched lengths" % name)


def cosmo_same(c, d, zs):
    import numpy as np
    same = (c.H0() == d.H0() and c.DH() == d.DH() and c.flat() == d.flat() and c.omega_m() == d.omega_m()
            and c.omega_l() == d.omega_l() and c.omega_k() == d.omega_k())
    for name in ("Dc", "Dm", "Da", "Dl", "sigmacritinv"):
        same = same and bool(np.array_equal(getattr(c, name)(0.05, zs), getattr(d, name)(0.05, zs)))
    same = same and bool(np.array_equal(c.dV(zs), d.dV(zs))) and c.V(0.1, 2.0) == d.V(0.1, 2.0)
    return bool(same)


contract("esutil.cosmology.cosmology.Cosmo#copies", params={}, assumed=True, runtime_name="esutil.cosmology.cosmology.Cosmo",
         why_assumed="bounded run-time stand-in: pickle / copy protocols are CPython machinery; the normal-form property of "
                     "extract_parms that makes rebuilt objects identical is proved",
         rt_ensures={"same-parameters-and-bit-identical-distances": "cosmo_same(c, result, zs)"},
         props=["C11"])


@domain("esutil.cosmology.cosmology.Cosmo#copies")
def _dom_cosmo_copies(tier, seed):
    import copy
    import pickle
    import numpy as np
    import esutil.cosmology as cosmology
    zs = np.array([0.1, 0.7, 1.3, 4.0])
    for kw in _cosmologies(tier, seed):
        c = cosmology.Cosmo(**kw)
        for tag, mk in (("copy()", lambda c=c: c.copy()), ("copy.copy", lambda c=c: copy.copy(c)), ("deepcopy", lambda c=c: copy.deepcopy(c)),
                        ("pickle", lambda c=c: pickle.loads(pickle.dumps(c)))):
            yield dict(call=mk, args=[], ghost=dict(c=c, zs=zs), key="%r %s" % (kw, tag))
