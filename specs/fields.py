"""Contracts for the structured-array field operations of esutil.numpy_util  (property C07).

Model: a structured array is a list of named fields in order, each with an opaque symbolic type code (item type, size and
byte order), an opaque sub-array shape code and a column of symbolic cells of symbolic length; numpy's dtype algebra
(descr of a packed dtype, zeros(shape, dtype=descr), field read / field write, duplicate names rejected) is an assumed
contract.  Field *names* are concrete: every contract below is one name structure (which requested names exist, in which
order), enumerated over arrays of 1-3 fields and requests of 0-3 names, while types, shapes, lengths and data stay
symbolic.  Larger field lists, 0-d / 2-d arrays and real dtypes are covered by the bounded layer."""
from esvc.speclang import contract, domain

_SRC = {"a": "struct[a:int]", "ab": "struct[a:int,b:real]", "abc": "struct[a:int,b:real,c:int]"}


def _same_field(res, src, f):
    return ("arr_eq(field(%s, '%s'), field(%s, '%s')) and field_type(%s, '%s') == field_type(%s, '%s')"
            " and field_subshape(%s, '%s') == field_subshape(%s, '%s')" % (res, f, src, f, res, f, src, f, res, f, src, f))


def _result_is(fields, src="arr", res="result"):
    cl = {"field-list-is-exactly-the-documented-one": "field_names(%s) == %r" % (res, tuple(fields)),
          "same-shape": "len(%s) == len(%s)" % (res, src),
          "a-new-array": "not same_object(%s, %s)" % (res, src)}
    for f in fields:
        cl["field-%s-same-type-shape-order-and-data" % f] = _same_field(res, src, f)
    return cl


def _untouched(src, fields):
    return {"input-untouched": " and ".join("arr_eq(field(%s, '%s'), old(field(%s, '%s')))" % (src, f, src, f) for f in fields)}


def _req_type(req):
    if isinstance(req, str):
        return "const:%r" % req
    if isinstance(req, tuple):
        return "const:%r" % (req,)
    return "clist:%r" % (list(req),)


def _tag(req):
    if isinstance(req, str):
        return "'%s'" % req
    return ("t" if isinstance(req, tuple) else "l") + "(" + ",".join(req) + ")"


_REQS = ["a", "c", "z", ("a",), ("c", "a"), ["a", "c"], ["b", "z"], ("a", "b", "c"), ["c", "b", "a"], (), ["z"]]

# ------------------------------------------------------------------------------------------------ extract / remove / reorder
for _fs in ("abc", "a"):
    _fields = list(_fs)
    for _req in _REQS:
        _names = [_req] if isinstance(_req, str) else list(_req)
        _missing = [n for n in _names if n not in _fields]
        for _strict in (True, False):
            _kept = [f for f in _fields if f in _names]
            _bad = (_strict and _missing) or not _kept
            contract("esutil.numpy_util.extract_fields#%s:%s:%s" % (_fs, _tag(_req), "strict" if _strict else "lenient"),
                     runtime_name="esutil.numpy_util.extract_fields",
                     params=dict(arr=_SRC[_fs], keepnames=_req_type(_req), strict="const:%r" % _strict),
                     raises=[("ValueError", "True" if _bad else "False", "iff")],
                     ensures=dict(_result_is(_kept), **_untouched("arr", _fields)) if not _bad else {},
                     inline_calls=["copy_fields"],
                     props=["C07", "C15"])
            # reordering: named fields first in the order given, the rest after in original order
            _first = [n for n in _names if n in _fields]
            _dups = len(set(_first)) != len(_first)
            _order = _first + [f for f in _fields if f not in _first]
            _badr = bool(_strict and _missing)
            if not _dups:
                contract("esutil.numpy_util.reorder_fields#%s:%s:%s" % (_fs, _tag(_req), "strict" if _strict else "lenient"),
                         runtime_name="esutil.numpy_util.reorder_fields",
                         params=dict(arr=_SRC[_fs], ordered_names=_req_type(_req), strict="const:%r" % _strict),
                         raises=[("ValueError", "True" if _badr else "False", "iff")],
                         ensures=dict(_result_is(_order), **_untouched("arr", _fields)) if not _badr else {},
                         inline_calls=["copy_fields"],
                         props=["C07", "C15"])
        if not isinstance(_req, tuple):      # remove_fields documents a scalar name or a list
            _left = [f for f in _fields if f not in _names]
            contract("esutil.numpy_util.remove_fields#%s:%s" % (_fs, _tag(_req)),
                     runtime_name="esutil.numpy_util.remove_fields",
                     params=dict(arr=_SRC[_fs], rmnames=_req_type(_req)),
                     raises=[("ValueError", "False" if _left else "True", "iff")],
                     ensures=dict(_result_is(_left), **_untouched("arr", _fields)) if _left else {},
                     inline_calls=["copy_fields"],
                     props=["C07", "C15"])

# names that contain one another (a scalar request must be matched as a whole name, never as a substring)
_RRE = "struct[ra:int,ra_err:real,e:int]"
for _req in ("ra_err", "ra", "e", ["ra_err"], ["e", "ra"]):
    _names = [_req] if isinstance(_req, str) else list(_req)
    _fields = ["ra", "ra_err", "e"]
    contract("esutil.numpy_util.remove_fields#rre:%s" % _tag(_req), runtime_name="esutil.numpy_util.remove_fields",
             params=dict(arr=_RRE, rmnames=_req_type(_req)),
             ensures=dict(_result_is([f for f in _fields if f not in _names]), **_untouched("arr", _fields)),
             inline_calls=["copy_fields"], props=["C07", "C15"])
    contract("esutil.numpy_util.extract_fields#rre:%s" % _tag(_req), runtime_name="esutil.numpy_util.extract_fields",
             params=dict(arr=_RRE, keepnames=_req_type(_req), strict="const:True"),
             ensures=dict(_result_is([f for f in _fields if f in _names]), **_untouched("arr", _fields)),
             inline_calls=["copy_fields"], props=["C07", "C15"])

# ------------------------------------------------------------------------------------------------ add_fields
_ADD = [([("d", "f8")], None), ([("d", "f8"), ("e", "i4")], None), ([("d", "f8")], [2.5]), ([("d", "i8"), ("e", "f4")], [7, 0.5]),
        ([("d", "f8")], 3.0), ([("b", "f8")], None), ([("d", "f8"), ("a", "i4")], None), ([("d", "f8"), ("e", "i4")], [1.0])]
for _k, (_descr, _defaults) in enumerate(_ADD):
    _fields = list("ab")
    _newn = [d[0] for d in _descr]
    _exists = any(n in _fields for n in _newn)
    _dl = None if _defaults is None else (_defaults if isinstance(_defaults, list) else [_defaults])
    _badlen = _dl is not None and len(_dl) != len(_descr)
    _bad = _exists or _badlen
    _post = {}
    if not _bad:
        _post = dict(_result_is(_fields), **_untouched("arr", _fields))
        _post["field-list-is-exactly-the-documented-one"] = "field_names(result) == %r" % (tuple(_fields + _newn),)
        for _j, n in enumerate(_newn):
            _val = 0 if _dl is None else _dl[_j]
            _post["new-field-%s-%s" % (n, "zero-filled" if _dl is None else "set-to-its-default")] = \
                "all(field(result, '%s')[k] == %r for k in range(0, len(result)))" % (n, _val)
    contract("esutil.numpy_util.add_fields#%d" % _k, runtime_name="esutil.numpy_util.add_fields",
             params=dict(arr=_SRC["ab"], add_dtype_or_descr="clist:%r" % (_descr,),
                         defaults=("none" if _defaults is None else ("clist:%r" % (_defaults,) if isinstance(_defaults, list) else "const:%r" % _defaults))),
             raises=[("ValueError", "True" if _bad else "False", "iff")],
             ensures=_post, inline_calls=["copy_fields_by_name", "copy_fields"],
             props=["C07", "C15"])

# ------------------------------------------------------------------------------------------------ copy_fields / combine_fields
contract("esutil.numpy_util.copy_fields",
         params=dict(arr1="struct[a:int,b:real,c:int]", arr2="struct[c:int,z:real,a:int]"),
         raises=[("ValueError", "len(arr1) != len(arr2)", "iff")],
         ensures={"common-fields-copied": "arr_eq(field(arr2, 'a'), field(arr1, 'a')) and arr_eq(field(arr2, 'c'), field(arr1, 'c'))",
                  "other-fields-of-the-target-untouched": "arr_eq(field(arr2, 'z'), old(field(arr2, 'z')))",
                  "source-untouched": "arr_eq(field(arr1, 'a'), old(field(arr1, 'a'))) and arr_eq(field(arr1, 'b'), old(field(arr1, 'b')))"
                                      " and arr_eq(field(arr1, 'c'), old(field(arr1, 'c')))"},
         modifies=["arr2"],
         props=["C07", "C15"])

_COMB = [(["struct[a:int,b:real]", "struct[c:int]"], ["ab", "c"]), (["struct[a:int]", "struct[b:real]", "struct[c:int,d:real]"], ["a", "b", "cd"]),
         (["struct[a:int,b:real]", "struct[b:real]"], ["ab", "b"]), (["struct[a:int,b:real]"], ["ab"])]
for _k, (_types, _names) in enumerate(_COMB):
    _all = [f for grp in _names for f in grp]
    _shared = len(set(_all)) != len(_all)
    _post = {}
    if not _shared:
        _post = {"field-list-is-the-concatenation": "field_names(result) == %r" % (tuple(_all),),
                 "same-shape": "len(result) == len(arrlist[0])",
                 "a-new-array": " and ".join("not same_object(result, arrlist[%d])" % j for j in range(len(_types)))}
        for _j, grp in enumerate(_names):
            for f in grp:
                _post["field-%s-same-type-shape-order-and-data" % f] = _same_field("result", "arrlist[%d]" % _j, f)
    _sizes = " or ".join("len(arrlist[%d]) != len(arrlist[0])" % j for j in range(1, len(_types))) or "False"
    contract("esutil.numpy_util.combine_fields#%d" % _k, runtime_name="esutil.numpy_util.combine_fields",
             params=dict(arrlist="lst[%s]" % ",".join(_types)),
             raises=[("ValueError", ("True" if _shared else _sizes), "iff")] if not _shared else [("ValueError", "True", "iff")],
             ensures=_post, inline_calls=["copy_fields"],
             props=["C07", "C15"])


# ------------------------------------------------------------------------------------------------ bounded stand-in (labelled)
def _same_fields(res, src, names):
    import numpy as np
    for f in names:
        if res.dtype[f] != src.dtype[f] or res.dtype[f].base.byteorder != src.dtype[f].base.byteorder:
            return "type of %s" % f
        if res[f].shape != src[f].shape or not np.array_equal(res[f], src[f]):
            return "data of %s" % f
    return True


def fieldop_statement(op, arr, arg, extra, result):
    """the C07 statement evaluated directly for one call"""
    import numpy as np
    names = list(arr.dtype.names)
    req = [arg] if isinstance(arg, str) else [str(x) for x in arg] if op != "add" else None
    if op == "extract":
        exp = [f for f in names if f in req]
    elif op == "remove":
        exp = [f for f in names if f not in req]
    elif op == "reorder":
        first = [f for f in req if f in names]
        exp = first + [f for f in names if f not in first]
    elif op == "add":
        new = [d[0] for d in arg]
        exp = names + new
    if not isinstance(result, np.ndarray) or list(result.dtype.names) != exp or result.shape != arr.shape:
        return "field list / shape: %r" % (getattr(result, "dtype", None),)
    if np.shares_memory(result, arr):
        return "not a new array"
    r = _same_fields(result, arr, [f for f in exp if f in names])
    if r is not True:
        return r
    if op == "add":
        add_dt = np.dtype(arg)
        for j, (nm) in enumerate(new):
            if result.dtype[nm] != add_dt[nm]:
                return "type of new field %s" % nm
            want = np.zeros(arr.shape, dtype=add_dt[nm]) if extra is None else None
            if extra is None:
                if not np.array_equal(result[nm], want):
                    return "new field %s not zero-filled" % nm
            else:
                d = extra if isinstance(extra, list) else [extra]
                exp_col = np.zeros(arr.shape, dtype=add_dt[nm])
                exp_col[...] = d[j]
                if not np.array_equal(result[nm], exp_col):
                    return "new field %s not set to its default" % nm
    return True


contract("esutil.numpy_util#field-operations", params={}, assumed=True, runtime_name="esutil.numpy_util.extract_fields",
         why_assumed="bounded run-time stand-in on real numpy dtypes: 0-d / 2-d arrays, sub-array, bytes and unicode fields, both "
                     "byte orders, name lists given as scalar / list / tuple / array (numpy's dtype algebra is assumed by the proofs)",
         rt_ensures={"result-is-the-documented-array": "fieldop_statement(op, arr, arg, extra, result) is True"},
         raises=[("ValueError", "expect_error", "iff")],
         props=["C07", "C15"])


def _rand_struct(rng, np):
    types = ["i4", "f8", "i2", "u1", "S3", "U2", "f4", "c8", "b1", "i8"]
    nf = rng.randint(1, 5)
    order = rng.choice("<>")
    descr = []
    for j in range(nf):
        t = rng.choice(types)
        if t[0] in "ifuc" and t not in ("u1",):
            t = order + t
        elif t == "U2":
            t = order + t
        nm = rng.choice(["f%d" % j, "ra_%d" % j, "x%d" % j, "Ab%d" % j, "id%d" % j, "ra", "ra_err", "e", "id", "idx"])
        if nm in [d[0] for d in descr]:
            nm = "%s_%d" % (nm, j)
        if rng.random() < 0.25:
            descr.append((nm, t, rng.choice([(2,), (2, 2)])))
        else:
            descr.append((nm, t))
    shape = rng.choice([(), (3,), (4,), (2, 2), (1,)])
    a = np.zeros(shape, dtype=descr)
    for nm in a.dtype.names:
        f = a[nm]
        k = f.dtype.base.kind
        if k == "S":
            f[...] = rng.choice([b"ab", b"", b"xyz"])
        elif k == "U":
            f[...] = rng.choice(["ab", "", "q"])
        elif k == "b":
            f[...] = True
        else:
            f[...] = (np.arange(f.size).reshape(f.shape) * 3 + rng.randint(1, 50)).astype(f.dtype)
    return a


@domain("esutil.numpy_util#field-operations")
def _dom_fieldops(tier, seed):
    import random
    import numpy as np
    import esutil.numpy_util as nu
    rng = random.Random(seed)
    for _ in range(250 if tier == "quick" else 6000):
        arr = _rand_struct(rng, np)
        names = list(arr.dtype.names)
        op = rng.choice(["extract", "remove", "reorder", "add"])
        k = rng.randint(0, len(names))
        pick = rng.sample(names, k)
        if rng.random() < 0.25:
            pick.append("nosuchfield")
            rng.shuffle(pick)
        strict = rng.random() < 0.5
        form = rng.choice(["list", "tuple", "array", "scalar"]) if op != "remove" else rng.choice(["list", "scalar"])
        if form == "scalar":
            if not pick:
                continue
            pick = pick[:1]
            arg = pick[0]
        elif form == "tuple":
            arg = tuple(pick)
        elif form == "array":
            if not pick:
                continue
            arg = np.array(pick)
        else:
            arg = list(pick)
        missing = [p for p in pick if p not in names]
        extra = None
        if op == "extract":
            err = bool((strict and missing) or not [f for f in names if f in pick])
            call = (lambda arr=arr, arg=arg, strict=strict: nu.extract_fields(arr, arg, strict=strict))
        elif op == "remove":
            err = not [f for f in names if f not in pick]
            call = (lambda arr=arr, arg=arg: nu.remove_fields(arr, arg))
        elif op == "reorder":
            if len(set(pick)) != len(pick):
                continue
            err = bool(strict and missing)
            call = (lambda arr=arr, arg=arg, strict=strict: nu.reorder_fields(arr, arg, strict=strict))
        else:
            nnew = rng.randint(1, 3)
            arg = [("new%d" % j, rng.choice(["f8", "i4", ">i2", "S4", "f4"])) + (((2,),) if rng.random() < 0.2 else ()) for j in range(nnew)]
            if rng.random() < 0.2:
                arg[0] = (names[0],) + tuple(arg[0][1:])
                if rng.random() < 0.6:
                    # an existing name is rejected whatever type is asked for, the field's own type included
                    j = rng.randrange(len(names))
                    arg[rng.randrange(len(arg))] = tuple(x for x in arr.dtype.descr if x[0] == names[j])[0]
            err = any(d[0] in names for d in arg)
            if rng.random() < 0.5:
                extra = [(b"zz" if d[1] == "S4" else rng.randint(1, 9)) for d in arg]
                if rng.random() < 0.15:
                    extra = extra[:-1] or [1, 2]
                    err = err or len(extra) != len(arg)
                elif len(extra) == 1 and rng.random() < 0.5:
                    extra = extra[0]
            call = (lambda arr=arr, arg=arg, extra=extra: nu.add_fields(arr, arg, defaults=extra))
        yield dict(call=call, args=[], ghost=dict(op=op, arr=arr, arg=arg, extra=extra, expect_error=err),
                   key="%s %s %r strict=%s" % (op, arr.dtype.descr, arg, strict))


def combine_statement(arrs, result):
    import numpy as np
    exp = [f for a in arrs for f in a.dtype.names]
    if list(result.dtype.names) != exp or result.shape != arrs[0].shape:
        return "field list / shape"
    if any(np.shares_memory(result, a) for a in arrs):
        return "not a new array"
    for a in arrs:
        r = _same_fields(result, a, a.dtype.names)
        if r is not True:
            return r
    return True


contract("esutil.numpy_util.combine_fields#statement", params={}, assumed=True, runtime_name="esutil.numpy_util.combine_fields",
         why_assumed="bounded run-time stand-in on real numpy arrays (1..4 arrays, 0-d / 1-d / 2-d)",
         rt_ensures={"concatenated-field-lists-same-data": "combine_statement(arrs, result) is True"},
         raises=[("ValueError", "expect_error", "iff")],
         props=["C07", "C15"])


@domain("esutil.numpy_util.combine_fields#statement")
def _dom_combine(tier, seed):
    import random
    import numpy as np
    import esutil.numpy_util as nu
    rng = random.Random(seed + 5)
    for _ in range(120 if tier == "quick" else 3000):
        n = rng.randint(1, 4)
        shape = rng.choice([(), (3,), (2, 2), (5,)])
        arrs = []
        for j in range(n):
            a = _rand_struct(rng, np)
            descr = [("a%d_%s" % (j, d[0]),) + tuple(d[1:]) for d in a.dtype.descr]
            b = np.zeros(shape, dtype=descr)
            for nm in b.dtype.names:
                if b[nm].dtype.base.kind in "iuf":
                    b[nm][...] = rng.randint(1, 90)
            arrs.append(b)
        err = False
        kind = rng.random()
        if kind < 0.15 and n >= 2:
            arrs[1] = np.zeros(shape + (2,) if shape else (2,), dtype=arrs[1].dtype)      # different size
            err = True
        elif kind < 0.3 and n >= 2:
            d0 = arrs[0].dtype.descr[0]
            arrs[1] = np.zeros(shape, dtype=[d0] + arrs[1].dtype.descr)                    # shared name
            err = True
        form = rng.choice([list, tuple])
        yield dict(call=(lambda arrs=arrs, form=form: nu.combine_fields(form(arrs))), args=[], ghost=dict(arrs=arrs, expect_error=err),
                   key="%d arrays shape=%s err=%s" % (n, shape, err))


def copy_split_statement(a, b, names_copied, split_names, got_split):
    import numpy as np
    for f in names_copied:
        if not np.array_equal(b[f], a[f]):
            return "copy of %s" % f
    for f, v in zip(split_names, got_split):
        if not (np.shares_memory(v, a) or v.size == 0) or not np.array_equal(v, a[f]):
            return "split view %s" % f
    return len(got_split) == len(split_names)


contract("esutil.numpy_util.copy_fields#statement", params={}, assumed=True, runtime_name="esutil.numpy_util.copy_fields",
         why_assumed="bounded run-time stand-in on real numpy arrays for copy_fields and split_fields",
         rt_ensures={"per-field-equality": "copy_split_statement(a, b, common, split_names, result) is True"},
         props=["C07"])


@domain("esutil.numpy_util.copy_fields#statement")
def _dom_copysplit(tier, seed):
    import random
    import numpy as np
    import esutil.numpy_util as nu
    rng = random.Random(seed + 9)
    for _ in range(100 if tier == "quick" else 2000):
        a = _rand_struct(rng, np)
        names = list(a.dtype.names)
        keep = rng.sample(names, rng.randint(1, len(names)))
        descr_b = [d for d in a.dtype.descr if d[0] in keep] + [("only_b", "f8")]
        rng.shuffle(descr_b)
        b = np.zeros(a.shape, dtype=descr_b)
        sp = rng.sample(names, rng.randint(1, len(names)))

        def call(a=a, b=b, sp=sp):
            nu.copy_fields(a, b)
            return nu.split_fields(a, fields=sp)
        yield dict(call=call, args=[], ghost=dict(a=a, b=b, common=keep, split_names=sp), key="%s -> %s split %s" % (a.dtype.names, keep, sp))
