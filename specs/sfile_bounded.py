"""Properties C01, C03, C04: the record-file statements evaluated on real files.

The deciding code of these three properties is C++ (records.cpp: fwrite/fread of the table buffer, printf/scanf of the text
form, the in-place rewrite of the SIZE line) behind Python glue.  The glue that carries the statements - compatibility check,
row-count bookkeeping, header key handling, write order - is under proved contracts in sfile_format.py; the C++ I/O is outside
the reach of the generator (FILE*, printf, scanf) and is covered here by *bounded, labelled* statement oracles that write real
files in a scratch directory and compare bytes.  Nothing in this file is counted as proved."""
from esvc.speclang import contract, domain

NUM = ["i1", "u1", "i2", "u2", "i4", "u4", "i8", "u8", "f4", "f8"]
BIN_EXTRA = ["?", "c8", "c16"]
SHAPES = [None, (3,), (2, 2), (2, 1, 2)]


def _scratch(tag):
    import os
    d = os.environ.get("ESVC_SCRATCH", "/var/tmp")
    return os.path.join(d, "esvc-sfile-%d-%s.rec" % (os.getpid(), tag))


def _fill(np, rng, dt, n, text):
    """n rows of dtype dt with extreme and ordinary cell values (text=True: only values the text form can carry)"""
    out = np.zeros(n, dtype=dt)
    for name in dt.names:
        fdt = dt[name].base
        shape = (n,) + dt[name].shape
        cnt = int(np.prod(shape))
        k = fdt.kind
        if k in "iu":
            info = np.iinfo(fdt)
            pool = [info.min, info.max, 0, 1, info.max // 3, info.min // 3 if info.min else 7]
            vals = [pool[rng.randrange(len(pool))] if rng.random() < 0.5 else rng.randint(info.min, info.max) for _ in range(cnt)]
            col = np.array(vals, dtype=fdt.newbyteorder("=")).reshape(shape)
        elif k == "f":
            special = [0.0, -0.0, float("inf"), float("-inf"), float("nan"), 1.0, -1.0]
            fin = np.finfo(fdt)
            lo, hi = (-37, 38) if fdt.itemsize == 4 else (-307, 308)
            vals = []
            for _ in range(cnt):
                r = rng.random()
                if r < 0.3:
                    vals.append(special[rng.randrange(len(special))])
                elif r < 0.4:
                    # just inside the largest finite value (the largest one itself: clause largest-finite-values, C04)
                    vals.append(float(fin.max) * (1 - 2.0 ** -18 if text else 1) * rng.choice([1, -1]))
                elif r < 0.5:
                    vals.append(float(fin.tiny) * rng.choice([1, -1]))
                else:
                    vals.append(rng.uniform(-10, 10) * 10.0 ** rng.randint(lo + 2, hi - 2))
            col = np.array(vals, dtype="f8").astype(fdt.newbyteorder("=")).reshape(shape)
            if not text:
                # NaN payloads: raw bit patterns
                raw = col.view("u%d" % fdt.itemsize).reshape(-1)
                for j in range(raw.size):
                    if rng.random() < 0.1:
                        raw[j] = (0x7fc00001 + rng.randrange(1000)) if fdt.itemsize == 4 else (0x7ff8000000000001 + rng.randrange(1000))
        elif k == "c":
            half = "f%d" % (fdt.itemsize // 2)
            re = np.array([rng.choice([0.0, -0.0, float("nan"), float("inf"), rng.uniform(-1e10, 1e10)]) for _ in range(cnt)], dtype=half)
            im = np.array([rng.choice([0.0, -0.0, float("-inf"), rng.uniform(-1e-10, 1e-10)]) for _ in range(cnt)], dtype=half)
            col = (re + 1j * im).astype(fdt.newbyteorder("=")).reshape(shape)
        elif k == "b":
            col = np.array([rng.random() < 0.5 for _ in range(cnt)]).reshape(shape)
        elif k == "S":
            w = fdt.itemsize
            vals = []
            for _ in range(cnt):
                if text:
                    # ASCII without newlines: empty, leading / embedded / trailing spaces, delimiter characters
                    # and the characters other text formats give a meaning to (comment marks, quotes, escapes)
                    alphabet = "ab Z9 ,:;|\t.-+e#\"'%!/\\*=&"
                    ln = rng.choice([0, w, w, rng.randint(0, w)])
                    s = "".join(rng.choice(alphabet) for _ in range(ln))
                    if s and rng.random() < 0.15:
                        s = rng.choice("#%!/\"';") + s[1:]
                    if ln == w and rng.random() < 0.3:
                        s = " " * w
                    vals.append(s.encode("ascii"))
                else:
                    vals.append(bytes(rng.choice([0, 0, 32, 65, 10, 255, rng.randrange(256)]) for _ in range(w)))
            col = np.array(vals, dtype="S%d" % w).reshape(shape)
            if not text:
                raw = np.frombuffer(b"".join(v.ljust(w, b"\0") for v in vals), dtype="S%d" % w).reshape(shape)
                col = raw.copy()
        else:
            raise ValueError(fdt)
        out[name] = col
    return out


def leading_ws_after_number(np, t, delim, appended=True):
    """cells (row, field, element) of byte-string fields that the text reader reaches straight after a numeric cell scanned
    with a whitespace-skipping scanf directive: with a tab delimiter every string cell after a numeric one, with the other
    non-blank delimiters the first cell of a row when the previous row ends with a number"""
    out = []
    if delim == " " or delim is None:
        return out
    kinds = [(n, t.dtype[n].base.kind, int(np.prod(t.dtype[n].shape, dtype=int))) for n in t.dtype.names]
    for r in range(t.size):
        prev_numeric = kinds[-1][1] != "S" and (r > 0 or appended)     # an appended chunk follows the rows already there
        first = True
        for n, k, nel in kinds:
            for e in range(nel):
                if k == "S":
                    if prev_numeric and (delim == "\t" or first):
                        out.append((r, n, e))
                    prev_numeric = False
                else:
                    prev_numeric = True
                first = False
    return out


def keep_clear_of_known_findings(np, t, delim):
    """the main text domain leaves out the two input classes recorded as known findings (they have their own clauses):
    leading whitespace in a string cell read straight after a number"""
    t = t.copy()
    for r, n, e in leading_ws_after_number(np, t, delim):
        idx = (r,) + tuple(int(i) for i in np.unravel_index(e, t.dtype[n].shape or (1,)))[:len(t.dtype[n].shape)]
        v = bytes(t[n][idx])
        k = 0
        while k < len(v) and v[k:k + 1] in (b" ", b"\t"):
            k += 1
        if k < len(v) and v[k:k + 1] == delim.encode():
            k += 1         # the scan format ends with the delimiter as a literal: one leading delimiter character goes too
        if k:
            t[n][idx] = b"_" * k + v[k:]
    return t


def _rand_dtype(np, rng, kinds, maxshape, names=None, nfields=None):
    nf = nfields or rng.randint(1, 6)
    names = names or ["f%d" % i for i in range(nf)]
    descr = []
    for nm in names[:nf] if len(names) >= nf else names:
        t = rng.choice(kinds)
        if t == "S":
            t = "S%d" % rng.randint(1, 12)
        order = rng.choice("<>")
        code = t if t[0] in "S?" or t in ("i1", "u1") else order + t
        shp = rng.choice(SHAPES[:maxshape])
        descr.append((nm, code) if shp is None else (nm, code, shp))
    return np.dtype(descr)


def concat(np, chunks):
    """concatenation that keeps the declared dtype (np.concatenate converts to native order); chunks with more than one axis
    contribute all their elements, in C order"""
    out = np.zeros(sum(c.size for c in chunks), dtype=chunks[0].dtype)
    k = 0
    for c in chunks:
        out[k:k + c.size] = np.ascontiguousarray(c).reshape(-1)
        k += c.size
    return out


def same_rows(np, got, want, exact_dtype=True):
    """identical field names, per-field types, sub-array shapes, byte order, and identical bytes in every row"""
    if not isinstance(got, np.ndarray):
        return "not an array: %r" % type(got)
    if exact_dtype and got.dtype.descr != want.dtype.descr:
        return "dtype %s instead of %s" % (got.dtype.descr, want.dtype.descr)
    if got.shape != want.shape:
        return "shape %s instead of %s" % (got.shape, want.shape)
    if np.ascontiguousarray(got).tobytes() != np.ascontiguousarray(want).tobytes():
        for i in range(want.size):
            if np.ascontiguousarray(got[i:i + 1]).tobytes() != np.ascontiguousarray(want[i:i + 1]).tobytes():
                return "row %d differs: %r instead of %r" % (i, got[i], want[i])
        return "bytes differ"
    return True


def header_ok(np, hdr, user, table, delim=None):
    import math

    def eq(a, b):
        if isinstance(a, float) and isinstance(b, float) and math.isnan(a) and math.isnan(b):
            return True
        if type(a) is not type(b):
            return False
        if isinstance(a, (list, tuple)):
            return len(a) == len(b) and all(eq(x, y) for x, y in zip(a, b))
        if isinstance(a, dict):
            return list(a.keys()) == list(b.keys()) or (set(a) == set(b)) and all(eq(a[k], b[k]) for k in a)
        if isinstance(a, float):
            return a == b and math.copysign(1, a) == math.copysign(1, b)
        return a == b
    reserved = {"_size", "_nrows", "_delim", "_shape", "_has_fields", "_dtype", "_version"}
    for k, v in (user or {}).items():
        if k.lower() in reserved:
            continue
        if k not in hdr:
            return "user key %r lost" % (k,)
        if not eq(hdr[k], v):
            return "user key %r: %r instead of %r" % (k, hdr[k], v)
    if hdr.get("_SIZE") != table.size:
        return "_SIZE %r instead of %d" % (hdr.get("_SIZE"), table.size)
    try:
        dt = np.dtype(hdr["_DTYPE"])
    except Exception as e:
        return "_DTYPE does not reconstruct: %s" % e
    if delim is None:
        if dt != table.dtype or dt.descr != table.dtype.descr:
            return "_DTYPE %s instead of %s" % (dt.descr, table.dtype.descr)
        if "_DELIM" in hdr:
            return "_DELIM in a binary file"
    else:
        if hdr.get("_DELIM") != delim:
            return "_DELIM %r instead of %r" % (hdr.get("_DELIM"), delim)
        for d in hdr["_DTYPE"]:
            if d[1][0] in "<>=":
                return "byte order left in the text header: %r" % (d,)
        if dt.names != table.dtype.names or any(dt[n].shape != table.dtype[n].shape or dt[n].base.newbyteorder("=") != table.dtype[n].base.newbyteorder("=")
                                                for n in dt.names):
            return "_DTYPE %s does not describe %s" % (dt.descr, table.dtype.descr)
    return True


ENTRY_POINTS = ["sfile.write/read", "SFile", "SFile[]", "Recfile+nrows", "Recfile", "recfile.write/read", "io.write/read", "io.read dtype=",
                "SFile reused"]


def roundtrip_statement(table, header, entry):
    """C01 for one table, one user header and one entry point"""
    import os
    import numpy as np
    import esutil.sfile as sfile
    import esutil.recfile as recfile
    import esutil.io as eio
    fn = _scratch("c01")
    want = table.copy()
    user = None if header is None else eval(repr(header))
    try:
        hdr = None
        if entry == "sfile.write/read":
            sfile.write(table, fn, header=header)
            got, hdr = sfile.read(fn, header=True)
        elif entry == "SFile":
            with sfile.SFile(fn, mode="w") as sf:
                sf.write(table, header=header)
            with sfile.SFile(fn) as sf:
                got = sf.read()
                hdr = sf.get_header()
                if sf.get_nrows() != table.size:
                    return "get_nrows %r" % sf.get_nrows()
        elif entry == "SFile reused":
            # one handle object, used for another file first (a different table with its own header), then opened again
            other = np.zeros(3, dtype=[("q", "<f4"), ("r", "S2")])
            fn0 = fn + ".first"
            sf = sfile.SFile()
            try:
                sf.open(fn0, mode="w")
                sf.write(other, header={"first": 1})
                sf.close()
                sf.open(fn0, mode="r")
                sf.read()
                sf.open(fn, mode="w")
                sf.write(table, header=header)
                sf.close()
                sf.open(fn, mode="r")
                got = sf.read()
                hdr = sf.get_header()
                sf.close()
            finally:
                if os.path.exists(fn0):
                    os.remove(fn0)
        elif entry == "SFile[]":
            with sfile.SFile(fn, mode="w") as sf:
                sf.write(table, header=header)
            with sfile.SFile(fn) as sf:
                got = sf[:]
                hdr = sf.get_header()
        elif entry == "Recfile+nrows":
            with recfile.Recfile(fn, mode="w") as r:
                r.write(table)
            with recfile.Recfile(fn, mode="r", dtype=table.dtype, nrows=table.size) as r:
                got = r.read()
        elif entry == "Recfile":
            with recfile.Recfile(fn, mode="w") as r:
                r.write(table)
            with recfile.Recfile(fn, mode="r", dtype=table.dtype) as r:
                got = r.read()
            if os.path.getsize(fn) != table.size * table.dtype.itemsize:
                return "file size %d for %d rows of %d bytes" % (os.path.getsize(fn), table.size, table.dtype.itemsize)
        elif entry == "recfile.write/read":
            recfile.write(fn, table)
            got = recfile.read(fn, table.dtype)
        elif entry == "io.write/read":
            eio.write(fn, table, header=header)
            got, hdr = eio.read(fn, header=True)
        elif entry == "io.read dtype=":
            recfile.write(fn, table)
            got = eio.read(fn, dtype=table.dtype, type="rec")
        else:
            return "unknown entry point"
        r = same_rows(np, got, np.ascontiguousarray(want).reshape(-1))
        if r is not True:
            return r
        r = same_rows(np, table, want)
        if r is not True:
            return "the caller's table changed: %s" % r
        if hdr is not None:
            r = header_ok(np, hdr, user, want)
            if r is not True:
                return r
            raw = open(fn, "rb").read()
            if not raw.endswith(np.ascontiguousarray(want).tobytes()):
                return "the raw bytes after the header are not the table's bytes"
            head = raw[:len(raw) - want.size * want.dtype.itemsize]
            if not head.endswith(b"END\n\n"):
                return "header does not finish with END and a blank line: %r" % head[-20:]
        if header is not None and user != header and repr(user) != repr(header):
            return "the caller's header dict changed"
        return True
    finally:
        if os.path.exists(fn):
            os.remove(fn)


contract("esutil.sfile#roundtrip", params={}, assumed=True, runtime_name="esutil.sfile.write",
         why_assumed="bounded statement oracle (labelled): fwrite/fread of the table buffer and the byte-by-byte header scan are "
                     "C++ behind FILE*, outside the reach of the VC generator; the Python glue is under the contracts of sfile_format.py",
         rt_ensures={"read-back-equals-written-table": "roundtrip_statement(table, header, entry) is True"},
         props=["C01"])

_HEADERS = [
    None,
    {},
    {"date": "2007-05-12", "age": 33},
    {"note": "the END of the run", "END": 1, "x": "SIZE = 3"},
    {"END": "END", "nested": {"END": ["END", ("END",)], "k": None}, "q": "it's \"quoted\" \\ back"},
    {"lines": "first\nEND\nsecond\n\n", "tab": "a\tb", "b": b"raw\x00bytes\nEND\n", "t": True, "f": False},
    {"pi": 3.141592653589793, "big": 10 ** 30, "neg": -1.5e-300, "lst": [1, 2.5, "three", None, [4, (5, 6)]], "tup": (1,), "empty": "", "d": {}},
    {"café": "αβγ END", "uni": "naïve ☃"},
    {"delim": ",", "dtype": "user", "size": 99, "Size": 3, "DTYPE": [("z", "f4")], "version": "x", "_mykey": 5},
    {"_size": 77, "_NROWS": 5, "_delim": ":", "_SHAPE": (3,), "_has_fields": False, "keep": 1},
    {"k" + str(i): "v" * i for i in range(40)},
    {"long": "x" * 500, "key with spaces": 1, "key:colon": 2, "'quote'": 3},
    # values whose own keys are not strings: they come back as they were written
    {"ccd": {1: "north", 2: "south", 10: "focus"}, "lookup": [{(0, 1): 2.5, None: "missing"}, {b"k": True}], "m": {1.5: {2: {3: "deep"}}, True: 0}},
]


@domain("esutil.sfile#roundtrip")
def _dom_roundtrip(tier, seed):
    import random
    import numpy as np
    rng = random.Random(seed + 11)
    kinds = NUM + BIN_EXTRA + ["S", "S"]
    fixed = [
        np.dtype([("a", "<i4"), ("b", ">f8"), ("c", "S5")]),
        np.dtype([("ENDx", "<i2"), ("xEND", ">u8", (3,)), ("END", "S3"), ("SIZE", "?")]),
        np.dtype([("x", ">c16", (2, 2)), ("y", "<c8"), ("z", ">f4", (2, 1, 2))]),
        np.dtype([("only", "u1")]),
        np.dtype([("s", "S1"), ("t", "S12", (2,))]),
        np.dtype([("blend_flag", "<i8"), ("gender", ">i8"), ("trend", "f4")]),
    ]
    ntab = 4 if tier == "quick" else 60
    tables = []
    for dt in fixed + [_rand_dtype(np, rng, kinds, 4) for _ in range(ntab)]:
        n = rng.choice([1, 1, 2, 5, 17])
        tables.append(_fill(np, rng, dt, n, text=False))
    # layouts: strided view, a single row, a column-sliced view of a wider table is not a packed dtype (outside the statement)
    # more than a mebibyte of rows whose size does not divide 2**20 (block-wise writers / readers)
    big = np.zeros(200003, dtype=[("k", "u1"), ("v", "<i2", (3,))])
    big["k"] = np.arange(big.size) % 251
    big["v"] = (np.arange(big.size * 3).reshape(-1, 3) * 7919) % 65521 - 32000
    tables.append(big)
    base = _fill(np, rng, fixed[0], 12, text=False)
    tables.append(base[::2])
    tables.append(base[3:4])
    tables.append(base[::-1])
    tables.append(base.copy().reshape(4, 3))          # an array of records with two axes: twelve rows
    tables.append(base.copy().reshape(2, 3, 2)[:, 1:, :])
    k = 0
    for ti, t in enumerate(tables):
        for ei, entry in enumerate(ENTRY_POINTS):
            if tier == "quick":
                hs = [_HEADERS[(ti + ei) % len(_HEADERS)], _HEADERS[(ti * 3 + ei + 5) % len(_HEADERS)]]
            else:
                hs = _HEADERS
            if entry.startswith("Recfile") or entry.startswith("recfile") or entry == "io.read dtype=":
                hs = [None]
            if t.size > 100000:
                hs = hs[:1]
            for h in hs:
                k += 1
                yield dict(call=(lambda: None), args=[], ghost=dict(table=t, header=h, entry=entry),
                           key="table %d %s / header %d / %s" % (ti, t.dtype.descr, _HEADERS.index(h), entry))


# ------------------------------------------------------------------------------------------------ C03
def history_statement(ops, delim):
    """C03 for one history.  ops: list of (kind, chunk, header) with kind in create / again / close / append / overwrite /
    bad-append / handle-append (r+ handle, several writes) ; after every step the file is read back and compared with the model"""
    import os
    import numpy as np
    import esutil.sfile as sfile
    fn = _scratch("c03")
    if os.path.exists(fn):
        os.remove(fn)
    # the name the library is given: the literal path, or a shortcut that the library expands ($VAR/..., ~/...)
    style = (len(ops) + sum(int(c.size) for _, c, _ in ops if c is not None)) % 3
    saved_env = {k: os.environ.get(k) for k in ("HOME", "ESVC_C03_DIR")}
    os.environ["ESVC_C03_DIR"] = os.path.dirname(fn)
    if style == 2:
        os.environ["HOME"] = os.path.dirname(fn)
    name = [fn, "$ESVC_C03_DIR/" + os.path.basename(fn), "~/" + os.path.basename(fn)][style]
    model = None      # list of chunks
    mhdr = None
    sf = None

    def cat():
        return concat(np, model)

    def readback(step):
        data, hdr = sfile.read(fn, header=True)
        want = cat()
        if delim is None:
            r = same_rows(np, data, want)
        else:
            r = text_equal(np, data, want)
        if r is not True:
            return "after step %d (%s): %s" % (step, ops[step][0], r)
        r = header_ok(np, hdr, mhdr, want, delim)
        if r is not True:
            return "after step %d (%s): %s" % (step, ops[step][0], r)
        h2 = sfile.read_header(fn)
        if h2.get("_SIZE") != want.size:
            return "after step %d: read_header _SIZE %r instead of %d" % (step, h2.get("_SIZE"), want.size)
        return True
    try:
        for step, (kind, chunk, header) in enumerate(ops):
            if kind == "create":
                if sf is not None:
                    sf.close()
                sf = sfile.SFile(name, mode="w", delim=delim)
                sf.write(chunk, header=header)
                model, mhdr = [chunk.copy()], header
            elif kind == "again":
                if sf is None:
                    sf = sfile.SFile(name, mode="r+", delim=delim)
                sf.write(chunk)
                model.append(chunk.copy())
            elif kind == "close":
                if sf is not None:
                    sf.close()
                    sf = None
            elif kind == "append":
                if sf is not None:
                    sf.close()
                    sf = None
                existed = os.path.exists(fn)
                sfile.write(chunk, name, append=True, delim=delim, header=header)
                if existed and model is not None:
                    model.append(chunk.copy())
                else:
                    model, mhdr = [chunk.copy()], header
            elif kind == "remove":
                if sf is not None:
                    sf.close()
                    sf = None
                if os.path.exists(fn):
                    os.remove(fn)
                model, mhdr = None, None
                continue
            elif kind == "overwrite":
                if sf is not None:
                    sf.close()
                    sf = None
                sfile.write(chunk, name, delim=delim, header=header)
                model, mhdr = [chunk.copy()], header
            elif kind in ("bad-append", "bad-again"):
                if kind == "bad-append" and sf is not None:
                    sf.close()
                    sf = None
                if sf is not None:
                    sf.fobj.flush() if hasattr(sf, "fobj") and sf.fobj is not None else None
                before = open(fn, "rb").read()
                try:
                    if kind == "bad-append":
                        sfile.write(chunk, name, append=True, delim=delim)
                    else:
                        sf.write(chunk)
                except (ValueError, TypeError, RuntimeError):
                    pass
                else:
                    return "step %d: the incompatible append %s onto %s was not rejected" % (step, chunk.dtype.descr, model[0].dtype.descr)
                after = open(fn, "rb").read()
                if after != before:
                    return "step %d: the rejected append changed the file (%d -> %d bytes, first difference at %d)" % (
                        step, len(before), len(after), next((i for i in range(min(len(before), len(after))) if before[i] != after[i]), min(len(before), len(after))))
            else:
                return "unknown op " + kind
            if kind != "close" and sf is not None:
                # rows written through an open handle are visible to a reader once flushed: flush through the handle's close/reopen
                sf.close()
                sf = None
                r = readback(step)
                if r is not True:
                    return r
                sf = sfile.SFile(name, mode="r+", delim=delim)
            elif model is not None:
                r = readback(step)
                if r is not True:
                    return r
        return True
    finally:
        if sf is not None:
            try:
                sf.close()
            except Exception:
                pass
        if os.path.exists(fn):
            os.remove(fn)
        for k, v in saved_env.items():
            if v is None:
                os.environ.pop(k, None)
            else:
                os.environ[k] = v


def same_handle_statement(chunks, header, delim, mode, bad=None):
    """several writes through ONE open handle, read back only at the end (the handle's cached row count is what is exercised)"""
    import os
    import numpy as np
    import esutil.sfile as sfile
    fn = _scratch("c03h")
    try:
        if mode == "w":
            with sfile.SFile(fn, mode="w", delim=delim) as sf:
                sf.write(chunks[0], header=header)
                for c in chunks[1:]:
                    sf.write(c)
        else:
            sfile.write(chunks[0], fn, header=header, delim=delim)
            with sfile.SFile(fn, mode="r+", delim=delim) as sf:
                for c in chunks[1:]:
                    sf.write(c)
        data, hdr = sfile.read(fn, header=True)
        want = concat(np, chunks)
        r = same_rows(np, data, want) if delim is None else text_equal(np, data, want)
        if r is not True:
            return r
        r = header_ok(np, hdr, header, want, delim)
        if r is not True:
            return r
        # an incompatible chunk through the handle that has been writing (the creating handle for mode 'w') is rejected and
        # leaves the file's bytes alone
        if bad is not None:
            os.remove(fn)
            before = after = None
            raised = False
            if mode == "w":
                sf = sfile.SFile(fn, mode="w", delim=delim)
                sf.write(chunks[0], header=header)
            else:
                sfile.write(chunks[0], fn, header=header, delim=delim)
                sf = sfile.SFile(fn, mode="r+", delim=delim)
                sf.write(chunks[0])
            try:
                try:
                    sf.write(bad)
                except (ValueError, TypeError):
                    raised = True
            finally:
                sf.close()
            if not raised:
                return "an incompatible chunk %s written through the same %r handle after %s was not rejected" % (
                    bad.dtype.descr, mode, chunks[0].dtype.descr)
            data = sfile.read(fn)
            want = concat(np, [chunks[0]] if mode == "w" else [chunks[0], chunks[0]])
            r = same_rows(np, data, want) if delim is None else text_equal(np, data, want)
            if r is not True:
                return "after a rejected chunk through the same handle: %s" % r
        return True
    finally:
        if os.path.exists(fn):
            os.remove(fn)


contract("esutil.sfile#histories", params={}, assumed=True, runtime_name="esutil.sfile.write",
         why_assumed="bounded statement oracle (labelled): histories of writes on real files; the in-place SIZE rewrite and the "
                     "seek-to-end are C++ (update_row_count, Write), assumed in the proved contracts of SFile.write",
         rt_ensures={"file-equals-concatenation-after-every-step": "history_statement(ops, delim) is True"},
         props=["C03"])

contract("esutil.sfile#same-handle", params={}, assumed=True, runtime_name="esutil.sfile.SFile",
         why_assumed="bounded statement oracle (labelled), see esutil.sfile#histories",
         rt_ensures={"several-writes-through-one-handle-accumulate": "same_handle_statement(chunks, header, delim, mode, bad) is True"},
         props=["C03"])


def _incompatible(np, rng, dt):
    """dtypes that differ from dt in one respect: a type, a name, a sub-array shape, one field more, one field less"""
    d = [list(x) for x in dt.descr]
    out = []
    a = [list(x) for x in d]
    a[0][1] = "<f8" if not a[0][1].endswith("f8") else "<i4"
    out.append(("type", a))
    a = [list(x) for x in d]
    a[-1][0] = a[-1][0] + "_x"
    out.append(("name", a))
    a = [list(x) for x in d]
    if len(a[0]) == 3:
        a[0][2] = tuple(a[0][2]) + (2,)
    else:
        a[0].append((2,))
    out.append(("shape", a))
    out.append(("extra", [list(x) for x in d] + [["zz_extra", "<i4"]]))
    if len(d) > 1:
        out.append(("fewer", [list(x) for x in d[:-1]]))
    return [(tag, np.dtype([tuple(x) for x in a])) for tag, a in out]


def _text_dtype(np, rng, nf=None):
    return _rand_dtype(np, rng, NUM + ["S", "S"], 3, nfields=nf)


@domain("esutil.sfile#histories")
def _dom_hist(tier, seed):
    import random
    import numpy as np
    rng = random.Random(seed + 12)
    nh = 6 if tier == "quick" else 80
    for delim in (None, ",", "\t", " "):
        for h in range(nh):
            text = delim is not None
            dt = _text_dtype(np, rng) if text else _rand_dtype(np, rng, NUM + BIN_EXTRA + ["S"], 4)

            def chunk(dtp=dt, delim=delim, text=text):
                return keep_clear_of_known_findings(np, _fill(np, rng, dtp, rng.choice([1, 1, 2, 3, 7]), text=text), delim)
            bads = _incompatible(np, rng, dt)
            header = rng.choice(_HEADERS[:9])
            ops = []
            # every history starts with an append to a missing file or a create
            ops.append((rng.choice(["create", "append"]), chunk(), header))
            for _ in range(rng.randint(2, 7)):
                k = rng.choice(["again", "again", "close", "append", "append", "overwrite", "bad-append", "bad-again", "remove+append"])
                if k == "bad-append" or k == "bad-again":
                    tag, bdt = rng.choice(bads)
                    ops.append((k, keep_clear_of_known_findings(np, _fill(np, rng, bdt, rng.choice([1, 2, 4]), text=text), delim), None))
                elif k == "remove+append":
                    header = rng.choice(_HEADERS[:9])
                    ops.append(("remove", None, None))
                    ops.append(("append", chunk(), header))
                elif k == "overwrite":
                    header = rng.choice(_HEADERS[:9])
                    ops.append((k, chunk(), header))
                elif k == "close":
                    ops.append((k, None, None))
                else:
                    ops.append((k, chunk(), None))
            # bad-again needs an open handle: the statement opens r+ when none is open
            ops2 = []
            for o in ops:
                if o[0] == "bad-again":
                    ops2.append(("again", chunk(), None))
                ops2.append(o)
            yield dict(call=(lambda: None), args=[], ghost=dict(ops=ops2, delim=delim),
                       key="delim=%r history %s" % (delim, " ".join(o[0] for o in ops2)))
    # each kind of incompatibility against a fixed file, in every form
    for delim in (None, ",", "\t", " "):
        dt = np.dtype([("a", "<i4"), ("b", "<f8", (2,)), ("c", "S4")])
        for tag, bdt in _incompatible(np, rng, dt):
            def mk(d, n, delim=delim):
                return keep_clear_of_known_findings(np, _fill(np, rng, d, n, text=True), delim)
            ops = [("create", mk(dt, 3), {"k": 1}), ("close", None, None), ("bad-append", mk(bdt, 2), None),
                   ("append", mk(dt, 2), None), ("again", mk(dt, 1), None), ("bad-again", mk(bdt, 1), None)]
            yield dict(call=(lambda: None), args=[], ghost=dict(ops=ops, delim=delim), key="delim=%r incompatible %s" % (delim, tag))


@domain("esutil.sfile#same-handle")
def _dom_handle(tier, seed):
    import random
    import numpy as np
    rng = random.Random(seed + 13)
    for delim in (None, ",", "\t", " "):
        for mode in ("w", "r+"):
            for nch in ((2, 3, 5) if tier == "quick" else (2, 3, 4, 5, 8, 13)):
                text = delim is not None
                dt = _text_dtype(np, rng) if text else _rand_dtype(np, rng, NUM + BIN_EXTRA + ["S"], 4)
                chunks = [keep_clear_of_known_findings(np, _fill(np, rng, dt, rng.choice([1, 2, 3, 10]), text=text), delim) for _ in range(nch)]
                # a chunk may be an array of records with two axes: all its elements are rows
                chunks = [c.reshape(2, c.size // 2) if (c.size % 2 == 0 and c.size >= 4 and j % 2) else c for j, c in enumerate(chunks)]
                if all(c.ndim == 1 for c in chunks):
                    chunks[-1] = concat(np, [chunks[-1]] * 4).reshape(2, -1) if delim is None else chunks[-1]
                tag, bdt = rng.choice(_incompatible(np, rng, dt))
                bad = keep_clear_of_known_findings(np, _fill(np, rng, bdt, 2, text=text), delim)
                yield dict(call=(lambda: None), args=[], ghost=dict(chunks=chunks, header=rng.choice(_HEADERS[:9]), delim=delim, mode=mode, bad=bad),
                           key="delim=%r mode=%s %d writes of %s" % (delim, mode, nch, [c.size for c in chunks]))


# ------------------------------------------------------------------------------------------------ C04
def _sig(x, digits):
    return float("%.*e" % (digits - 1, x))


def text_equal(np, got, want):
    """integers and strings exactly, f8 to 16 significant digits, f4 to 7, NaN and signed infinities preserved;
    same names and shapes, native byte order"""
    if not isinstance(got, np.ndarray):
        return "not an array"
    if got.dtype.names != want.dtype.names:
        return "names %s instead of %s" % (got.dtype.names, want.dtype.names)
    if got.shape != want.shape:
        return "%d rows instead of %d" % (got.size, want.size)
    for n in want.dtype.names:
        g, w = got.dtype[n], want.dtype[n]
        if g.shape != w.shape:
            return "field %s: shape %s instead of %s" % (n, g.shape, w.shape)
        if g.base != w.base.newbyteorder("="):
            return "field %s: type %s instead of native %s" % (n, g.base.str, w.base.newbyteorder("=").str)
        a = np.asarray(got[n]).reshape(-1)
        b = np.asarray(want[n]).astype(w.base.newbyteorder("=")).reshape(-1)
        k = w.base.kind
        if k in "iuS":
            if k == "S":
                # the text form cannot carry trailing NULs differently from the binary one: compare the stored bytes
                bad = [i for i in range(a.size) if a[i] != b[i]]
            else:
                bad = np.flatnonzero(a != b)
            if len(bad):
                i = int(bad[0])
                return "field %s element %d: %r instead of %r" % (n, i, a[i], b[i])
        else:
            digits = 16 if w.base.itemsize == 8 else 7
            for i in range(a.size):
                x, y = float(a[i]), float(b[i])
                if np.isnan(y):
                    if not np.isnan(x):
                        return "field %s element %d: %r instead of nan" % (n, i, x)
                elif np.isinf(y):
                    if x != y:
                        return "field %s element %d: %r instead of %r" % (n, i, x, y)
                elif y == 0:
                    if x != 0:
                        return "field %s element %d: %r instead of %r" % (n, i, x, y)
                else:
                    if not np.isfinite(x) or abs(x - y) > abs(y) * 10.0 ** (1 - digits):
                        return "field %s element %d: %r instead of %r (more than %d significant digits off)" % (n, i, x, y, digits)
    return True


def text_statement(table, delim, entry):
    import os
    import numpy as np
    import esutil.sfile as sfile
    import esutil.recfile as recfile
    fn = _scratch("c04")
    want = table.copy()
    try:
        hdr = None
        if entry == "sfile":
            sfile.write(table, fn, delim=delim, header={"k": "v"})
            got, hdr = sfile.read(fn, header=True)
        elif entry == "SFile":
            with sfile.SFile(fn, mode="w", delim=delim) as sf:
                sf.write(table)
            with sfile.SFile(fn) as sf:
                got = sf.read()
                hdr = sf.get_header()
        elif entry == "Recfile":
            with recfile.Recfile(fn, mode="w", delim=delim) as r:
                r.write(table)
            with recfile.Recfile(fn, mode="r", dtype=table.dtype, delim=delim) as r:
                got = r.read()
        elif entry == "Recfile+nrows":
            with recfile.Recfile(fn, mode="w", delim=delim) as r:
                r.write(table)
            with recfile.Recfile(fn, mode="r", dtype=table.dtype, delim=delim, nrows=table.size) as r:
                got = r.read()
        else:
            return "unknown entry"
        r = same_rows(np, table, want)
        if r is not True:
            return "the caller's table changed: %s" % r
        r = text_equal(np, got, want)
        if r is not True:
            return r
        if hdr is not None:
            r = header_ok(np, hdr, {"k": "v"} if entry == "sfile" else None, want, delim)
            if r is not True:
                return r
        # the text of the file: one line per row
        raw = open(fn, "rb").read()
        if hdr is not None:
            raw = raw[raw.index(b"\nEND\n\n") + 6:]
        if raw.count(b"\n") < want.size:
            return "fewer lines than rows in the text"
        return True
    finally:
        if os.path.exists(fn):
            os.remove(fn)


def largest_finite_statement():
    """the largest finite f8 / f4 values (their 16- / 7-digit decimal form rounds above the type's range)"""
    import numpy as np
    bad = []
    for code in ("<f8", "<f4"):
        big = float(np.finfo(code).max)
        t = np.zeros(2, dtype=[("x", code), ("k", "<i4")])
        t["x"] = [big, -big]
        r = text_statement(t, ",", "sfile")
        if r is not True:
            bad.append("%s: %s" % (code, r))
    return True if not bad else "; ".join(bad)


def leading_blank_statement():
    """byte strings that start with blanks (or the delimiter) in the positions the reader reaches straight after a number"""
    import numpy as np
    bad = []
    # (a) first cell of a row, previous row ends with a number, non-blank delimiter
    t = np.zeros(3, dtype=[("s", "S4"), ("n", "<i4")])
    t["s"] = [b" ab", b"  cd", b"\tef"]
    t["n"] = [1, 2, 3]
    for delim in (",", ":", ";", "|"):
        try:
            r = text_statement(t, delim, "sfile")
        except RuntimeError as e:
            r = "RuntimeError: %s" % e
        if r is not True:
            bad.append("row-start string after a number, delim=%r: %s" % (delim, r))
    # (b) tab delimiter: any string cell after a numeric cell
    t = np.zeros(2, dtype=[("n", "<i4"), ("s", "S4"), ("m", "<f8")])
    t["s"] = [b" ab", b"  cd"]
    t["n"] = [1, 2]
    try:
        r = text_statement(t, "\t", "sfile")
    except RuntimeError as e:
        r = "RuntimeError: %s" % e
    if r is not True:
        bad.append("string after a number, tab delimiter: %s" % r)
    return True if not bad else "; ".join(bad)


contract("esutil.sfile#text-roundtrip", params={}, assumed=True, runtime_name="esutil.sfile.write",
         why_assumed="bounded statement oracle (labelled): printf/scanf formatting in records.cpp is outside the reach of the VC "
                     "generator; the byte-order handling of the Python glue (to_native_inplace on a copy, byte-order stripping of "
                     "the header dtype) is under proved contracts",
         rt_ensures={"text-read-back-equals-written-rows": "text_statement(table, delim, entry) is True"},
         props=["C04"])

contract("esutil.sfile#text-corners", params={}, assumed=True, runtime_name="esutil.sfile.write",
         why_assumed="bounded statement oracle (labelled) for two input classes that the main text domain leaves out because they "
                     "are recorded known findings of the C++ scanner / print formats",
         rt_ensures={"largest-finite-values-survive": "largest_finite_statement() is True",
                     "strings-with-leading-blanks-straight-after-a-number": "leading_blank_statement() is True"},
         props=["C04"])


@domain("esutil.sfile#text-corners")
def _dom_text_corners(tier, seed):
    yield dict(call=(lambda: None), args=[], ghost={}, key="fixed corner inputs")


@domain("esutil.sfile#text-roundtrip")
def _dom_text(tier, seed):
    import random
    import numpy as np
    rng = random.Random(seed + 14)
    delims = [",", ":", "\t", " ", ";", "|"]
    fixed = [
        np.dtype([("a", "<i4"), ("b", ">f8"), ("c", "S5")]),
        np.dtype([("n", ">i8"), ("s", "S6"), ("m", "<u1"), ("t", "S1", (2,))]),
        np.dtype([("x", ">f8", (3,)), ("y", ">f4", (2, 2)), ("z", "i1")]),           # every multi-byte field is a big-endian sub-array
        np.dtype([("x", "<f8", (3,)), ("y", "<i4", (2, 2)), ("z", "S3"), ("w", "u1")]),  # every multi-byte field is a native sub-array
        np.dtype([("s", "S4")]),
        np.dtype([("s", "S3"), ("u", "S2")]),
        np.dtype([("i", ">u8"), ("j", "<i8"), ("k", ">u4"), ("l", ">i2"), ("m", "<u2")]),
        np.dtype([("w10", "S10"), ("n", "<i4"), ("w11", "S11", (2,)), ("w12", "S12"), ("w9", "S9")]),   # two-digit widths
    ]
    ntab = 3 if tier == "quick" else 40
    k = 0
    for dt in fixed + [_text_dtype(np, rng) for _ in range(ntab)]:
        for delim in delims:
            n = rng.choice([1, 2, 5, 11])
            t = _fill(np, rng, dt, n, text=True)
            if dt.names == ("s",) or dt.names == ("s", "u"):
                # rows made only of blanks
                t["s"][n // 2] = b" " * dt["s"].itemsize
                if "u" in dt.names:
                    t["u"][n // 2] = b"  "
            t = keep_clear_of_known_findings(np, t, delim)
            entries = ["sfile", "SFile", "Recfile", "Recfile+nrows"]
            if tier == "quick":
                entries = [entries[k % 4], entries[(k + 1) % 4]]
            k += 1
            for e in entries:
                yield dict(call=(lambda: None), args=[], ghost=dict(table=t, delim=delim, entry=e),
                           key="%s delim=%r %s n=%d" % (dt.descr, delim, e, n))
    # a text table longer than any block a writer or reader might work in, fields in both byte orders
    big = np.zeros(70001 if tier == "quick" else 300007, dtype=[("id", "<i4"), ("flux", ">f8"), ("k", ">i2"), ("tag", "S3"), ("m", "<u2", (2,))])
    big["id"] = np.arange(big.size) * 7 - 100000
    big["flux"] = np.arange(big.size) * 0.125 - 1000.0
    big["k"] = (np.arange(big.size) * 37) % 30011 - 15000
    big["tag"] = np.array([b"ab", b"c", b"xyz", b""])[np.arange(big.size) % 4]
    big["m"] = (np.arange(big.size * 2).reshape(-1, 2) * 11) % 65521
    for delim, e in ((",", "sfile"), (" ", "Recfile+nrows")) if tier == "quick" else ((",", "sfile"), (" ", "Recfile+nrows"), ("\t", "SFile"), (":", "Recfile")):
        yield dict(call=(lambda: None), args=[], ghost=dict(table=big, delim=delim, entry=e), key="%d rows, mixed byte orders, delim=%r %s" % (big.size, delim, e))
