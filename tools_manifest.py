"""regenerates MANIFEST.json from esvc/propinfo.py + the list of claimed properties"""
import json
import sys
sys.path.insert(0, '/verif')
from esvc.propinfo import PROPS, CLAIMED, NOT_APPLICABLE

props = [json.loads(l) for l in open('/verif/properties.jsonl')]
checks = []
for p in props:
    pid = p['id']
    if pid not in CLAIMED:
        continue
    m = PROPS[pid]
    checks.append(dict(
        property_id=pid,
        quick_cmd="python3-vt -m esvc.check %s --tier quick" % pid,
        thorough_cmd="python3-vt -m esvc.check %s --tier thorough" % pid,
        evidence_file="/verif/evidence/%s.json" % pid,
        replay_cmd_template="python3-vt -m esvc.check %s --replay {path}" % pid,
        engine="esvc",
        level_claimed=dict(category=m['level'], text=m['level_text'], design_ref=m.get('design_ref', 'DESIGN.md section 8 (%s)' % pid)),
        level_note=m['level_note'],
        technique=m['technique'],
    ))
man = dict(
    version=1,
    setup_cmd="sh /verif/setup.sh",
    hooks=dict(guard="ESUTIL_VERIF",
               enable="no hooks: contracts are sidecar files under /verif/specs keyed by qualified function name and loop ordinal; /repo is read, never instrumented",
               baseline_off_cmd="cd /repo && /venv/bin/python -m pytest -ra -q -p no:cacheprovider --timeout=900 --continue-on-collection-errors",
               source_commits=[], add_only=True),
    engines=[dict(name="esvc", path="/verif/esvc", serves_properties=sorted(CLAIMED),
                  kind_free_text="contract-based deductive verification: VC generator over the real Python (ast) and C (clang JSON AST) sources, "
                                 "sidecar contracts, obligations discharged by z3/cvc5; run-time evaluation of the same contracts as labelled bounded stand-ins and for counterexample replay")],
    checks=checks,
    not_applicable=[dict(property_id=k, reason=v) for k, v in sorted(NOT_APPLICABLE.items())],
    notes="Genuine defects found by the checks are repaired by 'fix:' commits in /repo and listed in /verif/known_findings.json (status fixed); "
          "status known entries print KNOWN-FINDING lines. Exit codes: 0 held, 1 violation, 2 undecided, 3 checker error.",
)
json.dump(man, open('/verif/MANIFEST.json', 'w'), indent=1)
print("claimed:", sorted(CLAIMED), "n/a:", sorted(NOT_APPLICABLE))
