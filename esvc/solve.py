"""Discharging obligations: z3 (python API) first, cvc5 (SMT-LIB text) for strings / unknowns."""
import os
import subprocess
import tempfile
import time

import z3

CVC5 = "/usr/bin/cvc5"

_cache = {}
_keep = []
STATS = {"queries": 0, "z3_s": 0.0, "cvc5_s": 0.0, "cache_hits": 0}


def _has_strings(fs):
    txt = " ".join(f.sexpr()[:100000] for f in fs)
    return "String" in txt or "str." in txt or "seq." in txt


def to_smt2(fs, logic="ALL"):
    s = z3.Solver()
    for f in fs:
        s.add(f)
    txt = s.to_smt2()
    return "(set-logic %s)\n" % logic + txt


def run_cvc5(fs, timeout_s, want_model=False):
    txt = to_smt2(fs)
    with tempfile.NamedTemporaryFile("w", suffix=".smt2", delete=False, dir=os.environ.get("ESVC_SCRATCH", "/var/tmp")) as f:
        f.write(txt)
        name = f.name
    try:
        args = [CVC5, "--strings-exp", "--tlimit=%d" % int(timeout_s * 1000), name]
        t0 = time.time()
        try:
            out = subprocess.run(args, capture_output=True, text=True, timeout=timeout_s + 5).stdout
        except subprocess.TimeoutExpired:
            out = "unknown"
        STATS["cvc5_s"] += time.time() - t0
        first = out.strip().splitlines()[0] if out.strip() else "unknown"
        if first not in ("sat", "unsat", "unknown"):
            first = "unknown"
        return first
    finally:
        os.unlink(name)


def prove(pc, goal, timeout_s=10.0, use_cvc5=True, key_extra=""):
    """returns dict(status=proved|refuted|unknown, model=ModelRef|None, ms, backend)"""
    STATS["queries"] += 1
    if isinstance(goal, bool):
        if goal:
            return dict(status="proved", model=None, ms=0.0, backend="trivial")
        goal = z3.BoolVal(False)
    g = z3.simplify(goal)
    if z3.is_true(g):
        return dict(status="proved", model=None, ms=0.0, backend="simplify")
    key = (tuple(f.get_id() for f in pc), g.get_id(), key_extra)
    if key in _cache:
        STATS["cache_hits"] += 1
        return _cache[key]
    fs = [_simp(f) for f in pc] + [_simp(z3.Not(goal))]
    t0 = time.time()
    strings = _has_strings(fs[-3:]) or _has_strings(fs)
    res = None
    if not strings:
        qf = not any(_has_quant(f) for f in fs)
        r = z3.unknown
        for budget in ((0.2 * timeout_s, timeout_s) if qf else (timeout_s,)):
            s = z3.Solver()
            s.set("timeout", int(budget * 1000))
            for f in fs:
                s.add(f)
            r = s.check()
            if r != z3.unknown:
                break
            if qf and budget < timeout_s:
                # quantifier-free (typically nonlinear) query: try the cheap dedicated pipelines before spending the full budget
                hit = None
                for tname, mk in (("solve-eqs", lambda: z3.Then("simplify", "propagate-values", "solve-eqs", "smt").solver()),
                                  ("qfnra", lambda: z3.Tactic("qfnra").solver())):
                    try:
                        st_ = mk()
                        st_.set("timeout", int(timeout_s * 300))
                        for f in fs:
                            st_.add(f)
                        if st_.check() == z3.unsat:
                            hit = tname
                            break
                    except z3.Z3Exception:
                        pass
                if hit:
                    dt = time.time() - t0
                    STATS["z3_s"] += dt
                    res = dict(status="proved", model=None, ms=dt * 1000, backend="z3(%s)" % hit)
                    break
        dt = time.time() - t0
        STATS["z3_s"] += dt
        if res is not None:
            pass
        elif r == z3.unsat:
            res = dict(status="proved", model=None, ms=dt * 1000, backend="z3")
        elif r == z3.sat:
            res = dict(status="refuted", model=s.model(), ms=dt * 1000, backend="z3")
        else:
            pass
        if res is None and not strings and r == z3.unknown:
            # second attempt with a different configuration before giving up
            s2 = z3.Solver()
            s2.set("timeout", int(timeout_s * 500))
            s2.set("smt.mbqi", False)
            s2.set("smt.random_seed", 7)
            for f in fs:
                s2.add(f)
            r2 = s2.check()
            dt = time.time() - t0
            STATS["z3_s"] += dt
            if r2 == z3.unsat:
                res = dict(status="proved", model=None, ms=dt * 1000, backend="z3(no-mbqi)")
    if res is None and use_cvc5 and strings and os.path.exists(CVC5):
        r = run_cvc5(fs, timeout_s)
        dt = time.time() - t0
        if r == "unsat":
            res = dict(status="proved", model=None, ms=dt * 1000, backend="cvc5")
        elif r == "sat":
            res = dict(status="refuted", model=None, ms=dt * 1000, backend="cvc5")
    if res is None:
        # candidate counter-model from the quantifier-free hypotheses only (may be spurious; decided by replay)
        cand = None
        try:
            s3 = z3.Solver()
            s3.set("timeout", 2000)
            for f in fs:
                if not _has_quant(f):
                    s3.add(f)
            if s3.check() == z3.sat:
                cand = s3.model()
        except z3.Z3Exception:
            cand = None
        res = dict(status="unknown", model=None, candidate=cand, ms=(time.time() - t0) * 1000, backend="z3+cvc5")
    _cache[key] = res
    _keep.append(fs)
    return res


_simp_cache = {}


def _simp(f):
    i = f.get_id()
    r = _simp_cache.get(i)
    if r is None:
        r = z3.simplify(f)
        _simp_cache[i] = r
        _keep.append(f)
    return r


def feasible(pc, cond, timeout_ms=500):
    """cheap path pruning: only quantifier-free assumptions are used (sound over-approximation)"""
    if isinstance(cond, bool):
        return cond
    c = z3.simplify(cond)
    if z3.is_false(c):
        return False
    if z3.is_true(c):
        return True
    s = z3.Solver()
    s.set("timeout", timeout_ms)
    for f in pc:
        if not _has_quant(f):
            s.add(f)
    s.add(c)
    return s.check() != z3.unsat


_hq = {}


def _has_quant(f):
    i = f.get_id()
    if i in _hq:
        return _hq[i]
    r = _hasq(f, set())
    _hq[i] = r
    return r


def _hasq(f, seen):
    if f.get_id() in seen:
        return False
    seen.add(f.get_id())
    if z3.is_quantifier(f):
        return True
    return any(_hasq(c, seen) for c in f.children())
