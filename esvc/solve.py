"""Discharging obligations: z3 (python API) first, cvc5 (SMT-LIB text) for strings / unknowns."""
import os
import subprocess
import tempfile
import time

import z3

CVC5 = "/usr/bin/cvc5"
Z3CLI = "/usr/local/bin/z3-new"

_cache = {}
_keep = []
STATS = {"queries": 0, "z3_s": 0.0, "cvc5_s": 0.0, "cache_hits": 0}


def _has_strings(fs):
    txt = " ".join(f.sexpr()[:100000] for f in fs)
    return "String" in txt or "str." in txt or "seq." in txt


def to_smt2(fs, logic="ALL"):
    s = z3.Solver()
    for f in fs:
        s.add(f)
    txt = s.to_smt2()
    return "(set-logic %s)\n" % logic + txt


def run_cvc5(fs, timeout_s, want_model=False):
    txt = to_smt2(fs)
    with tempfile.NamedTemporaryFile("w", suffix=".smt2", delete=False, dir=os.environ.get("ESVC_SCRATCH", "/var/tmp")) as f:
        f.write(txt)
        name = f.name
    try:
        args = [CVC5, "--strings-exp", "--tlimit=%d" % int(timeout_s * 1000), name]
        t0 = time.time()
        try:
            out = subprocess.run(args, capture_output=True, text=True, timeout=timeout_s + 5).stdout
        except subprocess.TimeoutExpired:
            out = "unknown"
        STATS["cvc5_s"] += time.time() - t0
        first = out.strip().splitlines()[0] if out.strip() else "unknown"
        if first not in ("sat", "unsat", "unknown"):
            first = "unknown"
        return first
    finally:
        os.unlink(name)


PORTFOLIO = (("red", "smt.mbqi=false"), ("red", ""), ("red", "smt.random_seed=2"), ("red", "smt.qi.max_multi_patterns=0"),
             ("full", "smt.mbqi=false"), ("full", "smt.random_seed=3"))


def _portfolio(fs, red, timeout_s):
    import shutil
    d = tempfile.mkdtemp(prefix="esvc-q-", dir=os.environ.get("ESVC_SCRATCH", "/var/tmp"))
    procs = []
    try:
        files = {}
        open(os.path.join(d, "full.smt2"), "w").write(to_smt2(fs))
        files["full"] = os.path.join(d, "full.smt2")
        if red is not None:
            open(os.path.join(d, "red.smt2"), "w").write(to_smt2(red + [fs[-1]]))
            files["red"] = os.path.join(d, "red.smt2")
        for which, opt in PORTFOLIO:
            if which not in files:
                continue
            args = [Z3CLI, "-T:%d" % max(1, int(timeout_s))] + ([opt] if opt else []) + [files[which]]
            procs.append((which + ":" + (opt or "default"), subprocess.Popen(args, stdout=subprocess.PIPE, stderr=subprocess.DEVNULL, text=True)))
        deadline = time.time() + timeout_s + 2
        live = list(procs)
        while live and time.time() < deadline:
            for tag, p in list(live):
                rc = p.poll()
                if rc is None:
                    continue
                live.remove((tag, p))
                out = (p.stdout.read() or "").strip().splitlines()
                if out and out[0].strip() == "unsat":
                    return tag
            time.sleep(0.02)
        return None
    finally:
        for _, p in procs:
            if p.poll() is None:
                try:
                    p.kill()
                except OSError:
                    pass
        for _, p in procs:
            try:
                p.wait(timeout=2)
            except Exception:
                pass
        shutil.rmtree(d, ignore_errors=True)


def _check(solver, budget_s):
    """solver.check(); z3's own (soft) timeout applies.  Long-running quantified queries go to the process portfolio, which is
    killed at its deadline (an interrupt from a watchdog thread crashed z3 5.1 and is not used)."""
    try:
        return solver.check()
    except z3.Z3Exception:
        return z3.unknown


def prove(pc, goal, timeout_s=10.0, use_cvc5=True, key_extra=""):
    """returns dict(status=proved|refuted|unknown, model=ModelRef|None, ms, backend)"""
    STATS["queries"] += 1
    if isinstance(goal, bool):
        if goal:
            return dict(status="proved", model=None, ms=0.0, backend="trivial")
        goal = z3.BoolVal(False)
    g = z3.simplify(goal)
    if z3.is_true(g):
        return dict(status="proved", model=None, ms=0.0, backend="simplify")
    key = (tuple(f.get_id() for f in pc), g.get_id(), key_extra)
    if key in _cache:
        STATS["cache_hits"] += 1
        return _cache[key]
    fs = [_simp(f) for f in pc] + [_simp(z3.Not(goal))]
    t0 = time.time()
    strings = _has_strings(fs[-3:]) or _has_strings(fs)
    res = None
    if not strings and any(_has_quant(f) for f in fs[:-1]):
        # 1. easy obligations: the full hypothesis set, in process, short budget
        sq = z3.Solver()
        qb = min(1.5, 0.15 * timeout_s)
        sq.set("timeout", int(qb * 1000))
        for f in fs:
            sq.add(f)
        quick = _check(sq, qb)
        if quick == z3.unsat:
            dt = time.time() - t0
            STATS["z3_s"] += dt
            res = dict(status="proved", model=None, ms=dt * 1000, backend="z3")
            _cache[key] = res
            _keep.append(fs)
            return res
        if quick == z3.unknown and os.path.exists(Z3CLI) and key_extra != "vac":
            # 2. portfolio (solver run time on quantified array queries varies 1 s .. minutes with the random seed):
            #    several configurations in parallel processes, on the relevant-hypotheses subset and on the full set;
            #    the first `unsat` discharges (sound: fewer hypotheses / any configuration), nothing else is concluded
            ga = _array_consts(fs[-1])
            red = [f for f in fs[:-1] if not _has_quant(f) or _array_consts(f) <= ga]
            hit = _portfolio(fs, red if len(red) < len(fs) - 1 else None, timeout_s)
            if hit:
                dt = time.time() - t0
                STATS["z3_s"] += dt
                res = dict(status="proved", model=None, ms=dt * 1000, backend="z3-portfolio(%s)" % hit)
                _cache[key] = res
                _keep.append(fs)
                return res
            res = None
            # fall through to one last in-process attempt (gives a candidate model for replay when it says sat)
            timeout_s = min(timeout_s, 3.0)
    if not strings:
        qf = not any(_has_quant(f) for f in fs)
        r = z3.unknown
        for budget in ((0.2 * timeout_s, timeout_s) if qf else (timeout_s,)):
            s = z3.Solver()
            s.set("timeout", int(budget * 1000))
            for f in fs:
                s.add(f)
            r = _check(s, budget)
            if r != z3.unknown:
                break
            if qf and budget < timeout_s:
                # quantifier-free (typically nonlinear) query: try the cheap dedicated pipelines before spending the full budget
                hit = None
                for tname, mk in (("solve-eqs", lambda: z3.Then("simplify", "propagate-values", "solve-eqs", "smt").solver()),
                                  ("qfnra", lambda: z3.Tactic("qfnra").solver())):
                    try:
                        st_ = mk()
                        st_.set("timeout", int(timeout_s * 300))
                        for f in fs:
                            st_.add(f)
                        if _check(st_, timeout_s * 0.3) == z3.unsat:
                            hit = tname
                            break
                    except z3.Z3Exception:
                        pass
                if hit:
                    dt = time.time() - t0
                    STATS["z3_s"] += dt
                    res = dict(status="proved", model=None, ms=dt * 1000, backend="z3(%s)" % hit)
                    break
        dt = time.time() - t0
        STATS["z3_s"] += dt
        if res is not None:
            pass
        elif r == z3.unsat:
            res = dict(status="proved", model=None, ms=dt * 1000, backend="z3")
        elif r == z3.sat:
            res = dict(status="refuted", model=s.model(), ms=dt * 1000, backend="z3")
        else:
            pass
        if res is None and not strings and r == z3.unknown:
            # second attempt with a different configuration before giving up
            s2 = z3.Solver()
            s2.set("timeout", int(timeout_s * 500))
            s2.set("smt.mbqi", False)
            s2.set("smt.random_seed", 7)
            for f in fs:
                s2.add(f)
            r2 = _check(s2, timeout_s * 0.5)
            dt = time.time() - t0
            STATS["z3_s"] += dt
            if r2 == z3.unsat:
                res = dict(status="proved", model=None, ms=dt * 1000, backend="z3(no-mbqi)")
    if res is None and use_cvc5 and strings and os.path.exists(CVC5):
        r = run_cvc5(fs, timeout_s)
        dt = time.time() - t0
        if r == "unsat":
            res = dict(status="proved", model=None, ms=dt * 1000, backend="cvc5")
        elif r == "sat":
            res = dict(status="refuted", model=None, ms=dt * 1000, backend="cvc5")
    if res is None:
        # candidate counter-model from the quantifier-free hypotheses only (may be spurious; decided by replay)
        cand = None
        try:
            s3 = z3.Solver()
            s3.set("timeout", 2000)
            for f in fs:
                if not _has_quant(f):
                    s3.add(f)
            if s3.check() == z3.sat:
                cand = s3.model()
        except z3.Z3Exception:
            cand = None
        res = dict(status="unknown", model=None, candidate=cand, ms=(time.time() - t0) * 1000, backend="z3+cvc5")
    _cache[key] = res
    _keep.append(fs)
    return res


_simp_cache = {}


def _simp(f):
    i = f.get_id()
    r = _simp_cache.get(i)
    if r is None:
        r = z3.simplify(f)
        _simp_cache[i] = r
        _keep.append(f)
    return r


def feasible(pc, cond, timeout_ms=500):
    """cheap path pruning: only quantifier-free assumptions are used (sound over-approximation)"""
    if isinstance(cond, bool):
        return cond
    c = z3.simplify(cond)
    if z3.is_false(c):
        return False
    if z3.is_true(c):
        return True
    s = z3.Solver()
    s.set("timeout", timeout_ms)
    for f in pc:
        if not _has_quant(f):
            s.add(f)
    s.add(c)
    return s.check() != z3.unsat


_ac = {}


def _array_consts(f):
    """names of the uninterpreted array-sorted constants occurring in f"""
    i = f.get_id()
    if i in _ac:
        return _ac[i]
    out, seen = set(), set()

    def walk(x):
        if x.get_id() in seen:
            return
        seen.add(x.get_id())
        if z3.is_quantifier(x):
            walk(x.body())
            return
        if z3.is_const(x) and x.decl().kind() == z3.Z3_OP_UNINTERPRETED and x.sort().kind() == z3.Z3_ARRAY_SORT:
            out.add(x.decl().name())
            return
        for c in x.children():
            walk(c)
    walk(f)
    r = frozenset(out)
    _ac[i] = r
    _keep.append(f)
    return r


_hq = {}


def _has_quant(f):
    i = f.get_id()
    if i in _hq:
        return _hq[i]
    r = _hasq(f, set())
    _hq[i] = r
    return r


def _hasq(f, seen):
    if f.get_id() in seen:
        return False
    seen.add(f.get_id())
    if z3.is_quantifier(f):
        return True
    return any(_hasq(c, seen) for c in f.children())
