"""developer CLI:  python3-vt -m esvc.prove <function name substring> [-v]"""
import sys
import time

from . import speclang
from .engine import Engine


def main(argv):
    speclang.load_specs()
    pats = [a for a in argv if not a.startswith("-")]
    verbose = "-v" in argv
    names = [n for n in speclang.CONTRACTS if any(p in n for p in pats)] if pats else list(speclang.CONTRACTS)
    bad = 0
    for n in names:
        c = speclang.CONTRACTS[n]
        if c.assumed:
            continue
        eng = Engine(speclang.CONTRACTS, speclang.SPEC_ASTS, verbose=verbose, timeout=float(c.timeout or 10))
        t0 = time.time()
        info = eng.verify_function(n)
        st = {}
        for o in eng.obls:
            st[o.status] = st.get(o.status, 0) + 1
        print("%-55s %s obligations=%d %s paths=%d %.1fs %s" % (n, info["status"], len(eng.obls), st, info["paths"],
                                                            time.time() - t0, info["error"] or ""))
        if info.get("vacuous_exits"):
            print("    VACUOUS exits:", info["vacuous_exits"])
        print("    live exits:", info.get("live_exits", 0))
        for o in eng.obls:
            if o.status != "proved":
                bad += 1
                print("    %-9s %s line=%s path=%s" % (o.status, o.name, o.line, "/".join(o.path)))
    return 1 if bad else 0


if __name__ == "__main__":
    sys.exit(main(sys.argv[1:]))
