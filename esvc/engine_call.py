"""Calls: functions under contract (modular), inlined helpers, builtins, spec vocabulary."""
import ast
import copy

import z3

from .values import (HArr, HArr2, HList, HObj, HStruct, Ref, SliceV, State, Unsupported, SpecError, Func, Prim,
                     Module, ClassV, ExcClass, ExcValue, Bound, Opaque, SpecLambda, UNDEF, to_z3, truth, zand, zor,
                     znot, zimplies, kind_of, is_sym, as_const, SORTS)
from .engine_expr import GenExp, RangeV, EnumV, ZipV, SpecArr, POISON, Poison
from .nplib import fresh, I, R


class CallMixin:
    def ev_Call(self, node, st, fr):
        if fr.spec and isinstance(node.func, ast.Name) and node.func.id == "old":
            entry = fr.entry
            if entry is None:
                raise SpecError("old() without an entry state")
            fr0 = self.sub_frame(fr)
            fr0.qvars = dict(fr.qvars)
            v = self.ev1(node.args[0], entry, fr0)
            if isinstance(v, Ref) and isinstance(entry.get(v), HArr):
                v = self.spec_arr(v, entry)
            elif isinstance(v, Ref) and type(entry.get(v)).__name__ == "HBO":
                v = entry.get(v)          # immutable snapshot of the byte-order view at entry
            elif isinstance(v, Ref) and isinstance(entry.get(v), HArr2):
                h = entry.get(v)
                v = Spec2(h.kind, h.n0, h.n1, h.data)
            yield st, v
            return
        if fr.spec and isinstance(node.func, ast.Name) and node.func.id == "prov":
            name = node.args[0].id
            if name not in st.prov:
                raise SpecError("prov(%s): variable has no recorded origin" % name)
            yield st, st.prov[name]
            return
        if any(isinstance(a, ast.Starred) for a in node.args) or any(k.arg is None for k in node.keywords):
            # **keys forwarding: supported only when the dict is empty/absent
            pass
        for s0, f in self.ev(node.func, st, fr):
            if isinstance(f, Poison) or s0.dead:
                continue
            for s1, args0 in self.ev_many([a.value if isinstance(a, ast.Starred) else a for a in node.args], s0, fr):
                args = []
                for an, av in zip(node.args, args0):
                    if isinstance(an, ast.Starred):
                        if not isinstance(av, tuple):
                            raise Unsupported("*args of a non-tuple", node)
                        args.extend(av)
                    else:
                        args.append(av)
                kws = [k for k in node.keywords if k.arg is not None]
                star = [k for k in node.keywords if k.arg is None]
                for s2, kvals in self.ev_many([k.value for k in kws], s1, fr):
                    kwargs = dict(zip([k.arg for k in kws], kvals))
                    for k in star:
                        d = self.ev1(k.value, s2, fr)
                        if isinstance(d, Ref) and isinstance(s2.get(d), HObj):
                            for kk, vv in s2.get(d).items.items():
                                kwargs[kk] = vv
                        elif isinstance(d, dict):
                            kwargs.update(d)
                        else:
                            raise Unsupported("** of a non-constant dict", node)
                    if any(isinstance(a, Poison) for a in args) or any(isinstance(a, Poison) for a in kwargs.values()):
                        continue
                    yield from self.call(f, args, kwargs, s2, fr, node)

    def call(self, f, args, kwargs, st, fr, node):
        """generator of (state, value). Exceptions raised by the callee are delivered through self.pending_raise"""
        if isinstance(f, Bound):
            if isinstance(f.func, Func):
                yield from self.call(f.func, [f.selfv] + list(args), kwargs, st, fr, node)
            else:
                yield from self.call_prim(f.func.name, [f.selfv] + list(args), kwargs, st, fr, node)
            return
        if isinstance(f, Prim):
            yield from self.call_prim(f.name, args, kwargs, st, fr, node)
            return
        if isinstance(f, Func):
            if f.module == "<spec>":
                yield st, self.call_spec_func(f, args, kwargs, st, fr, node)
                return
            c = self.contracts.get(f.fullname)
            caller = fr.contract
            if caller is not None and f.qualname in caller.callee_contracts:
                c = self.contracts[caller.callee_contracts[f.qualname]]
            force_inline = caller is not None and (f.fullname in caller.inline_calls or f.qualname in caller.inline_calls)
            if c is not None and not force_inline and not fr.spec:
                yield from self.call_contract(f, c, args, kwargs, st, fr, node)
            else:
                yield from self.call_inline(f, args, kwargs, st, fr, node)
            return
        if isinstance(f, ClassV):
            yield from self.construct(f, args, kwargs, st, fr, node)
            return
        if isinstance(f, ExcClass):
            yield st, ExcValue(f.name)
            return
        if isinstance(f, SpecLambda):
            fr2 = self.sub_frame(f.fr)
            for a, v in zip(f.node.args.args, args):
                fr2.qvars[a.arg] = v
            yield st, self.ev1(f.node.body, st, fr2)
            return
        if isinstance(f, Opaque):
            pm = getattr(self, "p_" + f.tag.replace(".", "_"), None)
            if pm is not None:
                yield from self.call_prim(f.tag, args, kwargs, st, fr, node)
                return
            c = self.contracts.get(f.tag)
            if c is None and f.tag.startswith("import:"):
                # a function of a compiled extension module: the contract of the C function that implements it
                for cc in self.contracts.values():
                    if cc.lang == "c" and cc.runtime_name == f.tag[7:] and "#" not in cc.name:
                        c = cc
                        break
            if c is not None:
                yield from self.call_contract(Func("<opaque>", f.tag, None), c, args, kwargs, st, fr, node)
                return
            if f.tag.startswith("func:"):
                yield st, self.call_uninterpreted(f.tag[5:], args, st, fr, node)
                return
            raise Unsupported("call of opaque value %s" % f.tag, node)
        raise Unsupported("call of %s" % kind_of(f), node)

    def call_uninterpreted(self, name, args, st, fr, node):
        """a parameter of function type: deterministic uninterpreted real function of its scalar arguments"""
        from .nplib import ufunc
        if any(self.is_arr(a, st) for a in args):
            # applied to arrays: element-wise (the integrands of the statement are evaluated point by point)
            arrs = [a for a in args if self.is_arr(a, st)]
            n, _ = self.arr_term(st, arrs[0])
            i = z3.Int("i!f")
            zs = []
            for a in args:
                if self.is_arr(a, st):
                    na, ta = self.arr_term(st, a)
                    if not fr.spec:
                        self.oblige(st, to_z3(na, "int") == to_z3(n, "int"), "safety", "same-length-arguments", node, fr)
                    zs.append(self.coerce_term(ta[i], st.get(a).kind, "real"))
                else:
                    zs.append(to_z3(a, "real"))
            f = ufunc("param_" + name, *([R] * (len(zs) + 1)))
            self.use("a parameter of function type applied to arrays acts element-wise and deterministically")
            return st.alloc(HArr("real", n, z3.Lambda([i], f(*zs)), fresh=True))
        zs = [to_z3(a, "real") for a in args]
        f = ufunc("param_" + name, *([R] * (len(zs) + 1)))
        return f(*zs)

    # ------------------------------------------------------------ binding of arguments
    def bind_args(self, fnode, args, kwargs, st, fr, node, fname="?"):
        a = fnode.args
        params = [p.arg for p in a.posonlyargs + a.args]
        env = {}
        if len(args) > len(params) and a.vararg is None:
            self.oblige(st, False, "safety", "too-many-arguments:%s" % fname, node, fr)
            return None
        for p, v in zip(params, args):
            env[p] = v
        if a.vararg is not None:
            env[a.vararg.arg] = tuple(args[len(params):])
        extra = {}
        for k, v in kwargs.items():
            if k in params or k in [p.arg for p in a.kwonlyargs]:
                if k in env:
                    self.oblige(st, False, "safety", "duplicate-argument:%s" % k, node, fr)
                    return None
                env[k] = v
            elif a.kwarg is not None:
                extra[k] = v
            else:
                self.oblige(st, False, "safety", "unexpected-keyword:%s" % k, node, fr)
                return None
        defaults = a.defaults
        dparams = params[len(params) - len(defaults):] if defaults else []
        for p, d in zip(dparams, defaults):
            if p not in env:
                env[p] = self.eval_default(d, st, fr)
        for p, d in zip(a.kwonlyargs, a.kw_defaults):
            if p.arg not in env and d is not None:
                env[p.arg] = self.eval_default(d, st, fr)
        for p in params + [p.arg for p in a.kwonlyargs]:
            if p not in env:
                self.oblige(st, False, "safety", "missing-argument:%s" % p, node, fr)
                return None
        if a.kwarg is not None:
            env[a.kwarg.arg] = st.alloc(HObj("dict", {}, items=extra))
        return env

    def eval_default(self, d, st, fr):
        try:
            return ast.literal_eval(d)
        except Exception:
            pass
        if isinstance(d, ast.Name) and d.id in ("None", "True", "False"):
            return {"None": None, "True": True, "False": False}[d.id]
        if isinstance(d, (ast.Dict, ast.List)) :
            return self.ev1(d, st, fr)
        return self.ev1(d, st, fr)

    # ------------------------------------------------------------ inlining
    def call_inline(self, f, args, kwargs, st, fr, node):
        if f.node is None:
            raise Unsupported("no body for %s" % f.fullname, node)
        if fr.depth > 12 or f.fullname in fr.inline_stack:
            raise Unsupported("recursive/too deep inlining of %s (needs a contract)" % f.fullname, node)
        from .repoindex import label_loops
        if not hasattr(f.node, "_labelled"):
            label_loops(f.node)
            f.node._labelled = True
        env = self.bind_args(f.node, args, kwargs, st, fr, node, f.qualname)
        if env is None:
            return
        owner = self.stmt_stack[-1]
        fr2 = copy.copy(fr)
        fr2.func = f
        fr2.module = f.module if f.module != "<spec>" else fr.module
        fr2.depth = fr.depth + 1
        fr2.qvars = {}
        fr2.inline_stack = fr.inline_stack + [f.fullname]
        if is_generator(f.node):
            raise Unsupported("call of generator function %s" % f.fullname, node)
        saved_env, saved_prov = st.env, st.prov
        st.env = env
        st.prov = {}
        if f.closure:
            for k, v in f.closure.items():
                st.env.setdefault(k, v)
        for kind, s1, v in self.exec_block(f.node.body, st, fr2):
            s1.env = dict(saved_env)
            s1.prov = dict(saved_prov)
            if kind in ("next", "return"):
                s1.path.append("%s->ret" % f.qualname)
                yield s1, (v if kind == "return" else None)
            elif kind == "raise":
                self.raise_from_expr(s1, v, fr, owner)
            else:
                raise Unsupported("break/continue escaping function", node)

    def raise_from_expr(self, st, exc, fr, owner=None):
        """an exception escaping from a call inside an expression: recorded, delivered at statement level"""
        self.pending.append((owner if owner is not None else self.stmt_stack[-1], st, exc))

    # ------------------------------------------------------------ modular call through the callee's contract
    def call_contract(self, f, c, args, kwargs, st, fr, node):
        self.used_contracts.add(c.name)
        if f.node is not None:
            env = self.bind_args(f.node, args, kwargs, st, fr, node, f.qualname)
        else:
            names = list(c.params.keys())
            env = dict(zip(names, args))
            env.update(kwargs)
            for k, v in c.defaults.items():
                env.setdefault(k, v)
        if env is None:
            return
        # callee frame for clause evaluation
        cf = self.make_spec_frame(f, c, fr)
        pre = st.fork()          # snapshot for old()
        pre.env = dict(env)
        cf.entry = pre
        cur = st
        saved_env, saved_prov = st.env, st.prov
        # 1. preconditions (evaluated on the pre-state with formals bound)
        cur.env = dict(env)
        self.check_arg_types(c, env, cur, fr, node)
        for name, clause in c.requires:
            g = self.spec_eval(clause, cur, cf, c.name + ":" + name)
            cur.env = saved_env
            self.oblige(cur, g, "call-pre", "%s:%s" % (getattr(node, "_ordinal", c.name.split(".")[-1]), name), node, fr)
            cur.env = dict(env)
        # 2. exceptional exits declared by the contract
        for exc, cond, mode in c.raises:
            g = self.spec_eval(cond, cur, cf, c.name + ":raises")
            if g is False:
                continue
            if self.feasible(cur, g):
                e = cur.fork()
                e.env = dict(saved_env)
                e.prov = dict(saved_prov)
                e.pc.append(to_z3(g))
                e.path.append("%s raises %s" % (c.name.split(".")[-1], exc))
                self.raise_from_expr(e, ExcValue(exc), fr)
            if mode in ("iff", "if"):
                self.assume(cur, znot(g))
        # 3. havoc the frame
        # recursion: the callee's measure must decrease
        if c.decreases and fr.contract is not None and fr.contract.name == c.name and not fr.inline_stack:
            mcallee = self.spec_eval_val(c.decreases, cur, cf)
            saved = cur.env
            mcaller = self.spec_eval_val(c.decreases, fr.entry, self.spec_frame(fr))
            cur.env = saved_env
            self.oblige(cur, zand(to_z3(mcallee, "int") < to_z3(mcaller, "int"), to_z3(mcaller, "int") >= 0),
                        "call-variant", "%s:decreases" % getattr(node, "_ordinal", c.name.split(".")[-1]), node, fr)
            cur.env = dict(env)
        composed = []
        from .engine import resolve_mod
        for m in c.modifies:
            obj, fld, is_item = resolve_mod(m, env, cur)
            if fld != "":
                # a field / item of an object: gets a fresh value of the declared post type
                if not (isinstance(obj, Ref) and isinstance(cur.get(obj), HObj)):
                    raise SpecError("modifies %s: base is not an object" % m)
                cur.env = saved_env
                self.frame_check(obj, cur, fr, node, what="attribute %s" % fld, field=fld)
                cur.env = dict(env)
                ty = c.post_types.get(m)
                if ty is None:
                    raise SpecError("modifies %s of %s needs a post_types entry" % (m, c.name))
                if ty.startswith("="):
                    val = self.ev1(ast.parse(ty[1:], mode="eval").body, cur, cf)     # an alias of another location
                else:
                    res = list(self.instantiate(cur, ty, "%s@call%d" % (m, next(_cc)), fresh=True))
                    if len(res) != 1:
                        raise SpecError("post type of %s must not split" % m)
                    val = res[0][1]
                h2 = cur.get(obj).replace()
                if is_item:
                    h2.items[fld] = val
                else:
                    h2.fields[fld] = val
                cur.put(obj, h2)
                continue
            tgt = self.ev1(ast.parse(m, mode="eval").body, cur, cf)
            if isinstance(tgt, Ref):
                hobj = cur.get(tgt)
                if isinstance(hobj, (HArr, HArr2)):
                    cur.env = saved_env
                    self.frame_check(tgt, cur, fr, node)
                    cur.env = dict(env)
                if type(hobj).__name__ == "HBO":
                    cur.env = saved_env
                    self.bo_frame(tgt, cur, fr, node, "bytes")
                    cur.env = dict(env)
                if isinstance(hobj, HArr):
                    root = self.root(cur, tgt)
                    if cur.get(root).org is not None:
                        composed.append((root, cur.get(root).org))
                self.havoc_heap(tgt, cur, "%s@call%d" % (m, next(_cc)))
        # 4. result + postconditions
        if cur.dead:
            return          # a precondition / frame obligation with goal False already failed on this path
        results = [(cur, None)]
        if c.gen:
            from .prims import IterView
            srcv = env[c.gen["source"]] if "source" in c.gen else self.spec_eval_val(c.gen["source_expr"], cur, cf)
            results = [(cur, IterView(srcv))]
        elif c.returns and c.returns != "none":
            rty = c.returns
            if " if " in rty and " else " in rty:
                # "<type A> if <formal> else <type B>" : the result type depends on an option that is constant at the call site
                ta, rest = rty.split(" if ", 1)
                cond, tb = rest.split(" else ", 1)
                cv = self.ev1(ast.parse(cond.strip(), mode="eval").body, cur, cf)
                if not isinstance(cv, bool):
                    raise Unsupported("result type of %s depends on a symbolic option" % c.name, node)
                rty = ta.strip() if cv else tb.strip()
            results = list(self.instantiate(cur, rty, "%s!ret%d" % (c.name.split(".")[-1], next(_cc)), fresh=True))
        for s1, rv in results:
            s1.env = dict(env)
            cf2 = copy.copy(cf)
            cf2.result = rv
            for name, clause in c.ensures:
                self.assume(s1, self.spec_eval(clause, s1, cf2, c.name + ":" + name))
            # origin ghost: the callee's origin map is relative to its own entry; compose with ours
            for root, pre_org in composed:
                hcur = s1.get(root)
                if hcur.org is not None:
                    ii = z3.Int("i!o")
                    s1.put(root, hcur.replace(org=z3.Lambda([ii], pre_org[hcur.org[ii]])))
            s1.env = dict(saved_env)
            s1.prov = dict(saved_prov)
            yield s1, rv

    def check_arg_types(self, c, env, st, fr, node):
        for p, ty in c.params.items():
            if p not in env or not isinstance(ty, str):
                continue
            v = env[p]
            k = kind_of(v)
            ok = True
            if ty in ("int", "nat", "pos"):
                ok = k in ("int", "bool")
            elif ty == "real":
                ok = k in ("int", "real", "bool")
                if k == "int" and isinstance(v, z3.ExprRef):
                    env[p] = to_z3(v, "real")
            elif ty.startswith("arr["):
                ok = isinstance(v, Ref) and isinstance(st.get(v), HArr)
            elif ty == "none":
                ok = v is None
            elif ty.startswith("opt["):
                inner = ty[4:-1]
                ok = v is None or (inner not in ("int", "real") or k in ("int", "real", "bool"))
            if not ok:
                self.oblige(st, False, "call-pre", "%s:type-of-%s" % (c.name.split(".")[-1], p), node, fr)

    def make_spec_frame(self, f, c, fr):
        from .engine import Frame
        cf = Frame(f, c, self, spec=True)
        cf.module = f.module if f.module not in ("<opaque>",) else None
        cf.outer_module = None
        return cf

    # ------------------------------------------------------------ spec helper functions (inlined, pure)
    def call_spec_func(self, f, args, kwargs, st, fr, node):
        from . import speclang
        if f.qualname in speclang.OPAQUE and not kwargs:
            body = self._call_spec_func(f, args, kwargs, st, fr, node)
            if isinstance(body, z3.ExprRef) and kind_of(body) in ("real", "int", "bool"):
                leaves = []

                def flat(v):
                    if isinstance(v, z3.ExprRef):
                        leaves.append(v)
                    elif isinstance(v, (int, float)) and not isinstance(v, bool):
                        leaves.append(to_z3(v, "real"))
                    elif isinstance(v, bool):
                        leaves.append(z3.BoolVal(v))
                    elif isinstance(v, Ref):
                        h = st.get(v)
                        if isinstance(h, HObj):
                            for k in sorted(h.fields):
                                flat(h.fields[k])
                        elif isinstance(h, HArr):
                            n, t = self.arr_term(st, v)
                            leaves.append(to_z3(n, "int"))
                            leaves.append(t)
                        else:
                            raise SpecError("opaque spec function %s: unsupported argument" % f.qualname)
                    elif v is None:
                        pass
                    else:
                        raise SpecError("opaque spec function %s: unsupported argument %r" % (f.qualname, v))
                for a in args:
                    flat(a)
                from .nplib import ufunc
                F = ufunc("SPEC_" + f.qualname, *([x.sort() for x in leaves] + [body.sort()]))
                app = F(*leaves)
                eq = app == body
                # inside a quantified clause the arguments mention bound variables: state the definition for all of them
                bound, seen = [], set()

                def walk(t):
                    if t.get_id() in seen:
                        return
                    seen.add(t.get_id())
                    if z3.is_const(t) and t.decl().kind() == z3.Z3_OP_UNINTERPRETED and "!q" in t.decl().name() and t.sort() == z3.IntSort():
                        bound.append(t)
                    for ch in t.children():
                        walk(ch)
                walk(app)
                if bound:
                    eq = z3.ForAll(bound, eq, patterns=[app])
                if not any(eq.eq(g) for g in st.pc):
                    st.pc.append(eq)
                return app
            return body
        return self._call_spec_func(f, args, kwargs, st, fr, node)

    def _call_spec_func(self, f, args, kwargs, st, fr, node):
        fr2 = self.sub_frame(fr)
        fr2.spec = True
        env = {}
        a = f.node.args
        params = [p.arg for p in a.args]
        for p, v in zip(params, args):
            env[p] = v
        for k, v in kwargs.items():
            env[k] = v
        dparams = params[len(params) - len(a.defaults):] if a.defaults else []
        for p, d in zip(dparams, a.defaults):
            if p not in env:
                env[p] = ast.literal_eval(d)
        fr2.qvars = dict(fr.qvars)
        fr2.qvars.update(env)
        for s in f.node.body:
            if isinstance(s, ast.Expr) and isinstance(s.value, ast.Constant):
                continue
            if isinstance(s, ast.Assign) and len(s.targets) == 1 and isinstance(s.targets[0], ast.Name):
                fr2.qvars[s.targets[0].id] = self.ev1(s.value, st, fr2)
            elif isinstance(s, ast.Return):
                return self.ev1(s.value, st, fr2)
            else:
                raise SpecError("spec function %s: only assignments and a final return are allowed" % f.qualname)
        raise SpecError("spec function %s does not return" % f.qualname)

    # ------------------------------------------------------------ object construction
    def construct(self, cls, args, kwargs, st, fr, node):
        init, owner = self.idx.method(cls.module, cls.name, "__init__")
        ref = st.alloc(HObj(cls.name, {}, fresh=True))
        if init is None:
            yield st, ref
            return
        f = Func(cls.module, owner + ".__init__", init, cls=owner)
        for s1, _ in self.call(f, [ref] + list(args), kwargs, st, fr, node):
            yield s1, ref


def is_generator(fnode):
    for n in ast.walk(fnode):
        if isinstance(n, (ast.Yield, ast.YieldFrom)):
            # not inside a nested function
            return True
    return False


import itertools
_cc = itertools.count()


class Spec2:
    def __init__(self, kind, n0, n1, data):
        self.kind, self.n0, self.n1, self.data = kind, n0, n1, data

