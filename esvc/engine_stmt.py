"""Statements, loops (invariant cut points / unrolling), calls (contracts, inlining, primitives)."""
import ast
import copy

import z3

from .values import (HViewList, HArr, HArr2, HList, HObj, HStruct, Ref, SliceV, State, Unsupported, SpecError, Func, Prim,
                     Module, ClassV, ExcClass, ExcValue, Bound, Opaque, SpecLambda, UNDEF, to_z3, truth, zand, zor,
                     znot, zimplies, kind_of, is_sym, as_const, SORTS)
from .engine_expr import GenExp, RangeV, EnumV, ZipV, SpecArr, POISON, Poison
from .repoindex import assigned_names, label_loops
from .nplib import fresh, I


class StmtMixin:
    # ------------------------------------------------------------ blocks
    def exec_block(self, stmts, st, fr):
        if st.dead:
            return
        if not stmts:
            yield ("next", st, None)
            return
        for kind, s1, v in self.exec_stmt(stmts[0], st, fr):
            if s1.dead:
                continue
            if kind == "next":
                yield from self.exec_block(stmts[1:], s1, fr)
            else:
                yield (kind, s1, v)

    def exec_stmt(self, node, st, fr):
        m = getattr(self, "st_" + type(node).__name__, None)
        if m is None:
            raise Unsupported("statement " + type(node).__name__, node)
        self.paths += 1
        if self.paths > self.max_paths * 50:
            raise Unsupported("path explosion", node)
        me = id(node) + next(_hc) * 0
        tok = object()
        self.stmt_stack.append(tok)
        try:
            for out in m(node, st, fr):
                yield from self.flush_pending(tok)
                yield out
            yield from self.flush_pending(tok)
        finally:
            if self.stmt_stack and self.stmt_stack[-1] is tok:
                self.stmt_stack.pop()
            else:
                try:
                    self.stmt_stack.remove(tok)
                except ValueError:
                    pass

    def flush_pending(self, tok):
        mine = [p for p in self.pending if p[0] is tok]
        if mine:
            self.pending = [p for p in self.pending if p[0] is not tok]
            for _, s, e in mine:
                if not s.dead:
                    yield ("raise", s, e)

    # ------------------------------------------------------------ simple statements
    def st_Pass(self, node, st, fr):
        yield ("next", st, None)

    def st_Global(self, node, st, fr):
        yield ("next", st, None)

    def st_Import(self, node, st, fr):
        for a in node.names:
            st.env[a.asname or a.name.split(".")[0]] = Module(a.name if a.asname else a.name.split(".")[0])
        yield ("next", st, None)

    def st_ImportFrom(self, node, st, fr):
        for a in node.names:
            src = node.module or ""
            if node.level:
                base = fr.module.split(".")[:-node.level]
                src = ".".join(base + ([node.module] if node.module else []))
            st.env[a.asname or a.name] = self.import_from(src, a.name)
        yield ("next", st, None)

    def st_Expr(self, node, st, fr):
        v = node.value
        if isinstance(v, ast.Constant):   # docstring
            yield ("next", st, None)
            return
        if isinstance(v, (ast.Yield, ast.YieldFrom)):
            yield from self.do_yield(v, st, fr)
            return
        if self.is_dropped_call(v):
            # print / stdout.write: arguments still evaluated for definedness
            for s1, _ in self.ev_many(self.call_arg_nodes(v), st, fr):
                yield ("next", s1, None)
            return
        for s1, _ in self.ev(v, st, fr):
            yield ("next", s1, None)

    DROPPED = {"print", "stdout.write", "stderr.write", "sys.stdout.write", "sys.stderr.write", "stdout.flush",
               "sys.stdout.flush", "stderr.flush", "sys.stderr.flush", "warnings.warn", "fflush", "printf", "fprintf",
               "file.write", "file.flush", "self.file.write", "self.file.flush"}

    def is_dropped_call(self, v):
        if isinstance(v, ast.Call):
            try:
                name = ast.unparse(v.func)
            except Exception:
                return False
            return name in self.DROPPED
        return False

    def call_arg_nodes(self, call):
        return [a for a in call.args if not isinstance(a, ast.Starred)] + [k.value for k in call.keywords]

    def st_Assign(self, node, st, fr):
        for s1, v in self.ev(node.value, st, fr):
            if s1.dead:
                continue
            states = [s1]
            for t in node.targets:
                nxt = []
                for s in states:
                    nxt.extend(self.assign(t, v, s, fr, node.value))
                states = nxt
            for s in states:
                yield ("next", s, None)

    def st_AnnAssign(self, node, st, fr):
        if node.value is None:
            yield ("next", st, None)
            return
        for s1, v in self.ev(node.value, st, fr):
            for s in self.assign(node.target, v, s1, fr, node.value):
                yield ("next", s, None)

    def st_AugAssign(self, node, st, fr):
        t = node.target
        if isinstance(t, ast.Name):
            for s1, b in self.ev(node.value, st, fr):
                a = self.lookup(t.id, s1, fr, t)
                if self.is_arr(a, s1) and not getattr(s1.get(a), "islist", False):
                    # in-place numpy update: writes the buffer
                    r = self.binop(node.op, a, b, s1, fr, node)
                    self.arr_assign_all(a, r, s1, fr, node)
                    yield ("next", s1, None)
                    continue
                if isinstance(a, Ref) and isinstance(s1.get(a), HList) and isinstance(node.op, ast.Add):
                    hb = s1.get(b) if isinstance(b, Ref) else None
                    if isinstance(hb, HList):
                        self.frame_check(a, s1, fr, node)
                        s1.put(a, s1.get(a).replace(s1.get(a).items + hb.items))
                        yield ("next", s1, None)
                        continue
                r = self.binop(node.op, a, b, s1, fr, node)
                s1.env[t.id] = r
                s1.prov.pop(t.id, None)
                yield ("next", s1, None)
            return
        # x[i] op= v   /   obj.f op= v
        load = copy.copy(t)
        load.ctx = ast.Load()
        if isinstance(t, ast.Subscript):
            for s1, base in self.ev(t.value, st, fr):
                for s2, idx in self.ev(t.slice, s1, fr):
                    for s3, b in self.ev(node.value, s2, fr):
                        a = self.subscript(base, idx, s3, fr, t)
                        r = self.binop(node.op, a, b, s3, fr, node)
                        for s4 in self.store_subscript(base, idx, r, s3, fr, t, None):
                            yield ("next", s4, None)
            return
        if isinstance(t, ast.Attribute):
            for s1, base in self.ev(t.value, st, fr):
                for s2, b in self.ev(node.value, s1, fr):
                    a = self.getattr(base, t.attr, s2, fr, t)
                    r = self.binop(node.op, a, b, s2, fr, node)
                    self.setattr(base, t.attr, r, s2, fr, t)
                    yield ("next", s2, None)
            return
        raise Unsupported("augmented assignment target", node)

    def assign(self, target, v, st, fr, valnode=None):
        """returns list of states"""
        if st.dead:
            return []
        if isinstance(target, ast.Name):
            st.env[target.id] = v
            # provenance of element copies
            st.prov.pop(target.id, None)
            if valnode is not None and isinstance(valnode, ast.Subscript) and not fr.spec:
                p = self.prov_of_subscript(valnode, st, fr)
                if p is not None:
                    st.prov[target.id] = p
            elif valnode is not None and isinstance(valnode, ast.Name) and valnode.id in st.prov:
                st.prov[target.id] = st.prov[valnode.id]
            return [st]
        if isinstance(target, (ast.Tuple, ast.List)):
            items = self.unpack(v, len(target.elts), st, fr, target)
            if items is None:
                return []
            states = [st]
            for t, x in zip(target.elts, items):
                nxt = []
                for s in states:
                    nxt.extend(self.assign(t, x, s, fr, None))
                states = nxt
            return states
        if isinstance(target, ast.Subscript):
            out = []
            for s1, base in self.ev(target.value, st, fr):
                for s2, idx in self.ev(target.slice, s1, fr):
                    out.extend(self.store_subscript(base, idx, v, s2, fr, target, valnode))
            return out
        if isinstance(target, ast.Attribute):
            out = []
            for s1, base in self.ev(target.value, st, fr):
                self.setattr(base, target.attr, v, s1, fr, target)
                out.append(s1)
            return out
        raise Unsupported("assignment target " + type(target).__name__, target)

    def unpack(self, v, n, st, fr, node):
        if isinstance(v, Poison):
            return None
        if isinstance(v, tuple):
            items = list(v)
        elif isinstance(v, Ref) and isinstance(st.get(v), HList):
            items = list(st.get(v).items)
        elif isinstance(v, Ref) and isinstance(st.get(v), HArr):
            h = st.get(v)
            c = as_const(to_z3(h.n, "int"))
            if c is None:
                self.oblige(st, to_z3(h.n, "int") == n, "safety", "unpack-length", node, fr)
                c = n
            items = [self.arr_get(st, v, k) for k in range(c)]
        else:
            raise Unsupported("unpacking %s" % kind_of(v), node)
        if len(items) != n:
            self.oblige(st, False, "safety", "unpack-length", node, fr)
            self.kill(st, "unpack")
            return None
        return items

    def prov_of_subscript(self, valnode, st, fr):
        """origin ghost of `a[i]` when a is an array carrying an origin map"""
        try:
            fr2 = self.sub_frame(fr)
            fr2.spec = True
            base = self.ev1(valnode.value, st, fr2)
            idx = self.ev1(valnode.slice, st, fr2)
        except (Unsupported, SpecError):
            return None
        if isinstance(base, Ref) and isinstance(st.get(base), HArr) and kind_of(idx) == "int":
            try:
                return self.org_term(st, base)[to_z3(idx, "int")]
            except SpecError:
                return None
        return None

    def setattr(self, base, attr, v, st, fr, node):
        if isinstance(base, Ref) and isinstance(st.get(base), HObj):
            h = st.get(base)
            self.frame_check(base, st, fr, node, what="attribute %s" % attr, field=attr)
            h2 = h.replace()
            h2.fields[attr] = v
            st.put(base, h2)
            return
        if isinstance(base, Ref) and type(st.get(base)).__name__ == "HBO":
            return self.bo_setattr(base, attr, v, st, fr, node)
        raise Unsupported("attribute store on %s" % kind_of(base), node)

    def store_subscript(self, base, idx, v, st, fr, node, valnode):
        if st.dead or isinstance(v, Poison) or isinstance(base, Poison) or isinstance(idx, Poison):
            return []
        if isinstance(base, Ref):
            h = st.get(base)
            if isinstance(h, HArr):
                self.frame_check(base, st, fr, node)
                if isinstance(idx, SliceV):
                    start, stop, step = self.norm_slice(idx, h.n, node)
                    ln = self.slice_len(start, stop, step)
                    self.assign_range(base, start, step, ln, v, st, fr, node)
                    return [st]
                if isinstance(idx, Ref):
                    hi = st.get(idx)
                    if isinstance(hi, HArr) and hi.kind == "int":
                        self.scatter(base, idx, v, st, fr, node)
                        return [st]
                    if isinstance(hi, HArr) and hi.kind == "bool":
                        w = self.where1(idx, st, fr, node)
                        self.scatter(base, w, v, st, fr, node)
                        return [st]
                    raise Unsupported("store through index object", node)
                eff = self.index_ok(st, h.n, idx, fr, node)
                if st.dead:
                    return []
                org = None
                if valnode is not None and isinstance(valnode, ast.Name) and valnode.id in st.prov:
                    org = st.prov[valnode.id]
                elif valnode is not None and isinstance(valnode, ast.Subscript):
                    org = self.prov_of_subscript(valnode, st, fr)
                self.arr_set(st, base, eff, v, org)
                return [st]
            if isinstance(h, HArr2):
                self.frame_check(base, st, fr, node)
                if isinstance(idx, tuple) and len(idx) == 2 and all(kind_of(x) == "int" for x in idx):
                    i = self.index_ok(st, h.n0, idx[0], fr, node)
                    j = self.index_ok(st, h.n1, idx[1], fr, node)
                    st.put(base, h.replace(data=z3.Store(h.data, to_z3(i, "int"), to_z3(j, "int"),
                                                         self.coerce_elem(v, h.kind))))
                    return [st]
                raise Unsupported("2-d store form", node)
            if isinstance(h, HList):
                self.frame_check(base, st, fr, node)
                c = as_const(idx) if is_sym(idx) else idx
                if isinstance(c, int):
                    if not (-len(h.items) <= c < len(h.items)):
                        self.oblige(st, False, "safety", "index", node, fr)
                        return []
                    items = list(h.items)
                    items[c] = v
                    st.put(base, h.replace(items))
                    return [st]
                raise Unsupported("symbolic index store into concrete list", node)
            if isinstance(h, HObj):
                if isinstance(idx, (str, int)):
                    self.frame_check(base, st, fr, node, what="item %r" % (idx,), field=idx)
                    h2 = h.replace()
                    h2.items[idx] = v
                    st.put(base, h2)
                    return [st]
                raise Unsupported("symbolic key store", node)
            if isinstance(h, HStruct):
                if isinstance(idx, str) and idx in h.fields:
                    # b[name] = array : element-wise copy into the field
                    self.arr_assign_all(h.fields[idx], v, st, fr, node)
                    return [st]
                raise Unsupported("structured array store", node)
        raise Unsupported("store into %s" % kind_of(base), node)

    def assign_range(self, base, start, step, ln, v, st, fr, node):
        """base[start + k*step] = v[k] (or scalar v) for k < ln"""
        root = self.root(st, base)
        h = st.get(base)
        n, cur = self.arr_term(st, base)
        i = z3.Int("i!a")
        start, ln = to_z3(start, "int"), to_z3(ln, "int")
        if isinstance(v, Ref) and isinstance(st.get(v), (HArr, HList)):
            if isinstance(st.get(v), HList):
                v = self.list_to_arr(v, st)
            m, src = self.arr_term(st, v)
            self.oblige(st, zor(to_z3(m, "int") == ln, to_z3(m, "int") == 1), "safety", "slice-assign-shape", node, fr)
            k = (i - start) / step if step != 1 else (i - start)
            val = z3.If(to_z3(m, "int") == 1, src[0], src[k]) if as_const(to_z3(m, "int")) is None else (src[0] if as_const(to_z3(m, "int")) == 1 and as_const(ln) != 1 else src[k])
            val = self.coerce_term(val, st.get(v).kind, h.kind)
        else:
            val = self.coerce_elem(v, h.kind)
        inr = z3.And(i >= start, i < start + ln * step)
        if step != 1:
            inr = z3.And(inr, (i - start) % step == 0)
        newv = z3.Lambda([i], z3.If(inr, val, cur[i]))
        if getattr(self, "materialize", False) and st.get(base).base is None:
            newv = self.mat(st, n, newv, h.kind)
        self.write_all(base, newv, st)

    def coerce_term(self, t, kfrom, kto):
        if kfrom == kto:
            return t
        if kto == "real":
            return to_z3(t, "real")
        if kto == "int" and kfrom == "real":
            return self.trunc(t)
        if kto == "int" and kfrom == "bool":
            return to_z3(t, "int")
        raise Unsupported("array store coercion %s->%s" % (kfrom, kto))

    def write_all(self, ref, newterm, st):
        """replace the visible content of array `ref` (view aware) with newterm (indexed in view coordinates)"""
        h = st.get(ref)
        if h.base is None:
            st.put(ref, h.replace(data=newterm, org=None if h.org is None else h.org))
            return
        bref, off, step = h.base
        off, step = to_z3(off, "int"), to_z3(step, "int")
        _, bcur = self.arr_term(st, bref)
        j = z3.Int("j!w")
        sc = as_const(step)
        if sc == 1:
            inview = z3.And(j >= off, j < off + to_z3(h.n, "int"))
            k = j - off
        else:
            inview = z3.And(j >= off, j < off + to_z3(h.n, "int") * step, (j - off) % step == 0)
            k = (j - off) / step
        self.write_all(bref, z3.Lambda([j], z3.If(inview, newterm[k], bcur[j])), st)

    def arr_assign_all(self, ref, v, st, fr, node):
        """ref[...] = v  (whole-array element-wise store, numpy broadcasting of scalars)"""
        self.frame_check(ref, st, fr, node)
        h = st.get(ref)
        self.assign_range(ref, 0, 1, h.n, v, st, fr, node)

    def scatter(self, base, idx, v, st, fr, node):
        """a[idx] = v with idx an int array: a'[j] = v(k) if j == idx[k] for some k (last wins; we require distinct or scalar v)"""
        n, cur = self.arr_term(st, base)
        m, ix = self.arr_term(st, idx)
        h = st.get(base)
        k = fresh("k", I)
        self.oblige(st, z3.ForAll([k], z3.Implies(z3.And(k >= 0, k < to_z3(m, "int")), z3.And(ix[k] >= 0, ix[k] < to_z3(n, "int")))),
                    "safety", "fancy-store-in-bounds", node, fr)
        new = fresh("scatter", z3.ArraySort(I, SORTS[h.kind]))
        j = fresh("j", I)
        if isinstance(v, Ref):
            mv, src = self.arr_term(st, v)
            self.oblige(st, to_z3(mv, "int") == to_z3(m, "int"), "safety", "fancy-store-shape", node, fr)
            k2 = fresh("k", I)
            # requires distinct indices for a deterministic result
            self.assume(st, z3.ForAll([k], z3.Implies(z3.And(k >= 0, k < to_z3(m, "int")), new[ix[k]] == src[k])))
            self.note("scatter with array value assumes pairwise distinct indices")
        else:
            val = self.coerce_elem(v, h.kind)
            self.assume(st, z3.ForAll([k], z3.Implies(z3.And(k >= 0, k < to_z3(m, "int")), new[ix[k]] == val)))
        hit = fresh("hit", z3.ArraySort(I, I))
        # cells not named by idx keep their value: for every j either some k names it or it is unchanged
        self.assume(st, z3.ForAll([j], z3.Or(new[j] == cur[j],
                                             z3.And(hit[j] >= 0, hit[j] < to_z3(m, "int"), ix[hit[j]] == j))))
        self.write_all(base, new, st)

    def frame_check(self, ref, st, fr, node, what="array", field=None):
        """writes must target memory that is fresh in this call or listed in `modifies`"""
        if fr.spec:
            return
        root = self.root(st, ref) if isinstance(st.get(ref), HArr) else ref
        h = st.get(root)
        if getattr(h, "fresh", True):
            return
        allowed = getattr(fr, "modifiable", None)
        if allowed is None:
            return
        if root.id in allowed:
            spec = allowed[root.id]
            if spec is True or field is None or field in spec:
                return
        self.oblige(st, False, "frame", "write-to-%s-not-in-modifies" % what.split()[0], node, fr)

    # ------------------------------------------------------------ control flow
    def st_If(self, node, st, fr):
        for s1, c in self.ev(node.test, st, fr):
            if s1.dead:
                continue
            t = self.truth_of(c, s1, node)
            if isinstance(t, bool):
                yield from self.exec_block(node.body if t else node.orelse, s1, fr)
                continue
            ft = self.feasible(s1, t)
            ff = self.feasible(s1, znot(t))
            if ft:
                s2 = s1.fork() if ff else s1
                s2.pc.append(to_z3(t))
                s2.path.append("if@%d:T" % node.lineno)
                yield from self.exec_block(node.body, s2, fr)
            if ff:
                s3 = s1.fork() if ft else s1
                if ft:
                    # s1 may have been mutated by the true branch only if not forked; it was forked
                    pass
                s3.pc.append(to_z3(znot(t)))
                s3.path.append("if@%d:F" % node.lineno)
                yield from self.exec_block(node.orelse, s3, fr)

    def st_Return(self, node, st, fr):
        if getattr(node, "_retlabel", None):
            self.run_asserts("%s:before" % node._retlabel, st, fr, node)
        if node.value is None:
            yield ("return", st, None)
            return
        for s1, v in self.ev(node.value, st, fr):
            if not s1.dead:
                self.run_ret_post(node, s1, v, fr)
                yield ("return", s1, v)

    def run_ret_post(self, node, st, v, fr):
        """postconditions stated at a labelled return: they may mention the function's locals (ghost-free witness of the
        statement's existential); obligation kind is "post" like any other postcondition"""
        c = fr.contract
        lab = getattr(node, "_retlabel", None)
        if c is None or fr.spec or fr.inline_stack or not c.ret_post or lab not in c.ret_post:
            return
        fr2 = self.sub_frame(fr)
        fr2.result = v
        for name, clause in c.ret_post[lab].items():
            g = self.spec_eval(clause, st, fr2, c.name + ":" + name)
            self.oblige_no_assume(st, g, "post", name, node, fr)

    def st_Break(self, node, st, fr):
        yield ("break", st, None)

    def st_Continue(self, node, st, fr):
        yield ("continue", st, None)

    def st_Raise(self, node, st, fr):
        if node.exc is None:
            yield ("raise", st, ExcValue("<reraise>"))
            return
        exc = node.exc
        if isinstance(exc, ast.Call):
            # message construction is dropped; the class is kept; arguments are evaluated for definedness
            clsv = self.ev1(exc.func, st, fr)
            s = st
            for a in self.call_arg_nodes(exc):
                try:
                    res = list(self.ev(a, s, fr))
                    if len(res) == 1:
                        s = res[0][0]
                except Unsupported:
                    pass
            name = clsv.name if isinstance(clsv, (ExcClass, ClassV)) else "Exception"
            yield ("raise", s, ExcValue(name))
            return
        v = self.ev1(exc, st, fr)
        name = v.name if isinstance(v, (ExcClass, ClassV)) else (v.cls if isinstance(v, ExcValue) else "Exception")
        yield ("raise", st, ExcValue(name))

    def st_Assert(self, node, st, fr):
        for s1, c in self.ev(node.test, st, fr):
            t = self.truth_of(c, s1, node)
            self.oblige(s1, t, "safety", "assert", node, fr)
            yield ("next", s1, None)

    def st_Delete(self, node, st, fr):
        for t in node.targets:
            if isinstance(t, ast.Name):
                st.env[t.id] = UNDEF
            elif isinstance(t, ast.Subscript):
                base = self.ev1(t.value, st, fr)
                key = self.ev1(t.slice, st, fr)
                if isinstance(base, Ref) and isinstance(st.get(base), HObj) and isinstance(key, (str, int)):
                    h = st.get(base)
                    if key not in h.items:
                        self.oblige(st, False, "safety", "key-present:%s" % key, node, fr)
                        return
                    h2 = h.replace()
                    del h2.items[key]
                    st.put(base, h2)
                else:
                    raise Unsupported("del target", node)
            else:
                raise Unsupported("del target", node)
        yield ("next", st, None)

    def st_FunctionDef(self, node, st, fr):
        st.env[node.name] = Func(fr.module, node.name, node, closure=dict(st.env))
        yield ("next", st, None)

    def st_With(self, node, st, fr):
        # context managers: the context expression is evaluated and bound; __enter__/__exit__ are not modelled
        if len(node.items) != 1:
            raise Unsupported("with statement with several items", node)
        it = node.items[0]
        for s1, v in self.ev(it.context_expr, st, fr):
            states = [s1]
            if it.optional_vars is not None:
                states = self.assign(it.optional_vars, v, s1, fr, None)
            for s2 in states:
                yield from self.exec_block(node.body, s2, fr)

    def do_yield(self, node, st, fr):
        """`yield e` in a generator verified as a producer of a ghost output trace (DESIGN appendix A3)"""
        if isinstance(node, ast.YieldFrom):
            raise Unsupported("yield from", node)
        g = getattr(fr, "gen", None)
        if g is None:
            raise Unsupported("yield in a function whose contract has no gen= clause", node)
        for s1, v in self.ev(node.value, st, fr):
            n_out = s1.ghost["out_n"]
            n_src, item = g["seq"]
            self.oblige(s1, to_z3(n_out, "int") < to_z3(n_src, "int"), "gen", "yield-count-within-source", node, fr)
            want = item(s1, n_out)
            self.oblige(s1, self.compare(ast.Eq(), v, want, s1, fr, node), "gen", "yields-items-in-order", node, fr)
            self.oblige(s1, to_z3(s1.ghost.get("consumed", 0), "int") == to_z3(n_out, "int") + 1, "gen",
                        "lazy-one-item-consumed-per-yield", node, fr)
            s1.ghost["out_n"] = z3.simplify(to_z3(n_out, "int") + 1)
            yield ("next", s1, None)

    EXC_PARENTS = {"FileNotFoundError": "OSError", "IOError": "OSError", "IndexError": "LookupError",
                   "KeyError": "LookupError", "ZeroDivisionError": "ArithmeticError"}

    def exc_matches(self, name, handler_type, st, fr):
        if handler_type is None:
            return True
        t = self.ev1(handler_type, st, fr)
        names = [x.name for x in (t if isinstance(t, tuple) else (t,)) if isinstance(x, (ExcClass, ClassV))]
        if "Exception" in names or "BaseException" in names:
            return name != "KeyboardInterrupt" or "BaseException" in names
        n = name
        while n:
            if n in names or (n == "IOError" and "OSError" in names) or (n == "OSError" and "IOError" in names):
                return True
            n = self.EXC_PARENTS.get(n)
        return False

    def st_Try(self, node, st, fr):
        if node.finalbody:
            raise Unsupported("try/finally", node)
        for kind, s1, v in self.exec_block(node.body, st, fr):
            if kind == "raise":
                handled = False
                for h in node.handlers:
                    if self.exc_matches(v.cls, h.type, s1, fr):
                        if h.name:
                            s1.env[h.name] = v
                        yield from self.exec_block(h.body, s1, fr)
                        handled = True
                        break
                if not handled:
                    yield (kind, s1, v)
            elif kind == "next" and node.orelse:
                yield from self.exec_block(node.orelse, s1, fr)
            else:
                yield (kind, s1, v)

    # ------------------------------------------------------------ loops
    def st_While(self, node, st, fr):
        yield from self.loop(node, st, fr, None)

    def st_For(self, node, st, fr):
        for s1, it in self.ev(node.iter, st, fr):
            yield from self.loop(node, s1, fr, it)

    def loop_spec(self, node, fr):
        c = fr.contract
        label = getattr(node, "_label", None)
        if c is None or label is None or fr.inline_stack:
            if c is not None and label is not None and fr.inline_stack:
                key = fr.inline_stack[-1] + ":" + label
                return c.loops.get(key), key
            return None, label
        return c.loops.get(label), label

    def loop(self, node, st, fr, it):
        spec, label = self.loop_spec(node, fr)
        isfor = isinstance(node, ast.For)
        self.run_asserts("%s:before" % label, st, fr, node)
        if spec is None:
            yield from self.unroll(node, st, fr, it, label)
            return
        # ---- invariant-based treatment
        cnt = None
        seq = None
        if isfor:
            # desugar: hidden counter k over a sequence description (length, item(k))
            seq = self.seq_of(it, st, node)
            cnt_name = spec.get("counter", "_k_" + label.replace(".", "_"))
            st.env[cnt_name] = 0
            cnt = cnt_name
        inv = spec.get("inv", [])
        inv = list(inv.items()) if isinstance(inv, dict) else [("inv%d" % k, c) for k, c in enumerate(inv)]
        # 1. establish
        for name, clause in inv:
            g = self.spec_eval(clause, st, fr, label + ":" + name)
            self.oblige(st, g, "loop-init", "%s:%s" % (label, name), node, fr)
        # 2. havoc
        names, written, attrs = assigned_names(node.body + node.orelse)
        if cnt:
            names.add(cnt)
        for extra in spec.get("modifies", []):
            written.add(extra)
        h = st.fork()
        h.path.append("%s:iter" % label)
        self.havoc_names(h, names, written, attrs, fr, spec, label, node)
        has_yield = any(isinstance(x, (ast.Yield, ast.YieldFrom)) for b in node.body for x in ast.walk(b))
        if has_yield and "out_n" in h.ghost:
            h.ghost["out_n"] = z3.Int("out_n@%s!%d" % (label, next(_hc)))
            self.assume(h, h.ghost["out_n"] >= 0)
        is_source = isfor and getattr(fr, "gen", None) is not None and self.is_gen_source(it, fr)
        if is_source:
            # by construction of the desugared loop: items consumed so far == hidden counter
            h.ghost["consumed"] = h.env[cnt]
        if isfor:
            # the for target is (re)bound at the start of each iteration
            pass
        for name, clause in inv:
            self.assume(h, self.spec_eval(clause, h, fr, label + ":" + name))
        if cnt:
            self.assume(h, to_z3(h.env[cnt], "int") >= 0)
            self.assume(h, to_z3(h.env[cnt], "int") <= to_z3(seq[0], "int"))
        dec = spec.get("dec")
        # cover guard against vacuous invariants: a second iteration must be possible under the invariant
        if cnt and not spec.get("at_most_once"):
            kk = to_z3(h.env[cnt], "int")
            if not self.feasible(h, z3.And(kk >= 1, kk < to_z3(seq[0], "int"))):
                self.vacuity_warnings.append("%s: loop %s: invariant excludes every iteration after the first" % (self.cur_func, label))
        # 3. guard
        if isfor:
            k = h.env[cnt]
            guard = to_z3(k, "int") < to_z3(seq[0], "int")
            gstates = [(h, guard)]
        else:
            gstates = []
            for s1, c in self.ev(node.test, h, fr):
                gstates.append((s1, self.truth_of(c, s1, node)))
        for s1, guard in gstates:
            # ---- body
            if guard is not False and self.feasible(s1, guard):
                b = s1.fork()
                b.pc.append(to_z3(guard))
                b.path.append("%s:body" % label)
                decval = self.spec_eval_val(dec, b, fr) if dec else None
                if isfor:
                    k = b.env[cnt]
                    item = seq[1](b, k)
                    if is_source:
                        b.ghost["consumed"] = z3.simplify(to_z3(k, "int") + 1)
                    for b2 in self.assign(node.target, item, b, fr, None):
                        b2.env[cnt] = to_z3(k, "int") + 1
                        yield from self.loop_body(node, b2, fr, inv, label, dec, decval)
                else:
                    yield from self.loop_body(node, b, fr, inv, label, dec, decval)
            # ---- exit
            if guard is not True and self.feasible(s1, znot(guard)):
                e = s1.fork()
                e.pc.append(to_z3(znot(guard)))
                e.path.append("%s:exit" % label)
                if isfor and is_source:
                    e.ghost["consumed"] = seq[0]
                self.run_asserts("%s:after" % label, e, fr, node)
                if node.orelse:
                    yield from self.exec_block(node.orelse, e, fr)
                else:
                    yield ("next", e, None)

    def loop_body(self, node, b, fr, inv, label, dec, decval):
        for kind, s2, v in self.exec_block(node.body, b, fr):
            if kind in ("next", "continue"):
                for name, clause in inv:
                    g = self.spec_eval(clause, s2, fr, label + ":" + name)
                    self.oblige(s2, g, "loop-preserve", "%s:%s" % (label, name), node, fr)
                if dec:
                    d2 = self.spec_eval_val(dec, s2, fr)
                    self.oblige(s2, zand(to_z3(d2, "int") < to_z3(decval, "int"), to_z3(decval, "int") >= 0),
                                "loop-variant", "%s:decreases" % label, node, fr)
            elif kind == "break":
                yield ("next", s2, None)
            else:
                yield (kind, s2, v)

    def is_gen_source(self, it, fr):
        src = fr.gen.get("source_value")
        while isinstance(it, EnumV):
            it = it.inner
        return it is src or (isinstance(it, RangeV) and isinstance(src, RangeV))

    def havoc_names(self, st, names, written, attrs, fr, spec, label, node):
        tag = "%s!%d" % (label, next(_hc))
        ltypes = spec.get("locals", {}) if spec else {}
        for n in sorted(set(names) | set(getattr(names, "mutated", ()))):
            if n in ltypes and isinstance(ltypes[n], str) and ltypes[n].startswith("viewlist:"):
                base = st.env[ltypes[n][9:]]
                nn = z3.Int(n + "@" + tag + "!len")
                self.assume(st, nn >= 0)
                st.env[n] = st.alloc(HViewList(nn, base, z3.Array(n + "@" + tag + "!off", z3.IntSort(), z3.IntSort()),
                                               z3.Array(n + "@" + tag + "!ln", z3.IntSort(), z3.IntSort())))
                continue
            if n not in names and n not in ltypes:
                continue
            if n in ltypes:
                res = list(self.instantiate(st, ltypes[n], n + "@" + tag))
                if len(res) != 1:
                    raise SpecError("loop local type must not split: " + n)
                st.env[n] = res[0][1]
                continue
            cur = st.env.get(n, UNDEF)
            if cur is UNDEF:
                st.env[n] = UNDEF
                continue
            st.env[n] = self.havoc_value(cur, st, n + "@" + tag, node)
            st.prov.pop(n, None)
        for w in sorted(written):
            try:
                fr2 = self.sub_frame(fr)
                fr2.spec = True
                ref = self.ev1(ast.parse(w, mode="eval").body, st, fr2)
            except (Unsupported, SpecError, KeyError):
                continue
            if isinstance(ref, Ref):
                self.havoc_heap(ref, st, w + "@" + tag)
        for a in sorted(attrs):
            base, _, attr = a.rpartition(".")
            try:
                fr2 = self.sub_frame(fr)
                fr2.spec = True
                ref = self.ev1(ast.parse(base, mode="eval").body, st, fr2)
            except (Unsupported, SpecError, KeyError):
                continue
            if isinstance(ref, Ref) and isinstance(st.get(ref), HObj):
                h = st.get(ref)
                if attr in h.fields:
                    h2 = h.replace()
                    h2.fields[attr] = self.havoc_value(h.fields[attr], st, a + "@" + tag, node)
                    st.put(ref, h2)

    def havoc_value(self, cur, st, name, node=None):
        k = kind_of(cur)
        if isinstance(cur, bool) or k == "bool":
            return z3.Bool(name)
        if k == "int":
            return z3.Int(name)
        if k == "real":
            return z3.Real(name)
        if k == "none":
            return None
        if isinstance(cur, Ref):
            # the variable may be rebound to another object: we only support in-place mutation or rebinding to an
            # object of the same shape class; the heap object is havocked, identity kept
            h = st.get(cur)
            if isinstance(h, HArr):
                # rebinding inside loops: give a fresh array object
                n = z3.Int(name + "!len")
                self.assume(st, n >= 0)
                data = z3.Array(name + "!data", z3.IntSort(), SORTS[h.kind])
                return st.alloc(HArr(h.kind, n, data, org=None, fresh=True, islist=h.islist))
            return cur
        if isinstance(cur, tuple):
            return tuple(self.havoc_value(x, st, "%s.%d" % (name, i), node) for i, x in enumerate(cur))
        if isinstance(cur, (str, Opaque, Func, Prim, Module, SliceV)):
            return cur
        raise Unsupported("cannot havoc loop variable of kind %s (%s)" % (k, name), node)

    def havoc_heap(self, ref, st, name):
        h = st.get(ref)
        if isinstance(h, HArr):
            root = self.root(st, ref)
            hr = st.get(root)
            data = z3.Array(name + "!data%d" % next(_hc), z3.IntSort(), SORTS[hr.kind])
            org = z3.Array(name + "!org%d" % next(_hc), z3.IntSort(), z3.IntSort()) if hr.org is not None else None
            st.put(root, hr.replace(data=data, org=org))
        elif isinstance(h, HArr2):
            data = z3.Array(name + "!data%d" % next(_hc), z3.IntSort(), z3.IntSort(), SORTS[h.kind])
            st.put(ref, h.replace(data=data))
        elif isinstance(h, HStruct):
            for f, r in h.fields.items():
                self.havoc_heap(r, st, name + "." + f)
        elif type(h).__name__ == "HBO":
            # byte-order array: every field gets unknown bytes and an unknown (valid) order code
            order, raw = {}, {}
            for k in h.keys():
                tag = "%s.%s!%d" % (name, k, next(_hc))
                o = z3.Int(tag + "!order")
                st.pc.append(z3.And(o >= 0, o <= 3, (o == 3) == (h.order[k] == 3)))
                order[k] = o
                raw[k] = z3.Int(tag + "!bytes")
            st.put(ref, h.replace(order=order, raw=raw))
        elif isinstance(h, HList):
            raise Unsupported("list mutated inside a loop with an invariant (use a typed local)")
        elif isinstance(h, HObj):
            h2 = h.replace()
            for k, v in h.items.items():
                if kind_of(v) in ("int", "real", "bool"):
                    h2.items[k] = self.havoc_value(v, st, "%s[%s]" % (name, k))
                elif isinstance(v, Ref):
                    self.havoc_heap(v, st, "%s[%s]" % (name, k))
            st.put(ref, h2)

    def seq_of(self, it, st, node):
        """(length, item(state,k)) for iterables usable in for loops with invariants"""
        if isinstance(it, RangeV):
            lo, hi, step = it.lo, it.hi, it.step
            sc = as_const(step) if is_sym(step) else step
            if sc != 1:
                if isinstance(sc, int) and sc > 1:
                    d = to_z3(hi, "int") - to_z3(lo, "int")
                    n = z3.If(d <= 0, 0, (d + sc - 1) / sc)
                    return n, (lambda s, k: to_z3(lo, "int") + to_z3(k, "int") * sc)
                raise Unsupported("range step in invariant loop", node)
            d = to_z3(hi, "int") - to_z3(lo, "int")
            n = z3.simplify(z3.If(d < 0, 0, d))
            return n, (lambda s, k: z3.simplify(to_z3(lo, "int") + to_z3(k, "int")))
        if isinstance(it, Ref):
            h = st.get(it)
            if isinstance(h, HArr):
                # iteration reads the array as it is at each step (numpy semantics for in-place mutation)
                return h.n, (lambda s, k: self.arr_get(s, it, k))
            if isinstance(h, HList):
                n = len(h.items)
                return n, (lambda s, k: self.list_subscript(it, s.get(it), k, s, _SpecFrame, node))
        if isinstance(it, EnumV):
            n, f = self.seq_of(it.inner, st, node)
            return n, (lambda s, k: (z3.simplify(to_z3(k, "int") + it.start), f(s, k)))
        if isinstance(it, ZipV):
            subs = [self.seq_of(x, st, node) for x in it.inners]
            n = subs[0][0]
            for x in subs[1:]:
                n = z3.If(to_z3(x[0], "int") < to_z3(n, "int"), to_z3(x[0], "int"), to_z3(n, "int"))
            return n, (lambda s, k: tuple(x[1](s, k) for x in subs))
        if isinstance(it, AbsIter):
            return it.n, (lambda s, k: it.item(s, k))
        from .prims import AbsIterable
        if isinstance(it, AbsIterable):
            return it.total, (lambda s, k: it.items[to_z3(k, "int")])
        raise Unsupported("iteration over %s in a loop with invariant" % kind_of(it), node)

    def unroll(self, node, st, fr, it, label):
        """no invariant given: the loop must have a concrete trip count (bounded by contract.unroll)"""
        limit = fr.contract.unroll if fr.contract is not None else 64
        if isinstance(node, ast.For):
            try:
                items = self.concrete_iter(it, st, node)
            except Unsupported as e:
                raise Unsupported("loop %s needs an invariant (symbolic iteration): %s" % (label, e), node)
            if len(items) > limit:
                raise Unsupported("loop %s: %d iterations exceed the unroll limit" % (label, len(items)), node)

            def run(s, k):
                if k == len(items):
                    if node.orelse:
                        yield from self.exec_block(node.orelse, s, fr)
                    else:
                        yield ("next", s, None)
                    return
                for s1 in self.assign(node.target, items[k], s, fr, None):
                    for kind, s2, v in self.exec_block(node.body, s1, fr):
                        if kind in ("next", "continue"):
                            yield from run(s2, k + 1)
                        elif kind == "break":
                            yield ("next", s2, None)
                        else:
                            yield (kind, s2, v)
            yield from run(st, 0)
            return

        def runw(s, depth):
            if depth > limit:
                raise Unsupported("while loop %s needs an invariant (not bounded by unrolling %d)" % (label, limit), node)
            for s1, c in self.ev(node.test, s, fr):
                t = self.truth_of(c, s1, node)
                if t is False or (t is not True and not self.feasible(s1, t)):
                    if t is not False and t is not True:
                        s1.pc.append(to_z3(znot(t)))
                    if node.orelse:
                        yield from self.exec_block(node.orelse, s1, fr)
                    else:
                        yield ("next", s1, None)
                    continue
                if t is not True and self.feasible(s1, znot(t)):
                    e = s1.fork()
                    e.pc.append(to_z3(znot(t)))
                    e.path.append("%s:exit%d" % (label, depth))
                    if node.orelse:
                        yield from self.exec_block(node.orelse, e, fr)
                    else:
                        yield ("next", e, None)
                if t is not True:
                    s1.pc.append(to_z3(t))
                for kind, s2, v in self.exec_block(node.body, s1, fr):
                    if kind in ("next", "continue"):
                        yield from runw(s2, depth + 1)
                    elif kind == "break":
                        yield ("next", s2, None)
                    else:
                        yield (kind, s2, v)
        yield from runw(st, 0)

    # ------------------------------------------------------------ ghost assertions / lemmas at program points
    def run_asserts(self, point, st, fr, node):
        c = fr.contract
        if c is None or fr.spec or not c.asserts or fr.inline_stack:
            return
        clauses = c.asserts.get(point)
        if not clauses:
            return
        clauses = list(clauses.items()) if isinstance(clauses, dict) else [("a%d" % k, x) for k, x in enumerate(clauses)]
        for name, clause in clauses:
            tree = self.parse_clause(clause)
            if isinstance(tree, ast.Call) and isinstance(tree.func, ast.Name) and tree.func.id == "induct":
                self.induct(tree, st, fr, "%s:%s" % (point, name), node)
            elif isinstance(tree, ast.Call) and isinstance(tree.func, ast.Name) and tree.func.id == "assume_axiom":
                # a named axiom (an assumption that is reported as such)
                g = self.spec_eval(ast.unparse(tree.args[0]), st, fr, point)
                self.assumptions_used.add("axiom %s in %s: %s" % (name, c.name, ast.unparse(tree.args[0])))
                self.assume(st, g)
            else:
                g = self.spec_eval(clause, st, fr, point + ":" + name)
                self.oblige(st, g, "lemma", "%s:%s" % (point, name), node, fr)

    def induct(self, tree, st, fr, label, node):
        """induct(k, lo, hi, P(k)): proves P(lo) and P(k) => P(k+1) for lo <= k < hi, then assumes forall k in [lo,hi]"""
        kname = tree.args[0].id
        sf = self.spec_frame(fr)
        lo = to_z3(self.ev1(tree.args[1], st, sf), "int")
        hi = to_z3(self.ev1(tree.args[2], st, sf), "int")
        body = tree.args[3]

        def P(kval):
            f2 = self.sub_frame(sf)
            f2.qvars[kname] = kval
            return to_z3(self.truth_of(self.ev1(body, st, f2), st))
        self.oblige_no_assume(st, z3.Implies(lo <= hi, P(lo)), "lemma", label + ":base", node, fr)
        k0 = fresh(kname + "!ind", I)
        self.oblige_no_assume(st, z3.Implies(z3.And(lo <= k0, k0 < hi, P(k0)), P(k0 + 1)), "lemma", label + ":step", node, fr)
        kq = fresh(kname + "!all", I)
        self.assume(st, z3.ForAll([kq], z3.Implies(z3.And(lo <= kq, kq <= hi), P(kq))))

    def oblige_no_assume(self, st, goal, kind, label, node, fr):
        n = len(st.pc)
        self.oblige(st, goal, kind, label, node, fr)
        del st.pc[n:]

    # ------------------------------------------------------------ spec clause evaluation
    def spec_frame(self, fr):
        f2 = self.sub_frame(fr)
        f2.spec = True
        return f2

    def parse_clause(self, clause):
        if clause not in _clause_cache:
            _clause_cache[clause] = ast.parse(clause.strip(), mode="eval").body
        return _clause_cache[clause]

    def spec_eval(self, clause, st, fr, what=""):
        """evaluate a boolean spec clause in state st -> z3 Bool / python bool"""
        try:
            v = self.ev1(self.parse_clause(clause), st, self.spec_frame(fr))
        except Unsupported as e:
            raise SpecError("clause %r (%s): %s" % (clause, what, e))
        if isinstance(v, Poison):
            raise SpecError("clause %r (%s) refers to an undefined value" % (clause, what))
        t = self.truth_of(v, st)
        return t

    def spec_eval_val(self, clause, st, fr):
        return self.ev1(self.parse_clause(clause), st, self.spec_frame(fr))


import itertools
_hc = itertools.count()
_clause_cache = {}


class AbsIter:
    """abstract iterable of symbolic length whose items are produced by a function"""

    def __init__(self, n, item):
        self.n, self.item = n, item


class _SF:
    spec = True
    qvars = {}


_SpecFrame = _SF()
