"""Per-property metadata used by the check driver (levels mirror MANIFEST.json)."""

PROPS = {
    "C20": dict(
        level="proof", needs_ext=True,
        technique="contract-based deductive verification (own VC generator over the Python ast, z3); bounded run-time contract evaluation as labelled stand-in",
        level_text="Every function the property names (partition, _quicksort, quicksort, the key-value variants, isplit, splitarray, "
                   "format_meter/format_interval, sbar, _pbar_full, pbar, prange, pmap) is verified against a sidecar contract whose "
                   "postconditions are transcribed from the statement; loops carry inductive invariants, recursion a variant, generators "
                   "a ghost output trace; all obligations are discharged by z3 for all inputs. pmap's schedule independence rests on the "
                   "assumed Executor.map ordering contract and a bounded latency-randomised run.",
        level_note="Trusted: the esvc VC generator (cross-checked by mutants and by running the same contracts on the real code), z3, "
                   "CPython's ast; elements of sorted arrays are modelled as mathematical integers (only <,>,== are applied); "
                   "bijectivity of the origin map follows from injectivity on a finite range (pigeonhole, not machine-checked); "
                   "termination is proved for the inner loops and the recursion, not for the outer partition loop; recursion depth is not bounded; "
                   "time.time() is arbitrary; string formatting results are opaque; concurrent.futures.Executor.map ordering is assumed.",
        explanation="Deductive: the in-place sorts (partition/_quicksort/quicksort and the key-value variants), isplit and "
                    "splitarray are verified against contracts transcribed from the property (sorted + permutation via an "
                    "origin ghost, closed-form chunk bounds, chunk concatenation); the progress wrappers are verified as "
                    "producers of a ghost output trace. Bounded (labelled): run-time evaluation of the same contracts on the "
                    "real functions over enumerated small scopes; pmap schedule independence is the stdlib Executor.map "
                    "contract (assumed) plus a bounded latency-randomised run."),
}

PROPS["C02"] = dict(
    level="proof", needs_ext=True,
    technique="contract-based deductive verification of the Python selection algebra (own VC generator, z3); C++ reader under an assumed contract with an exhaustive small-scope bounded stand-in",
    level_text="The functions that normalise a selection (_process_slice, _slice2rows, _fix_range, _get_slice_nrows, _get_rows2read, "
               "get_colnum, get_colnums, reduce_array, split_fields) are proved against contracts that state Python slice semantics "
               "(spec functions py_bound/py_count, validated against slice.indices), 'distinct rows ascending', 'columns in file order', "
               "'out-of-range rejected' and the C++ reader's argument preconditions. The C++ skip-and-read loops and the bracket/keyword "
               "dispatch are compared, bounded and labelled, with indexing the fully-read table for every access style on small files.",
    level_note="Trusted: esvc, z3; numpy where/unique/atleast_1d/astype contracts (nplib catalogue); column names modelled as integers "
               "(only == is applied); the C++ reader (records.cpp read_columns / read_binary_slice) is an assumed contract - its behaviour "
               "is only checked bounded (tables of 1..7 rows, 4 columns, 5 delimiters). read/__getitem__/RecfileColumnSubset dispatch is "
               "covered by the bounded layer only.",
    explanation="Proved: selection normalisation functions (46 named obligations). Bounded (labelled): ~13k whole-path cases per run "
                "comparing sf[...] / read(...) / chained / split / reduce results with numpy indexing of the full table.",
    limit_quick=60)

PROPS["C05"] = dict(
    level="proof", needs_ext=True,
    technique="contract-based deductive verification of both histogram engines (Python via ast, C via clang AST) against one functional specification; z3",
    level_text="The Python engine (_dohist) and the C engine (PyCHist_chist, translated mechanically from clang's AST on every run) are each "
               "verified against the same contract transcribed from the statement (rev offsets delimit exactly the data of each bin in "
               "sort order, slice length == count, data area == sort order) with inductive loop invariants; the sort-index and min/max "
               "selection that establish the engines' preconditions are verified too (stable order, exactly the data within the limits). "
               "Identity of the two engines follows from both meeting one deterministic specification.",
    level_note="Trusted: esvc (incl. the C front end and the API stub headers), z3, clang; the bin number trunc((x-dmin)/binsize) is an "
               "uninterpreted function of the datum (same term in both engines and the specification) - its monotonicity along the sort "
               "order (IEEE rounding is monotone) and the equality of numpy float64 and C double arithmetic are assumptions; numpy "
               "argsort(kind='stable'), where, fancy indexing contracts (nplib catalogue). The glue histogram()/Binner._do_hist/"
               "_hist_by_binsize_or_nbin is covered by the bounded layer (statement oracle + engine comparison).",
    explanation="Proved: both engines + sort/limit selection (124 named obligations). Bounded (labelled): the statement evaluated "
                "directly on histogram(..., rev=True) for enumerated and seeded data sets, both engines compared for identity.",
    limit_quick=60)

PROPS["C06"] = dict(
    level="proof", needs_ext=True,
    technique="contract-based deductive verification of match/match_multi/unique/rem_dup (own VC generator over the Python ast, z3) "
              "modulo numpy primitive contracts; bounded run-time evaluation of the same contracts as labelled stand-in",
    level_text="match (array, string-tagged and scalar arguments, presorted on and off), match_multi, unique (indices and values) and "
               "rem_dup are verified against contracts transcribed from the statement: returned pairs are equal, the second index "
               "list is strictly ascending and contains exactly the positions whose value occurs in the first array, repeated first "
               "arrays raise ValueError and only they do; the de-duplication helpers return exactly one index per distinct value, "
               "rem_dup the one carrying the largest flag. Loops carry inductive invariants; all obligations are discharged by z3.",
    level_note="Trusted: esvc, z3, CPython's ast; numpy contracts argsort (permutation ordering the values), searchsorted (insertion "
               "point; sortedness of the searched array is an obligation at the call site), unique (sorted distinct values; as many "
               "as inputs iff the inputs are pairwise distinct - pigeonhole, assumed), where, fancy indexing, in-place sort; elements "
               "are modelled as mathematical integers under their total order (str/bytes carry a tag that selects the string branch); "
               "NaN and mixed-dtype promotion inside numpy are outside the model (mixed dtypes are covered by the bounded layer only).",
    explanation="Proved: match (2 element models x presorted), scalar variants, match_multi, unique, rem_dup. Bounded (labelled): the "
                "same contracts evaluated on the real functions over enumerated and seeded arrays of ints (signed, unsigned, large), "
                "floats, byte and unicode strings.",
    limit_quick=60)

PROPS["C16"] = dict(
    level="proof", needs_ext=True,
    technique="contract-based deductive verification over an abstract byte-order model of numpy arrays (own VC generator over the "
              "Python ast, z3, quantifier-free); numpy's byteswap/newbyteorder algebra assumed and conformance-checked bounded",
    level_text="is_big_endian/is_little_endian, byteswap, to_native, to_big_endian and to_little_endian (inplace off and on, keep_dtype "
               "symbolic) are verified against contracts transcribed from the statement: every multi-byte field of the result declares "
               "the requested order, decoded values and field structure are preserved, already-converted input comes back bit-identical "
               "(idempotence), bytes are either kept or swapped (swapping twice restores them by the involution axiom), inplace=False "
               "returns an independent copy on every branch and leaves the input untouched, inplace=True returns the caller's object. "
               "Verified for plain arrays and structured arrays of 1-3 fields with arbitrary per-field order codes under the "
               "statement's 'uniformly ordered' precondition, for both machine byte orders.",
    level_note="Trusted: esvc, z3, CPython's ast; the byte-order model (esvc/bomodel.py): per-field order code and opaque bytes, "
               "byteswap is an involution that leaves '|' fields alone, newbyteorder flips '<'/'>' and maps '=' to the non-native order, "
               "decode(swap(bytes), other order) == decode(bytes, order); shapes are not modelled (all operations are cell-wise); "
               "structured arrays with more than 3 fields are covered by the bounded layer only (the loops over dtype.names are "
               "unrolled over the verified field lists).",
    explanation="Proved: 14 contracts (predicates, byteswap, three converters, each with inplace off/on) over plain and 1-3 field "
                "arrays. Bounded (labelled): the same contracts on real numpy arrays of every numeric kind and size in all four order "
                "spellings, strings, 0-d to 2-d, structured arrays with mixed single-byte/string/sub-array fields.",
    limit_quick=60)

PROPS["C18"] = dict(
    level="proof", needs_ext=True,
    technique="contract-based deductive verification over the reals (own VC generator over the Python ast, z3): element formulas, "
              "loop invariants, searchsorted/argsort contracts; float rounding and N-by-d reductions covered by labelled bounded stand-ins",
    level_text="cov2cor and cor2cov (element formulas through the double loops, non-positive diagonal / shape errors raised exactly "
               "when stated), interplin (for every query point and every table segment: inside the segment, or beyond the table on "
               "the end segments, the result is that segment's straight line; table value at a node), wmedian (index safety, "
               "termination condition, and at the return: the result is the value at the first sorted position whose cumulative "
               "weight reaches half the total) and the 1-d wmom (mean, both error estimates, deviation, supplied mean, shape error) "
               "and sigma_clip, unweighted and with positive weights (the mean, deviation and error returned are those of exactly the reported subset, "
               "which is a non-empty increasing selection of positions of the input; the clipping rule itself is bounded) "
               "are verified for all inputs over the reals. sigma_clip, get_stats, N-by-d wmom and the cov/cor round trip are "
               "compared, bounded and labelled, with direct evaluation of the statement.",
    level_note="Trusted: esvc, z3; floats are reals (rounding of sums not modelled); numpy sum is an uninterpreted function of the "
               "array (plus: a sum of non-negative cells is non-negative); wmedian's prefix sums are the spec function psum with "
               "the assumed axiom that the sum in sorted order equals weights.sum(); products/quotients are uninterpreted in cov2cor "
               "and interplin (sign rules only), which suffices because the contracts state the same formula; searchsorted/argsort/"
               "where contracts (nplib catalogue). sigma_clip's loop and get_stats are not under a proved contract.",
    explanation="Proved: cov2cor, cor2cov, interplin (2 contracts), wmedian, wmom (1-d). Bounded (labelled): wmom N-by-d and all "
                "option combinations against exactly rounded sums, sigma_clip against an independent evaluation of the statement, "
                "get_stats consistency, cov->cor->cov round trip.",
    limit_quick=60)

PROPS["C11"] = dict(
    level="proof", needs_ext=True,
    technique="contract-based deductive verification of the C core (clang AST front end), the C wrappers and the Python dispatchers "
              "against Hogg (1999) over the reals (own VC generator, z3 incl. nonlinear real arithmetic); truncation error and "
              "rounding covered by a labelled bounded stand-in",
    level_text="cosmolib.c (ez_inverse, ez_inverse_integral, Dc, Dm, Da, Dl, dV, V, scinv) is verified function by function against "
               "spec functions transcribed from Hogg (1999): 1/E(z), the documented 5- and 10-point Gauss-Legendre sums, the sinh/"
               "sin/flat transverse distance, Da=Dm/(1+z), Dl=Dm(1+z), Dm=Dc when flat, Dc(a,b)=-Dc(b,a) (from node/weight symmetry), "
               "zero inverse critical density for sources at or in front of the lens; division and sqrt safety follow from the struct "
               "invariant. All 26 Python-visible C wrappers (scalar, vec1, vec2, 2vec) are verified to return element-for-element "
               "the scalar definition, and the five Python dispatchers (Dc, Dm, Da, Dl, sigmacritinv) are verified across the Python/C "
               "boundary for the four scalar/array combinations, including rejection of mismatched lengths. extract_parms is verified "
               "against the documented normalisation rules and shown to produce a normal form (re-normalising changes nothing).",
    level_note="Trusted: esvc (incl. the C front end and API stub headers), z3, clang; floats are reals; sqrt/sinh/sin are uninterpreted "
               "with sqrt's defining axioms; the struct invariant CosmoInv (flat in {0,1}, flat <=> omega_k == 0, tcfac == sqrt(|omega_k|)/DH, "
               "mirrored Gauss-Legendre nodes/weights) is assumed at every entry point - it is what cosmo_new/gauleg establish from "
               "extract_parms' output, but cosmo_new itself (calloc, pointer outputs) is not under contract; definedness of 1/E at the "
               "quadrature nodes is a stated precondition (holds for physical parameters); the physical constants are not checked; "
               "numpy.asarray(dtype='f8', order='C') conversion of lists/strided/non-float inputs is an assumed contract checked bounded; "
               "the magnitude of the quadrature truncation error is bounded only (comparison with adaptive quadrature).",
    explanation="Proved: 10 C core contracts, 26 wrapper contracts, 20 dispatcher contracts, extract_parms. Bounded (labelled): every "
                "quantity against adaptive quadrature with the statement's 1.5x truncation-error allowance, identities to rounding, "
                "array variants (f4/f8/i8/list/strided/byte-swapped) element-for-element, copies / deep copies / pickles.",
    limit_quick=90)

PROPS["C14"] = dict(
    level="proof", needs_ext=True,
    technique="contract-based deductive verification of the bin bookkeeping over C05's reverse-index contract (own VC generator, z3 "
              "with a process portfolio for quantified array queries); numpy's mean/std/median/sum definitions assumed; bounded "
              "statement oracle as labelled stand-in",
    level_text="Binner.calc_stats is verified bin by bin for every combination of second variable / weights / binning mode (8 "
               "configurations, 18 contracts - one per independent group of output arrays): given a valid reverse index, every "
               "reported cell is the sentinel for an empty bin and otherwise the stated statistic (mean, deviation, median, "
               "standard error for >= 2 members, summed weight, weighted mean / deviation / both error estimates through wmom's "
               "proved contract) of exactly the members rev[rev[k]:rev[k+1]]; bin edges and centres are min + k*binsize. "
               "_hist_by_num is verified to leave a valid reverse index whose data area holds the original indices in sorted "
               "order and whose low/high are the first/last member of each bin; _merge_last is verified to turn it into the "
               "index with the last two bins united (overlapping in-place slice moves modelled); Binner._do_hist is verified "
               "against both engines' contracts.",
    level_note="Trusted: esvc, z3; numpy mean/std/median/sum are uninterpreted functions of the member values (their definitions are "
               "assumed); wmom is used through its proved 1-d contract; the bin number of rank k in _hist_by_num, trunc(k/nperbin), is "
               "abstract: its monotonicity is a stated assumption and 'exactly nperbin ranks per bin' (k // nperbin arithmetic) is "
               "covered by the bounded oracle only; the error conventions of single-member bins (err = the value itself) are outside "
               "the statement (it constrains the standard error for >= 2 members) and are not constrained; numpy's overlapping "
               "slice assignment behaves as copy-then-store (assumed).",
    explanation="Proved: 18 calc_stats contracts, _hist_by_num (2), _merge_last, _do_hist (2). Bounded (labelled): per-bin quantities "
                "from Binner and histogram(more=True, weights=) against direct computation on members found by value; equal-occupancy "
                "bins against a direct grouping of the sorted data, mergelast on and off.",
    limit_quick=60)

PROPS["C17"] = dict(
    level="other", needs_ext=True,
    technique="contract-based deductive verification of the rule's structure (C routine through the clang AST front end), the wrapper "
              "and the QGauss integrators with an object invariant (own VC generator, z3); numerical content of the Newton "
              "iteration as a labelled bounded stand-in against an independent Gauss-Legendre rule",
    level_text="Proved for all inputs over the reals: PyCGauleg_cgauleg returns one node and one weight per requested point, writes "
               "every cell, mirrors the nodes about the interval midpoint and mirrors the weights (loop invariant over both halves); "
               "gauleg rejects npts <= 0; QGauss.setup keeps the object invariant 'the cached nodes/weights are the rule of the cached "
               "point count', and integrate_func / integrate_data return f1 times the weighted sum over the affinely mapped nodes of "
               "the rule of the requested (or previously set) point count - for data, of interplin's piecewise-linear values over "
               "[min x, max x] - so results do not depend on point counts used earlier. Bounded and labelled: nodes strictly inside and "
               "ascending, weights positive and summing to b-a, agreement with numpy's leggauss, exactness to degree 2n-1 (n <= 30), "
               "whole call sequences on one object, the two-dimensional tensor sum.",
    level_note="Trusted: esvc (incl. the C front end), z3, clang; floats are reals and floating-point division is total (no trap); the "
               "Gauss-Legendre routine is a deterministic function of its arguments (gl_nodes / gl_weights name its result - axiom "
               "'deterministic-routine'); termination and convergence of the Newton loop, and every numerical property of the nodes and "
               "weights, are bounded only; integrands are applied element-wise; QGauss2 is bounded only (2-d broadcasting).",
    explanation="Mixed: proved = structure of the rule, wrapper, QGauss formula and history independence (5 contracts); bounded = the "
                "numerical statement about the rule for n in 1..60 (quick) / 1..200 (thorough) plus samples to 2000 on six kinds of "
                "interval, polynomial exactness, call sequences, tensor-product sums.",
    limit_quick=90)

PROPS["C07"] = dict(
    level="proof", needs_ext=True,
    technique="contract-based deductive verification of the field-list algebra over an abstract structured-array model (own VC "
              "generator over the Python ast, z3), one contract per name structure with symbolic types / shapes / lengths / data; "
              "numpy's dtype algebra assumed and exercised by a labelled bounded stand-in",
    level_text="extract_fields, remove_fields, reorder_fields (11 request shapes x strict/lenient on 3-field and 1-field arrays), "
               "add_fields (8 descriptor/default combinations), copy_fields and combine_fields (1-3 arrays, shared name, unequal "
               "sizes) are verified against the statement: the result's field list is exactly the documented one, it has the "
               "input's length, every retained field has the same type code, sub-array shape code and element-wise equal data, new "
               "fields are zero or the supplied default, the result is a new object and the inputs are untouched, and exactly the "
               "stated requests raise ValueError. Names are concrete per contract (the name structure is enumerated), everything "
               "else is symbolic.",
    level_note="Trusted: esvc, z3; the structured-array model (ordered named fields with opaque type / sub-shape codes and symbolic "
               "columns; dtype.descr of a packed dtype, zeros(shape, dtype=descr) reproduces the descr and rejects duplicate names, "
               "field read is a view and field write an element-wise copy) - numpy's dtype algebra is assumed; proofs cover arrays of "
               "1-3 fields and request lists of 0-3 names (enumerated name structures, not all lengths); 0-d / 2-d arrays, sub-array "
               "and string fields, byte orders, name arrays and larger field lists are covered by the bounded layer only; "
               "compare_arrays and copy_fields_by_name are not under a proved contract (the latter is inlined into add_fields).",
    explanation="Proved: 116 contracts (name structures). Bounded (labelled): 250 (quick) / 6000 (thorough) random real structured "
                "arrays through extract/remove/reorder/add with scalar/list/tuple/array name lists, 1-4 array combinations incl. "
                "error cases, copy_fields + split_fields per-field equality.",
    limit_quick=60)

PROPS["C15"] = dict(
    level="other", needs_ext=True,
    technique="contract-based deductive verification of frame conditions (every write statement of the Python and C functions under "
              "contract targets memory that is fresh in the call or listed in `modifies`; explicit input-untouched postconditions), "
              "own VC generator + z3; C++ callees read-only by assumption with a labelled bounded before/after sweep",
    level_text="Collected frame conditions of every contract tagged C15: match / unique / rem_dup, the byte-order converters with "
               "inplace off (independent copy on every branch, input bytes and declared order untouched), Recfile.write (the table "
               "handed to a text or binary record file is never written through - the native-order conversion happens on a copy), "
               "the field operations (new arrays, sources untouched), the histogram engines (only hist/rev are written) and "
               "Binner.calc_stats / _hist_by_num / _get_minmax_and_indices, wmom / wmedian / interplin / cov2cor / cor2cov, the C "
               "cosmology core, its 26 wrappers and the Python dispatchers (array arguments only read), QGauss.integrate_data. "
               "Coordinates, WCS and HTM entry points, and all of the above for byte-swapped / strided / float32 / integer / 0-d / 2-d "
               "inputs, are covered by the bounded before/after sweep.",
    level_note="Trusted: esvc, z3, clang; aliasing rules of numpy (views, field access and atleast_1d share the buffer; astype, copy, "
               "np.array(copy=True), fancy indexing and arithmetic results are fresh) are assumed; the C++ callees Records::Write and "
               "HTMC/Matcher methods are assumed read-only (bounded check only); esutil.coords, esutil.wcsutil and esutil.htm have no "
               "proved frame contracts yet (bounded sweep only) - this is why the level is 'other'.",
    explanation="Mixed: proved = frame obligations and input-untouched postconditions of the contracts tagged C15 (several hundred "
                "obligations across 9 spec files); bounded = ~700 (quick) calls over the public entry points of every family in the "
                "statement with native / byte-swapped / float32 / integer / strided / column / 0-d / 2-d arguments, comparing base-buffer "
                "bytes, dtype, shape, strides and flags before and after (also when the call raises).",
    limit_quick=120)

PROPS["C08"] = dict(
    level="other", needs_ext=True,
    technique="contract-based deductive verification over the reals with uninterpreted trigonometric functions (own VC generator, z3) "
              "for totality / range / zero-for-identical / shapes; accuracy as a labelled bounded stand-in against a long-double oracle",
    level_text="Proved: gcirc returns one angle per pair, its arccos argument is clipped into the domain so the result is defined and "
               "lies in [0, pi], identical inputs give exactly 0 and the inputs are never written (copies at entry); the unit vectors "
               "built by _thetaphi2xyz have unit length (sin^2 + cos^2 = 1). Bounded and labelled: sphdist to 1e-11 degree and gcirc to "
               "2e-6 degree against atan2(|u x v|, u.v) in 80-bit arithmetic over uniform pairs and the adversarial families of the "
               "statement (separations 1e-12..1e-3 and 180-1e-9..180 degrees, poles, seam, equal points), symmetry, +360 invariance, "
               "scalar / length-1 / length-3 / long inputs, degree and radian units.",
    level_note="Trusted: esvc, z3; floats are reals; sin/cos/arccos uninterpreted with sin^2+cos^2=1 and range axioms stated against "
               "the double constant pi; sphdist itself is not under a proved contract (its nearly-antipodal branch uses 2-d stacking "
               "and numpy.cross, outside the prover's array model) - it is covered by the bounded oracle only.",
    explanation="Mixed: proved = gcirc totality/range/zero/frame, unit vectors; bounded = accuracy and invariances of sphdist and gcirc "
                "on ~1000 (quick) / 100000 (thorough) pairs.",
    limit_quick=90)

PROPS["C09"] = dict(
    level="other", needs_ext=True,
    technique="contract-based deductive verification over the reals with uninterpreted trigonometric functions (own VC generator, z3): "
              "domains, documented ranges, longitude-shift algebra; invertibility / isometry tolerances as a labelled bounded stand-in",
    level_text="Proved: euler (all six selectors, both epochs, tables read from the source on every run) returns one finite output "
               "pair per input with latitude in [-90,90] - the arcsin argument is clipped into its domain on both sides - and longitude "
               "in [0,360), without writing its inputs; shiftlon returns values in [0,360) that differ from input minus shift by a "
               "multiple of 360 (witnessed), the wrap branch returns values in (-180,180]; atbound folds every cell into a window of at "
               "least one turn; unit vectors have unit length. Bounded and labelled: every conversion and its inverse to 1e-5 degree "
               "(1e-9 for SDSS and unit vectors), isometry, agreement with the rotation defined by the documented pole and node "
               "constants, chained vs direct conversion, rotate, over the sphere plus the poles of all systems.",
    level_note="Trusted: esvc, z3; floats are reals; trigonometric functions uninterpreted (sin^2+cos^2=1, ranges of arcsin/arctan2 "
               "against the double constant pi, float % as an uninterpreted remainder with 0 <= r < m); rotate is an assumed contract "
               "(Cauchy-Schwarz over uninterpreted sin/cos is not discharged by z3) checked bounded; eq2sdss / sdss2eq / xyz2eq are "
               "bounded only; termination of atbound's loops is not proved.",
    explanation="Mixed: proved = euler ranges/totality (156 obligations), shiftlon (38), atbound, unit vectors; bounded = "
                "invertibility, isometry, pole/node agreement, SDSS and xyz round trips, rotate and shifts in doubles.",
    limit_quick=120)

PROPS["C19"] = dict(
    level="other", needs_ext=True,
    technique="contract-based deductive verification with the random generator as a universally quantified parameter (every deviate "
              "sequence), own VC generator + z3 over the reals; spherical-geometry and sampler clauses as labelled bounded stand-ins",
    level_text="Proved for every deviate sequence: randsphere returns the requested number of points with longitudes and latitudes "
               "inside the requested box (arccos decreasing and arccos(cos t)=t assumed) and rejects boxes outside [0,360]x[-90,90]; "
               "randcap returns the requested number of points, latitudes in [-90,90] and radii that are degrees within the cap radius "
               "on both the direct and the rotated path (the double radian-to-degree conversion of the rotated path was refuted and "
               "fixed); the cumulative-method sampler maps every deviate it draws through the piecewise-linear inverse of the tabulated "
               "cumulative distribution (modularly against the proved contract of interplin, for a strictly increasing table); "
               "random_indices returns the requested number of indices in range, pairwise distinct when unique is set (against "
               "an assumed contract of Generator.choice). Bounded and labelled: points within r of the centre and radii equal to the true separations for centres "
               "including poles and the seam and radii up to 180 degrees with legacy and new generators, reproducibility, the "
               "cumulative-method sampler with a stub generator, the Cholesky sampler with a recording deviate source, random_indices.",
    level_note="Trusted: esvc, z3; generator draws are arbitrary values in their documented range; rotate is an assumed contract; a "
               "drawn point landing exactly on a pole (0/0 longitude) is not constrained; esutil.random (Generator, CholeskySampler, "
               "random_indices) is bounded only - the sampler is interplin (proved under C18) applied to scipy's cumulative_trapezoid.",
    explanation="Mixed: proved = randsphere box property, randcap counts/ranges/radius units; bounded = caps, boxes, samplers.",
    limit_quick=120)

for _k in range(1, 21):
    PROPS.setdefault("C%02d" % _k, dict(level="other", needs_ext=True, explanation="see DESIGN.md section 8"))


PROPS["C01"] = dict(
    level="other", needs_ext=True,
    technique="contract-based deductive verification of the Python glue of the record-file format (own VC generator over the real "
              "ast + z3/cvc5: header key handling, reserved-key matching, compatibility check) plus a labelled bounded byte-for-byte "
              "round-trip oracle on real files for the C++ I/O (fwrite/fread, header scan), which the generator cannot reach",
    level_text="Proved: _match_key finds the reserved header entries case-insensitively and never confuses them with user keys that "
               "lack the underscore; _make_header keeps every user key, drops the reserved bookkeeping keys in either case, records "
               "_DTYPE/_VERSION and leaves the caller's dict untouched; the binary branch of _ensure_compatible_dtype. Bounded: "
               "byte-for-byte round trip of random packed dtypes (all item types of the statement, sub-arrays to 3-d, both byte "
               "orders, NaN payloads, embedded NULs, strided views) with thirteen header shapes (END/SIZE words, quotes, newlines, "
               "non-ASCII, nested literals, look-alike keys) through the eight entry points.",
    level_note="The deciding code (Records::Write, ReadAllAsBinary, read_sfile_header) is C++ over FILE*: not under contract; "
               "eval-based header parsing is Python's own parser (trusted). Hence level 'other': the statement itself is decided by the bounded oracle.",
    explanation="Mixed, reported separately in the evidence: discharged obligations cover the Python header/compatibility glue only; "
                "the round-trip statement itself is a bounded oracle over a seeded domain of tables x headers x entry points.",
    limit_quick=400, limit_thorough=20000)

PROPS["C03"] = dict(
    level="other", needs_ext=True,
    technique="contract-based deductive verification of the append bookkeeping in SFile (own VC generator + z3/cvc5: compatibility "
              "check with exceptional postconditions, row-count update, write order) against assumed contracts of the C++ "
              "callees, plus a labelled bounded oracle over operation histories on real files",
    level_text="Proved, per name structure of file and chunk dtypes: _ensure_compatible_dtype rejects with ValueError exactly the "
               "chunks whose field count, names, types or sub-array shapes differ (binary: exact dtype; text: byte order ignored) "
               "and accepts the others; SFile.write performs the check before anything is written, so a rejected append changes "
               "neither the handle nor (through the assumed callee contracts) the file; _update_size adds the chunk's row count to "
               "the cached count, the header dict and the SIZE line; SFile.open with mode 'r+' on a missing path switches the "
               "handle to 'w', never calls the header reader (whose assumed contract requires an existing file) and opens the "
               "record file with 'w', and mode 'w' never reads a header. Bounded: random histories over create / write again / close / "
               "append by reopening / append to a missing file / overwrite / incompatible append (five kinds), binary and three "
               "delimiters, read back and header compared after every step, file bytes compared around every rejected append.",
    level_note="Assumed contracts: Records.update_row_count (rewrites the SIZE line with the given count), Recfile.write (appends "
               "the rows at the end of the file), SFile.read_header (needs an existing file), Recfile.__init__ (remembers the mode; "
               "'w' creates or truncates). File existence is an uninterpreted predicate of the path, stable during a call.",
    explanation="Mixed, reported separately: obligations discharged for the Python bookkeeping; histories are a bounded oracle.",
    limit_quick=400, limit_thorough=20000)

PROPS["C04"] = dict(
    level="other", needs_ext=True,
    technique="contract-based deductive verification of the Python glue of the text form (own VC generator + z3/cvc5: native-order "
              "conversion of a copy before writing, byte-order-free compatibility check) plus a labelled bounded round-trip oracle "
              "on real files for the C++ printf/scanf code, which the generator cannot reach",
    level_text="Proved: Recfile.write hands the C++ writer a native-order copy of the table for the text form and never writes "
               "through the caller's array; the text branch of _ensure_compatible_dtype ignores byte order only; "
               "_remove_byteorder drops exactly the order character of each type string (names, widths and sub-array shapes kept) "
               "and _make_header records the handle's delimiter and that byte-order-free dtype. Bounded: random "
               "tables over {i1..u8, f4, f8, S1..S12} x {scalar, 1-d, 2-d} x both byte orders with type extremes, many decades, "
               "NaN, signed infinities, signed zero, strings with leading / embedded / trailing blanks and delimiter characters, six "
               "delimiters, four entry points; integers and strings compared exactly, floats to 16 / 7 significant digits.",
    level_note="The formatting and scanning code (records.cpp) is not under contract; hence level 'other': the statement itself is decided by the bounded oracle.",
    explanation="Mixed, reported separately: obligations discharged for the Python glue; the round trip is a bounded oracle.",
    limit_quick=400, limit_thorough=20000)

PROPS["C10"] = dict(
    level="other", needs_ext=True,
    technique="contract-based deductive verification of the WCS chains over the reals (own VC generator over the real ast + z3: "
              "order of offset / CD matrix / distortion per convention, definite assignment, coefficient layout of the PV and SIP "
              "polynomials, longitude fold, RA-difference wrap, empty frame of the forward transform) plus labelled bounded "
              "oracles for the floating-point statements (long-double FITS reference, inversion accuracy, call histories)",
    level_text="Proved (reals, scalar inputs): image2sky and sky2image(find=False) for each projection x distortion model x distort flag "
               "compose offset, CD matrix, distortion polynomial and (de)projection in the order of the respective convention "
               "(PV after the CD matrix, SIP before it, inverse chain reversed), every local is assigned on every branch, and the "
               "object is left untouched; ApplyCDMatrix is the 2x2 linear map; Apply2DPolynomial is sum a[i,j] x^i y^j (2x2 and "
               "3x3 matrices); ExtractPVCoeffs places PV1_k / PV2_k at the powers the TPV convention gives them and "
               "ExtractSIPCoeffs A_p_q at [p,q]; _rotate returns longitude in [-180,180] and latitude in [-90,90]; image2sph "
               "folds the longitude into [0,360); wrap_ra_diff returns a value in [-180,180] that differs from its input by whole "
               "turns. Bounded: image2sky against an independent long-double FITS-WCS reference to 1e-9 degree on the sphere "
               "(TAN, TPV, SIP; reference points at the poles and the RA=0 seam; reference pixels far outside the image), the "
               "reference pixel, scalar/array agreement, inversion to 1e-6 pixel with root finding and to the fit's own rms "
               "without, the jacobian against displaced points, and random call interleavings against fresh objects.",
    level_note="Assumed: image2sph / sph2image as deterministic functions of their arguments and the rotation matrix (value "
               "checked bounded), Apply2DPolynomial for general order (uninterpreted; index convention proved to order 2), libm "
               "range axioms for arctan / arctan2 / sin / cos. Root finding (scipy fsolve), the least-squares inverse fit, array "
               "inputs and the lazy first computation of the inverse coefficients are covered by the bounded oracles only.",
    explanation="Mixed, reported separately: proved = structure and conventions over the reals for scalar inputs; bounded = all "
                "floating-point accuracy statements of the property.",
    limit_quick=200, limit_thorough=5000)

PROPS["C12"] = dict(
    level="other", needs_ext=True,
    technique="contract-based deductive verification of what the VC generator reaches (the exact distance filter gcirc in htmc.cc "
              "through the C front end over the real C++ source, and the Python glue that establishes the C++ matcher's "
              "memory-safety preconditions) plus labelled bounded brute-force oracles for the C++ HTM triangle search, which is "
              "outside its reach",
    level_text="Proved (reals): htmc.cc gcirc returns 0 for identical points, a value in [0,180] degrees, and the angle whose sine "
               "and cosine are the spherical sine/cosine-rule expressions (atan2 form); Matcher.match raises ValueError exactly "
               "when ra/dec sizes differ or the radius is neither one value nor one per point, so the C++ matcher is only "
               "called with one declination per right ascension and a readable radius for every point, and never writes the "
               "caller's arrays; HTM.match returns what the reusable Matcher built from the second set at the object's depth "
               "returns for the same first set, radii and maxmatch (the pairs as an uninterpreted function of exactly these). "
               "Bounded: all-pairs brute force in long double for uniform / clustered (1e-4..30 deg) / polar / "
               "seam / octant-boundary sets with duplicates and self-matching, radii 0, 1e-6 .. 180 degrees and per-point radii, "
               "depths 1..13, maxmatch in {-1,0,1,2,3,1000}, byte-swapped and strided inputs: exact pair set, once each, grouped "
               "and sorted, reported separation to 1e-9 degree, k closest, file == memory, Matcher == HTM.match, depth independence.",
    level_note="The triangle search (SpatialDomain / SpatialConvex / SpatialIndex, std::map of leaf members, std::sort, maxmatch "
               "truncation) is C++ with templates and STL containers: not under contract, bounded only - hence level 'other'. "
               "libm range axioms for sin / cos / sqrt / atan2 are assumed.",
    explanation="Mixed, reported separately: obligations discharged for the distance filter and the Python glue; the statement "
                "itself is a bounded brute-force oracle.",
    limit_quick=600, limit_thorough=20000)

PROPS["C13"] = dict(
    level="other", needs_ext=True,
    technique="contract-based deductive verification of what the VC generator reaches (gcirc in htmc.cc, the Python glue of "
              "lookup_id and the logarithmic bin edges) plus labelled bounded brute-force oracles for the C++ id descent, circle "
              "covers and pair counter, which are outside its reach",
    level_text="Proved: lookup_id raises ValueError exactly when ra and dec differ in size, hands the C++ three arrays of one length "
               "and returns one id per position without writing the caller's arrays; log_bins returns nbin contiguous bins whose "
               "edges are equally spaced in log10 between rmin and rmax; gcirc as under C12. Bounded: ids in [8*4^d, 16*4^d) and "
               "child-of-parent for depths 0..20 with scalar == array (uniform, poles, seam, octant boundaries, ra multiples of "
               "90); circle covers at depths 1..12 and radii 1e-4..90 deg against probe points inside / on the rim / outside; "
               "log-binned pair counts against brute force with no scale, a scalar scale and a per-point scale, and with "
               "precomputed ids / reverse indices / id range.",
    level_note="SpatialIndex::idByName / lookupID, SpatialDomain::intersect and HTMC::cbincount are C++: bounded only - hence level "
               "'other'. The reverse-index hand-off from stat.histogram is proved under C05 (partition contract).",
    explanation="Mixed, reported separately: obligations discharged for the Python glue and the distance function; the statement "
                "itself is a bounded brute-force oracle.",
    limit_quick=600, limit_thorough=20000)

CLAIMED = {"C12", "C13", "C10", "C01", "C03", "C04", "C20", "C02", "C05", "C06", "C16", "C18", "C11", "C14", "C17", "C07", "C15", "C08", "C09", "C19"}
NOT_APPLICABLE = {("C%02d" % k): "check not built yet (implementation in progress; plan in DESIGN.md section 8)"
                  for k in range(1, 21) if ("C%02d" % k) not in CLAIMED}
