"""Per-property metadata used by the check driver (levels mirror MANIFEST.json)."""

PROPS = {
    "C20": dict(
        level="proof", needs_ext=True,
        technique="contract-based deductive verification (own VC generator over the Python ast, z3); bounded run-time contract evaluation as labelled stand-in",
        level_text="Every function the property names (partition, _quicksort, quicksort, the key-value variants, isplit, splitarray, "
                   "format_meter/format_interval, sbar, _pbar_full, pbar, prange, pmap) is verified against a sidecar contract whose "
                   "postconditions are transcribed from the statement; loops carry inductive invariants, recursion a variant, generators "
                   "a ghost output trace; all obligations are discharged by z3 for all inputs. pmap's schedule independence rests on the "
                   "assumed Executor.map ordering contract and a bounded latency-randomised run.",
        level_note="Trusted: the esvc VC generator (cross-checked by mutants and by running the same contracts on the real code), z3, "
                   "CPython's ast; elements of sorted arrays are modelled as mathematical integers (only <,>,== are applied); "
                   "bijectivity of the origin map follows from injectivity on a finite range (pigeonhole, not machine-checked); "
                   "termination is proved for the inner loops and the recursion, not for the outer partition loop; recursion depth is not bounded; "
                   "time.time() is arbitrary; string formatting results are opaque; concurrent.futures.Executor.map ordering is assumed.",
        explanation="Deductive: the in-place sorts (partition/_quicksort/quicksort and the key-value variants), isplit and "
                    "splitarray are verified against contracts transcribed from the property (sorted + permutation via an "
                    "origin ghost, closed-form chunk bounds, chunk concatenation); the progress wrappers are verified as "
                    "producers of a ghost output trace. Bounded (labelled): run-time evaluation of the same contracts on the "
                    "real functions over enumerated small scopes; pmap schedule independence is the stdlib Executor.map "
                    "contract (assumed) plus a bounded latency-randomised run."),
}

for _k in range(1, 21):
    PROPS.setdefault("C%02d" % _k, dict(level="other", needs_ext=True, explanation="see DESIGN.md section 8"))


CLAIMED = {"C20"}
NOT_APPLICABLE = {("C%02d" % k): "check not built yet (implementation in progress; plan in DESIGN.md section 8)"
                  for k in range(1, 21) if ("C%02d" % k) not in CLAIMED}
