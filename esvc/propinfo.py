"""Per-property metadata used by the check driver (levels mirror MANIFEST.json)."""

PROPS = {
    "C20": dict(
        level="proof", needs_ext=True,
        explanation="Deductive: the in-place sorts (partition/_quicksort/quicksort and the key-value variants), isplit and "
                    "splitarray are verified against contracts transcribed from the property (sorted + permutation via an "
                    "origin ghost, closed-form chunk bounds, chunk concatenation); the progress wrappers are verified as "
                    "producers of a ghost output trace. Bounded (labelled): run-time evaluation of the same contracts on the "
                    "real functions over enumerated small scopes; pmap schedule independence is the stdlib Executor.map "
                    "contract (assumed) plus a bounded latency-randomised run."),
}

for _k in range(1, 21):
    PROPS.setdefault("C%02d" % _k, dict(level="other", needs_ext=True, explanation="see DESIGN.md section 8"))
