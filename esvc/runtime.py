"""Run-time evaluation of the sidecar contracts on the real functions (bounded stand-ins, replay).

Runs under /venv/bin/python with the scratch copy of the working tree first on sys.path.  One text, two uses:
the clause strings evaluated here are the ones the prover discharges symbolically.
"""
import ast
import copy
import importlib
import json
import os
import sys
import time
import traceback

from . import speclang

GHOST_NAMES = {"org", "prov", "upd", "Perm", "Follow", "fresh", "same_object_ghost", "ufn", "apply", "SUM", "unit", "chunk_off", "nyielded", "consumed", "nitems", "item", "mapped", "defined_len", "fresh"}


class Skip(Exception):
    pass


def resolve(fullname):
    parts = fullname.split(".")
    for k in range(len(parts) - 1, 0, -1):
        try:
            mod = importlib.import_module(".".join(parts[:k]))
        except ImportError:
            continue
        obj = mod
        try:
            for p in parts[k:]:
                obj = getattr(obj, p)
        except AttributeError:
            continue
        return obj
    raise ImportError("cannot resolve " + fullname)


def snapshot(x):
    try:
        import numpy as np
        if isinstance(x, np.ndarray):
            return x.copy()
    except ImportError:
        pass
    try:
        return copy.deepcopy(x)
    except Exception:
        return x


def same_bits(a, b):
    import numpy as np
    if isinstance(a, np.ndarray) and isinstance(b, np.ndarray):
        if a.dtype != b.dtype or a.shape != b.shape:
            return False
        return a.tobytes() == b.tobytes()
    if isinstance(a, (list, tuple)) and isinstance(b, (list, tuple)):
        return len(a) == len(b) and all(same_bits(x, y) for x, y in zip(a, b))
    try:
        r = a == b
        if isinstance(r, np.ndarray):
            return bool(r.all())
        return bool(r)
    except Exception:
        return True


class OldRewriter(ast.NodeTransformer):
    def __init__(self, pre_ns, glob):
        self.pre_ns, self.glob, self.vals = pre_ns, glob, {}

    def visit_Call(self, node):
        if isinstance(node.func, ast.Name) and node.func.id == "old":
            code = compile(ast.Expression(node.args[0]), "<old>", "eval")
            name = "__old_%d" % len(self.vals)
            self.vals[name] = eval(code, self.glob, self.pre_ns)
            return ast.copy_location(ast.Name(id=name, ctx=ast.Load()), node)
        return self.generic_visit(node)


def uses_ghost(tree):
    for n in ast.walk(tree):
        if isinstance(n, ast.Name) and n.id in GHOST_NAMES:
            return True
    return False


def eval_clause(clause, ns, pre_ns, glob):
    tree = ast.parse(clause.strip(), mode="eval")
    if uses_ghost(tree):
        raise Skip("ghost clause")
    rw = OldRewriter(pre_ns, glob)
    tree = ast.fix_missing_locations(rw.visit(tree))
    loc = dict(ns)
    loc.update(rw.vals)
    # generator expressions need names in globals
    g = dict(glob)
    g.update(loc)
    return eval(compile(tree, "<clause>", "eval"), g)


def spec_globals():
    g = dict(speclang.RUNTIME_VOCAB)
    for name, f in speclang.SPEC_FUNCS.items():
        g[name] = f
    import math
    g["math"] = math
    try:
        import numpy as np
        g["np"] = np
    except ImportError:
        pass
    return g


def describe(x, depth=0):
    try:
        import numpy as np
        if isinstance(x, np.ndarray):
            if x.size <= 64:
                def _rows(v):
                    if isinstance(v, list):
                        return [_rows(r) for r in v]
                    return _py(v)
                return {"ndarray": _rows(x.tolist()),
                        "dtype": str(x.dtype.descr if x.dtype.names else x.dtype), "shape": list(x.shape)}
            return {"ndarray": "size %d" % x.size, "dtype": str(x.dtype), "shape": list(x.shape)}
        if isinstance(x, np.generic):
            return x.item()
    except ImportError:
        pass
    if isinstance(x, (int, float, str, bool)) or x is None:
        return x if not (isinstance(x, float) and x != x) else "nan"
    if isinstance(x, (list, tuple)) and depth < 3:
        return [describe(v, depth + 1) for v in x[:64]]
    if isinstance(x, dict) and depth < 3:
        return {str(k): describe(v, depth + 1) for k, v in list(x.items())[:32]}
    try:
        return repr(x)[:200]
    except Exception:
        return "<%s %s>" % (type(x).__name__, {k: describe(v, depth + 1) for k, v in list(getattr(x, '__dict__', {}).items())[:6]})


def _py(v):
    if isinstance(v, bytes):
        return v.decode("latin1")
    if isinstance(v, (tuple, list)):
        return [_py(x) for x in v]
    if isinstance(v, complex):
        return repr(v)
    return v


def run_case(c, fn, case, glob):
    """returns (status, detail)   status in ok | skipped | violation"""
    args = list(case.get("args", []))
    kwargs = dict(case.get("kwargs", {}))
    setup = case.get("setup")
    ctx = {}
    if setup is not None:
        ctx = setup() or {}
        args = list(ctx.get("args", args))
        kwargs = dict(ctx.get("kwargs", kwargs))
    call = case.get("call") or ctx.get("call")
    names = case.get("names") or ctx.get("names") or list(c.params.keys())
    ns = {}
    for n, v in zip(names, args):
        ns[n] = v
    ns.update(kwargs)
    ns.update(case.get("ghost", {}))
    ns.update(ctx.get("ghost", {}))
    for k, v in c.defaults.items():
        ns.setdefault(k, v)
    pre_ns = {k: snapshot(v) for k, v in ns.items()}
    try:
        for name, clause in c.requires:
            try:
                if not eval_clause(clause, ns, pre_ns, glob):
                    return "skipped", "precondition %s false" % name
            except Skip:
                pass
    except Exception as e:
        return "skipped", "precondition not evaluable: %r" % (e,)
    exc = None
    result = None
    try:
        if call is not None:
            result = call(*args, **kwargs)
        else:
            result = fn(*args, **kwargs)
    except Exception as e:   # noqa
        exc = e
    finally:
        cleanup = case.get("cleanup") or ctx.get("cleanup")
        if cleanup:
            try:
                cleanup()
            except Exception:
                pass
    failures = []
    if exc is not None:
        ename = type(exc).__name__
        allowed = [(e, cond, mode) for e, cond, mode in c.raises if e == ename or (e == "Exception")]
        if ename in c.exc_ok:
            return "ok", "allowed exception " + ename
        if not allowed:
            failures.append(("unexpected-exception:%s" % ename, "%s: %s" % (ename, exc)))
        else:
            ok = False
            for e, cond, mode in allowed:
                try:
                    if eval_clause(cond, pre_ns, pre_ns, glob):
                        ok = True
                except Skip:
                    ok = True
            if not ok:
                failures.append(("raises-%s-only-when" % ename, "%s raised although its condition is false: %s" % (ename, exc)))
    else:
        for e, cond, mode in c.raises:
            if mode in ("iff", "if"):
                try:
                    if eval_clause(cond, pre_ns, pre_ns, glob):
                        failures.append(("must-raise-%s" % e, "returned normally although %s" % cond))
                except Skip:
                    pass
        ns2 = dict(ns)
        ns2["result"] = result
        for name, clause in list(c.ensures) + list(c.rt_ensures):
            try:
                v = eval_clause(clause, ns2, pre_ns, glob)
                if hasattr(v, "all") and not isinstance(v, bool):
                    v = bool(v.all())
                if not v:
                    failures.append((name, clause))
            except Skip:
                continue
            except Exception as e:
                failures.append((name, "clause raised %r: %s" % (e, clause)))
        # frame: array arguments not listed in `modifies` must be bit-identical
        mods = {m.split(".")[0].split("[")[0] for m in c.modifies}
        for n, v in ns.items():
            if n in mods or n in case.get("ghost", {}) or n in ctx.get("ghost", {}):
                continue
            try:
                import numpy as np
                if isinstance(v, (np.ndarray, list)) and not same_bits(v, pre_ns[n]):
                    failures.append(("frame:%s" % n, "argument %s was modified" % n))
            except ImportError:
                pass
    if failures:
        return "violation", dict(failures=failures, inputs={k: describe(v) for k, v in pre_ns.items()},
                                 result=describe(result) if exc is None else None,
                                 exception=None if exc is None else "%s: %s" % (type(exc).__name__, exc))
    return "ok", None


def safe_repr(x):
    try:
        return repr(x)[:300]
    except Exception:
        try:
            return repr([describe(v) for v in x[0]])[:300]
        except Exception:
            return "<unprintable case>"


_MARK_FD = None


def _mark(name, case, index):
    """which case is being evaluated, kept in a small file: read by the checker when this process is ended by a signal
    raised in native code (the case is then reported, not lost)"""
    if _MARK_FD is None:
        return
    try:
        key = case.get("key")
        if key is None:
            key = safe_repr((case.get("args"), case.get("kwargs")))
        data = json.dumps(dict(contract=name, case_key=str(key)[:2000], index=index)).encode()
        os.ftruncate(_MARK_FD, 0)
        os.pwrite(_MARK_FD, data, 0)
    except Exception:
        pass


def run_contract(name, tier, seed, limit_s, extra_cases=None):
    c = speclang.CONTRACTS[name]
    glob = spec_globals()
    out = dict(contract=name, cases=0, ok=0, skipped=0, violations=[], error=None, distinct=0, samples=[])
    try:
        fn = resolve(c.runtime_name or name.split("#")[0]) if c.lang in ("py", "c") else None
    except Exception as e:
        out["error"] = "cannot resolve: %r" % (e,)
        return out
    gen = speclang.DOMAINS.get(name)
    cases = []
    if extra_cases:
        cases.extend(extra_cases)
    t0 = time.time()
    seen = set()

    def all_cases():
        for cs in cases:
            yield cs
        if gen is not None:
            yield from gen(tier, seed)
    revisit = []      # pristine copies of the first few cases: evaluated once more after all the others (call history)
    try:
        for case in all_cases():
            if time.time() - t0 > limit_s:
                out["truncated"] = True
                break
            out["cases"] += 1
            if len(revisit) < 6:
                try:
                    probe = case.get("call")
                    # only statement oracles (pure functions of their ghost inputs): cases that set up files, or whose function
                    # writes into its arguments, cannot be evaluated a second time from the same data
                    noop = (lambda: None).__code__
                    is_noop = probe is not None and getattr(probe, "__closure__", None) is None and \
                        getattr(probe, "__code__", None) is not None and probe.__code__.co_code == noop.co_code and \
                        probe.__code__.co_consts == noop.co_consts and not probe.__code__.co_names
                    if is_noop and "ghost" in case and not case.get("args") and case.get("setup") is None:
                        import copy as _copy
                        keep = {k: _copy.deepcopy(v) for k, v in case.items() if k != "call"}
                        if probe is not None:
                            keep["call"] = probe
                        revisit.append(keep)
                except Exception:
                    pass
            _mark(name, case, out["cases"])
            try:
                status, detail = run_case(c, fn, case, glob)
            except Exception as e:
                out["error"] = "runtime harness error: %s" % traceback.format_exc()[-800:]
                break
            if status == "ok":
                out["ok"] += 1
                key = case.get("key") or safe_repr((case.get("args"), case.get("kwargs")))
                if key not in seen:
                    seen.add(key)
                    if len(out["samples"]) < 3:
                        out["samples"].append(key[:200])
            elif status == "skipped":
                out["skipped"] += 1
            else:
                detail["case_key"] = case.get("key") or safe_repr((case.get("args"), case.get("kwargs")))
                detail["signature"] = case.get("sig")
                if len(out["violations"]) < 20:
                    out["violations"].append(detail)
                else:
                    out["more_violations"] = out.get("more_violations", 0) + 1
    except Exception:
        out["error"] = "domain generator error: %s" % traceback.format_exc()[-800:]
    # results must not depend on what was called before: the first cases again, after everything else ran in this process
    if not out.get("error") and not out.get("truncated") and out["cases"] > len(revisit):
        for case in revisit:
            try:
                status, detail = run_case(c, fn, case, glob)
            except Exception:
                break
            out["revisited"] = out.get("revisited", 0) + 1
            if status not in ("ok", "skipped"):
                detail["case_key"] = "after the other cases of this run (call history): " + (case.get("key") or safe_repr((case.get("args"), case.get("kwargs"))))
                detail["signature"] = case.get("sig")
                if not any(v.get("case_key", "").endswith(detail["case_key"].split(": ", 1)[1]) for v in out["violations"]):
                    out["violations"].append(detail)
    out["distinct"] = len(seen)
    out["wall_s"] = round(time.time() - t0, 2)
    return out


def main(argv):
    import argparse
    ap = argparse.ArgumentParser()
    ap.add_argument("--contracts", default="")
    ap.add_argument("--prop", default="")
    ap.add_argument("--tier", default="quick")
    ap.add_argument("--seed", type=int, default=0)
    ap.add_argument("--out", required=True)
    ap.add_argument("--limit", type=float, default=60.0)
    ap.add_argument("--cases", default=None, help="json file with extra cases per contract (replay / counter-models)")
    a = ap.parse_args(argv)
    import faulthandler
    faulthandler.enable()
    global _MARK_FD
    try:
        _MARK_FD = os.open(a.out + ".current", os.O_RDWR | os.O_CREAT | os.O_TRUNC, 0o644)
    except OSError:
        _MARK_FD = None
    speclang.load_specs()
    names = [n for n in a.contracts.split(",") if n]
    if a.prop:
        names += [n for n, c in speclang.CONTRACTS.items() if a.prop in c.props and n not in names]
    extra = {}
    if a.cases:
        extra = json.load(open(a.cases))
    res = []
    for n in names:
        c = speclang.CONTRACTS[n]
        if n not in speclang.DOMAINS and n not in extra:
            continue
        ex = [dict(args=e.get("args", []), kwargs=e.get("kwargs", {}), key=e.get("key"), sig=e.get("sig")) for e in extra.get(n, [])]
        ex = [decode_case(e) for e in ex]
        res.append(run_contract(n, a.tier, a.seed, a.limit, ex))
        json.dump(res, open(a.out + ".partial", "w"), default=str)
    json.dump(res, open(a.out, "w"), indent=1, default=str)
    return 0


def decode_case(e):
    """JSON-encoded arguments from the prover: {"__ndarray__": [...], "dtype": "i8"} -> numpy"""
    def dec(v):
        if isinstance(v, dict) and "__ndarray__" in v:
            import numpy as np
            return np.array(v["__ndarray__"], dtype=v.get("dtype", "i8"))
        if isinstance(v, dict) and "__slice__" in v:
            return slice(*v["__slice__"])
        if isinstance(v, dict) and "__tuple__" in v:
            return tuple(dec(x) for x in v["__tuple__"])
        if isinstance(v, list):
            return [dec(x) for x in v]
        return v
    e = dict(e)
    e["args"] = [dec(x) for x in e.get("args", [])]
    e["kwargs"] = {k: dec(x) for k, x in e.get("kwargs", {}).items()}
    return e


if __name__ == "__main__":
    sys.exit(main(sys.argv[1:]))
