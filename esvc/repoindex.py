"""Index of the repository sources: module name -> ast, function lookup, loop labels."""
import ast
import hashlib
import os

REPO = os.environ.get("ESVC_REPO", "/repo")


class RepoIndex:
    def __init__(self, root=None):
        self.root = root or REPO
        self.mods = {}
        self.extra = {}   # module name -> ast (translated C functions)

    def module_path(self, modname):
        p = os.path.join(self.root, *modname.split("."))
        if os.path.isdir(p):
            return os.path.join(p, "__init__.py")
        return p + ".py"

    def module(self, modname):
        if modname in self.extra:
            return self.extra[modname]
        if modname not in self.mods:
            path = self.module_path(modname)
            if not os.path.exists(path):
                raise KeyError("no module " + modname)
            src = open(path).read()
            tree = ast.parse(src, path)
            tree._src_sha = hashlib.sha256(src.encode()).hexdigest()
            tree._path = path
            self.mods[modname] = tree
        return self.mods[modname]

    def split_name(self, fullname):
        """esutil.recfile.Util.Recfile._fix_range -> (module, [Recfile,_fix_range])"""
        parts = fullname.split(".")
        for k in range(len(parts) - 1, 0, -1):
            mod = ".".join(parts[:k])
            if mod in self.extra:
                return mod, parts[k:]
            p = os.path.join(self.root, *parts[:k])
            if os.path.isfile(p + ".py"):
                return mod, parts[k:]
        raise KeyError("cannot resolve " + fullname)

    def find(self, fullname):
        """returns (module, qualname, FunctionDef, classname|None)"""
        mod, rest = self.split_name(fullname)
        tree = self.module(mod)
        body = tree.body
        cls = None
        node = None
        for i, name in enumerate(rest):
            node = None
            for n in body:
                if isinstance(n, (ast.FunctionDef, ast.ClassDef)) and n.name == name:
                    node = n  # last definition wins, as in Python
            if node is None:
                raise KeyError("no %s in %s" % (name, mod))
            if isinstance(node, ast.ClassDef):
                cls = node.name
            body = node.body
        if not isinstance(node, ast.FunctionDef):
            raise KeyError(fullname + " is not a function")
        return mod, ".".join(rest), node, cls

    def find_class(self, mod, name):
        for n in self.module(mod).body:
            if isinstance(n, ast.ClassDef) and n.name == name:
                return n
        return None

    def method(self, mod, clsname, name):
        c = self.find_class(mod, clsname)
        seen = set()
        while c is not None and c.name not in seen:
            seen.add(c.name)
            found = None
            for n in c.body:
                if isinstance(n, ast.FunctionDef) and n.name == name:
                    found = n
                if isinstance(n, ast.Assign) and len(n.targets) == 1 and isinstance(n.targets[0], ast.Name) \
                        and n.targets[0].id == name and isinstance(n.value, ast.Name):
                    # alias such as  Read = read
                    for m in c.body:
                        if isinstance(m, ast.FunctionDef) and m.name == n.value.id:
                            found = m
            if found is not None:
                return found, c.name
            nxt = None
            for b in c.bases:
                if isinstance(b, ast.Name):
                    nxt = self.find_class(mod, b.id)
            c = nxt
        return None, None

    def module_global(self, mod, name):
        """returns the last top-level binding node of `name` in module, or None"""
        found = None
        for n in self.module(mod).body:
            if isinstance(n, (ast.FunctionDef, ast.ClassDef)) and n.name == name:
                found = n
            elif isinstance(n, ast.Assign):
                for t in n.targets:
                    if isinstance(t, ast.Name) and t.id == name:
                        found = n
            elif isinstance(n, (ast.Import, ast.ImportFrom)):
                for a in n.names:
                    if (a.asname or a.name.split(".")[0]) == name:
                        found = n
            elif isinstance(n, (ast.Try, ast.If)):
                for sub in ast.walk(n):
                    if isinstance(sub, (ast.Import, ast.ImportFrom)):
                        for a in sub.names:
                            if (a.asname or a.name.split(".")[0]) == name:
                                found = sub
                    elif isinstance(sub, ast.Assign):
                        for t in sub.targets:
                            if isinstance(t, ast.Name) and t.id == name and found is None:
                                found = sub
                    elif isinstance(sub, ast.FunctionDef) and sub.name == name and found is None:
                        found = sub
        return found


def label_loops(fnode):
    """assign labels L0, L0.0, L1 ... to every loop of a function (by nesting ordinal)"""
    labels = {}

    def walk(stmts, prefix, counter):
        for s in stmts:
            if isinstance(s, (ast.While, ast.For)):
                lab = prefix + str(counter[0])
                counter[0] += 1
                labels[id(s)] = lab
                s._label = lab
                inner = [0]
                walk(s.body, lab + ".", inner)
                walk(s.orelse, lab + ".", inner)
            elif isinstance(s, (ast.FunctionDef, ast.ClassDef)):
                continue
            else:
                for fld in ("body", "orelse", "finalbody"):
                    sub = getattr(s, fld, None)
                    if isinstance(sub, list):
                        walk(sub, prefix, counter)
                if isinstance(s, ast.Try):
                    for h in s.handlers:
                        walk(h.body, prefix, counter)
                if isinstance(s, ast.With):
                    pass
    walk(fnode.body, "L", [0])
    rets = [n for n in ast.walk(fnode) if isinstance(n, ast.Return)]
    rets.sort(key=lambda n: (n.lineno, n.col_offset))
    for k, n in enumerate(rets):
        n._retlabel = "return#%d" % k
    label_calls(fnode)
    return labels


def label_calls(fnode):
    """stable names for call sites: <callee text>#<ordinal in source order> (never line numbers)"""
    calls = [n for n in ast.walk(fnode) if isinstance(n, ast.Call)]
    calls.sort(key=lambda n: (n.lineno, n.col_offset))
    seen = {}
    for n in calls:
        try:
            key = ast.unparse(n.func).split(".")[-1]
        except Exception:
            key = "call"
        k = seen.get(key, 0)
        seen[key] = k + 1
        n._ordinal = "%s#%d" % (key, k)


def assigned_names(stmts):
    """names (and subscripted/attribute bases) syntactically assigned in a statement list"""
    names, written, attrs = _NameSet(), set(), set()
    mutated = set()

    def target(t):
        if isinstance(t, ast.Name):
            names.add(t.id)
        elif isinstance(t, (ast.Tuple, ast.List)):
            for e in t.elts:
                target(e)
        elif isinstance(t, ast.Subscript):
            written.add(ast.unparse(t.value))
        elif isinstance(t, ast.Attribute):
            attrs.add(ast.unparse(t))
        elif isinstance(t, ast.Starred):
            target(t.value)

    for s in stmts:
        for n in ast.walk(s):
            if isinstance(n, ast.Assign):
                for t in n.targets:
                    target(t)
            elif isinstance(n, (ast.AugAssign, ast.AnnAssign)):
                target(n.target)
            elif isinstance(n, ast.For):
                target(n.target)
            elif isinstance(n, ast.NamedExpr):
                target(n.target)
            elif isinstance(n, (ast.Import, ast.ImportFrom)):
                for a in n.names:
                    names.add(a.asname or a.name.split(".")[0])
            elif isinstance(n, ast.With):
                for it in n.items:
                    if it.optional_vars is not None:
                        target(it.optional_vars)
            elif isinstance(n, ast.ExceptHandler) and n.name:
                names.add(n.name)
            elif isinstance(n, ast.Call) and isinstance(n.func, ast.Attribute) and n.func.attr in MUTATORS:
                written.add(ast.unparse(n.func.value))
                if isinstance(n.func.value, ast.Name):
                    mutated.add(n.func.value.id)
    names.mutated = mutated
    return names, written, attrs


MUTATORS = {"append", "extend", "pop", "sort", "fill", "clear", "insert", "remove", "byteswap", "update"}


class _NameSet(set):
    mutated = ()
