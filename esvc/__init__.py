"""esvc - verification-condition generator for the real esutil sources.

Reads Python functions through ``ast`` and C functions through clang's JSON
AST dump on every run, executes them symbolically against sidecar contracts
(/verif/specs) and discharges the resulting obligations with z3 / cvc5.
"""
