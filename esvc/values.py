"""Symbolic value model and state for esvc."""
import itertools
from fractions import Fraction

import z3

_ids = itertools.count(1)


def fresh_id():
    return next(_ids)


class Unsupported(Exception):
    """construct outside the accepted subset -> the function is undecided"""

    def __init__(self, msg, node=None):
        self.node = node
        line = getattr(node, "lineno", None)
        super().__init__(msg + (" (line %s)" % line if line else ""))


class SpecError(Exception):
    pass


class Ref:
    __slots__ = ("id",)

    def __init__(self, id=None):
        self.id = id if id is not None else fresh_id()

    def __repr__(self):
        return "Ref(%d)" % self.id

    def __eq__(self, o):
        return isinstance(o, Ref) and o.id == self.id

    def __hash__(self):
        return hash(("Ref", self.id))


class Undef:
    def __repr__(self):
        return "<undef>"


UNDEF = Undef()


class Func:
    """a Python (or translated C) function living in the repository"""

    def __init__(self, module, qualname, node, cls=None, closure=None):
        self.module, self.qualname, self.node, self.cls = module, qualname, node, cls
        self.closure = closure

    @property
    def fullname(self):
        return self.module + "." + self.qualname

    def __repr__(self):
        return "Func(%s)" % self.fullname


class Prim:
    def __init__(self, name, impl=None):
        self.name, self.impl = name, impl

    def __repr__(self):
        return "Prim(%s)" % self.name


class Module:
    def __init__(self, name):
        self.name = name

    def __repr__(self):
        return "Module(%s)" % self.name


class ClassV:
    def __init__(self, module, name, node):
        self.module, self.name, self.node = module, name, node

    def __repr__(self):
        return "Class(%s.%s)" % (self.module, self.name)


class ExcClass:
    def __init__(self, name):
        self.name = name

    def __repr__(self):
        return "Exc(%s)" % self.name


class ExcValue:
    def __init__(self, cls):
        self.cls = cls


class Bound:
    def __init__(self, selfv, func):
        self.selfv, self.func = selfv, func


class SliceV:
    def __init__(self, start, stop, step):
        self.start, self.stop, self.step = start, stop, step

    def __repr__(self):
        return "SliceV(%r,%r,%r)" % (self.start, self.stop, self.step)


class Opaque:
    """a value the engine carries around but cannot look into"""

    def __init__(self, tag, term=None):
        self.tag = tag
        self.term = term

    def __repr__(self):
        return "Opaque(%s)" % self.tag


class SpecLambda:
    def __init__(self, node, st, fr):
        self.node, self.st, self.fr = node, st, fr


# ---------------------------------------------------------------- heap objects
SORTS = {"int": z3.IntSort(), "real": z3.RealSort(), "bool": z3.BoolSort()}


class HArr:
    """1-d array (numpy array or symbolic-length list)"""

    def __init__(self, kind, n, data, org=None, base=None, fresh=True, islist=False, unit=None):
        self.kind, self.n, self.data, self.org = kind, n, data, org
        self.base = base  # (Ref, offset, step) for views
        self.fresh = fresh
        self.islist = islist
        self.unit = unit
        self.inv = None     # ghost: inverse permutation (set for argsort results / is_permutation)

    def replace(self, **kw):
        o = HArr(self.kind, self.n, self.data, self.org, self.base, self.fresh, self.islist, self.unit)
        o.inv = self.inv
        for k, v in kw.items():
            setattr(o, k, v)
        return o


class HArr2:
    """2-d array, data : Array(Int, Int) -> elem"""

    def __init__(self, kind, n0, n1, data, fresh=True):
        self.kind, self.n0, self.n1, self.data, self.fresh = kind, n0, n1, data, fresh

    def replace(self, **kw):
        o = HArr2(self.kind, self.n0, self.n1, self.data, self.fresh)
        for k, v in kw.items():
            setattr(o, k, v)
        return o


class HList:
    def __init__(self, items, fresh=True, istuple=False):
        self.items = list(items)
        self.fresh = fresh

    def replace(self, items):
        return HList(items, self.fresh)


class HObj:
    def __init__(self, cls, fields, fresh=True, items=None):
        self.cls, self.fields, self.fresh = cls, dict(fields), fresh
        self.items = dict(items or {})  # dict-like part (constant keys)

    def replace(self):
        return HObj(self.cls, self.fields, self.fresh, self.items)


class FieldType:
    """the type string of one structured-dtype field (item type, size and byte order) as an opaque symbolic code, plus the
    model kind of its cells; sub-array shapes travel as the optional third entry of the descr tuple"""

    def __init__(self, code, kind):
        self.code, self.kind = code, kind

    def __repr__(self):
        return "FieldType(%s,%s)" % (self.code, self.kind)


class HStruct:
    """structured array: parallel field arrays (field order = dict order); ftype: name -> FieldType, fshape: name -> shape code"""

    def __init__(self, n, fields, fresh=True, ftype=None, fshape=None):
        self.n, self.fields, self.fresh = n, dict(fields), fresh
        self.ftype = dict(ftype or {})
        self.fshape = dict(fshape or {})


class HViewList:
    """python list (symbolic length) of contiguous views of one base array: view k = base[off[k] : off[k]+ln[k]]"""

    def __init__(self, n, base, off, ln, fresh=True):
        self.n, self.base, self.off, self.ln, self.fresh = n, base, off, ln, fresh


class State:
    __slots__ = ("env", "heap", "pc", "prov", "path", "out", "ghost", "dead")

    def __init__(self):
        self.env = {}
        self.heap = {}
        self.pc = []
        self.prov = {}
        self.path = []
        self.out = None
        self.ghost = {}
        self.dead = False

    def fork(self):
        s = State()
        s.env = dict(self.env)
        s.heap = dict(self.heap)
        s.pc = list(self.pc)
        s.prov = dict(self.prov)
        s.path = list(self.path)
        s.out = self.out
        s.ghost = dict(self.ghost)
        return s

    def alloc(self, obj):
        r = Ref()
        self.heap[r.id] = obj
        return r

    def get(self, ref):
        return self.heap[ref.id]

    def put(self, ref, obj):
        self.heap[ref.id] = obj


# ---------------------------------------------------------------- scalar helpers
def is_sym(v):
    return isinstance(v, z3.ExprRef)


def kind_of(v):
    if isinstance(v, bool):
        return "bool"
    if isinstance(v, int):
        return "int"
    if isinstance(v, (float, Fraction)):
        return "real"
    if isinstance(v, str):
        return "str"
    if v is None:
        return "none"
    if isinstance(v, z3.ExprRef):
        s = v.sort()
        if s == z3.IntSort():
            return "int"
        if s == z3.RealSort():
            return "real"
        if s == z3.BoolSort():
            return "bool"
        if s == z3.StringSort():
            return "str"
        if s.kind() == z3.Z3_ARRAY_SORT:
            return "z3array"
        return "z3other"
    if isinstance(v, Ref):
        return "ref"
    if isinstance(v, tuple):
        return "tuple"
    return type(v).__name__


def realval(x):
    if isinstance(x, float):
        if x != x or x in (float("inf"), float("-inf")):
            raise Unsupported("non-finite float constant")
        f = Fraction(x)
        return z3.RealVal(str(f.numerator) + "/" + str(f.denominator))
    if isinstance(x, Fraction):
        return z3.RealVal(str(x.numerator) + "/" + str(x.denominator))
    return z3.RealVal(x)


def to_z3(v, want=None):
    """python constant or z3 term -> z3 term (optionally coerced to `want`)"""
    if isinstance(v, bool):
        t = z3.BoolVal(v)
    elif isinstance(v, int):
        t = z3.IntVal(v)
    elif isinstance(v, (float, Fraction)):
        t = realval(v)
    elif isinstance(v, str):
        t = z3.StringVal(v)
    elif isinstance(v, z3.ExprRef):
        t = v
    else:
        raise Unsupported("cannot turn %r into a term" % (v,))
    if want == "real" and t.sort() == z3.IntSort():
        t = z3.ToReal(t)
    if want == "real" and t.sort() == z3.BoolSort():
        t = z3.If(t, z3.RealVal(1), z3.RealVal(0))
    if want == "int" and t.sort() == z3.BoolSort():
        t = z3.If(t, z3.IntVal(1), z3.IntVal(0))
    if want == "int" and t.sort() == z3.RealSort():
        raise Unsupported("implicit real->int coercion")
    if want == "bool" and t.sort() != z3.BoolSort():
        t = truth(t)
    return t


def truth(v):
    """Python truthiness of a scalar value as a z3 Bool or python bool"""
    if isinstance(v, bool):
        return v
    if v is None:
        return False
    if isinstance(v, (int, float, Fraction)):
        return v != 0
    if isinstance(v, str):
        return len(v) > 0
    if isinstance(v, tuple):
        return len(v) > 0
    if isinstance(v, z3.ExprRef):
        s = v.sort()
        if s == z3.BoolSort():
            return v
        if s == z3.IntSort() or s == z3.RealSort():
            return v != 0
        if s == z3.StringSort():
            return z3.Length(v) > 0
    if isinstance(v, (Func, Prim, Module, ClassV, Bound, SliceV, ExcClass, Opaque)):
        return True
    raise Unsupported("truthiness of %r" % (v,))


def simp(t):
    return z3.simplify(t) if isinstance(t, z3.ExprRef) else t


def as_const(t):
    """return python constant if term is a literal, else None"""
    if not isinstance(t, z3.ExprRef):
        return t
    t = z3.simplify(t)
    if z3.is_int_value(t):
        return t.as_long()
    if z3.is_true(t):
        return True
    if z3.is_false(t):
        return False
    if z3.is_rational_value(t):
        return Fraction(t.numerator_as_long(), t.denominator_as_long())
    return None


def zand(*xs):
    xs = [x for x in xs if x is not True]
    if any(x is False for x in xs):
        return False
    if not xs:
        return True
    if len(xs) == 1:
        return xs[0]
    return z3.And(*[to_z3(x) for x in xs])


def zor(*xs):
    xs = [x for x in xs if x is not False]
    if any(x is True for x in xs):
        return True
    if not xs:
        return False
    if len(xs) == 1:
        return xs[0]
    return z3.Or(*[to_z3(x) for x in xs])


def znot(x):
    if isinstance(x, bool):
        return not x
    return z3.Not(x)


def zimplies(a, b):
    if a is True:
        return b
    if a is False or b is True:
        return True
    return z3.Implies(to_z3(a), to_z3(b))


def py_floordiv(a, b):
    """Python // on ints (floor)"""
    if not is_sym(a) and not is_sym(b):
        return a // b
    a, b = to_z3(a), to_z3(b)
    bc = as_const(b)
    if bc is not None:
        if bc > 0:
            return a / b
        return (-a) / (-b)
    return z3.If(b > 0, a / b, (-a) / (-b))


def py_mod(a, b):
    if not is_sym(a) and not is_sym(b):
        return a % b
    a, b = to_z3(a), to_z3(b)
    return a - b * py_floordiv(a, b)


def c_div(a, b):
    """C integer division (truncation toward zero)"""
    if not is_sym(a) and not is_sym(b):
        q = abs(a) // abs(b)
        return q if (a >= 0) == (b >= 0) else -q
    a, b = to_z3(a), to_z3(b)
    absdiv = z3.If(a >= 0, a, -a) / z3.If(b >= 0, b, -b)
    return z3.If((a >= 0) == (b >= 0), absdiv, -absdiv)


def c_mod(a, b):
    if not is_sym(a) and not is_sym(b):
        return a - b * c_div(a, b)
    return to_z3(a) - to_z3(b) * c_div(a, b)
