"""C front end: clang JSON AST of one function -> Python ast of an equivalent function for the esvc engine.

The real .c file is parsed by clang on every run (against the API declarations in esvc/cstubs so that numpy accessor
macros stay calls).  What the translation drops: declarations without initialiser become zero initialisations, reference
counting macros, `static`/`const`, error-message strings.  Integer division/modulo become c_div/c_mod (truncation),
double->integer casts become c_trunc, every other cast is the identity on mathematical values.
"""
import ast
import json
import os
import subprocess

from .values import Unsupported

STUBS = os.path.join(os.path.dirname(os.path.abspath(__file__)), "cstubs")
INT_TYPES = ("int", "long", "npy_intp", "npy_int64", "npy_int32", "size_t", "Py_ssize_t", "unsigned", "short", "char",
             "int64_t", "int32_t", "ssize_t")


def clang_ast(path, fname):
    cmd = ["clang", "-fsyntax-only", "-ferror-limit=0", "-w", "-I" + STUBS, "-I" + os.path.dirname(path),
           "-Xclang", "-ast-dump=json", "-Xclang", "-ast-dump-filter=" + fname, path]
    r = subprocess.run(cmd, capture_output=True, text=True)
    txt = r.stdout
    dec = json.JSONDecoder()
    i, objs = 0, []
    while i < len(txt):
        while i < len(txt) and txt[i].isspace():
            i += 1
        if i >= len(txt):
            break
        o, j = dec.raw_decode(txt, i)
        objs.append(o)
        i = j
    fns = [o for o in objs if o.get("kind") == "FunctionDecl" and o.get("name") == fname
           and any(c.get("kind") == "CompoundStmt" for c in o.get("inner", []))]
    if not fns:
        raise Unsupported("clang produced no definition of %s in %s: %s" % (fname, path, r.stderr[-400:]))
    return fns[-1]


def is_int_type(qt):
    qt = qt.replace("const ", "").replace("unsigned ", "").replace("static ", "").strip()
    return qt in INT_TYPES or qt.startswith("npy_int") or qt in ("long long", "unsigned long", "unsigned int")


def is_float_type(qt):
    qt = qt.replace("const ", "").strip()
    return qt in ("double", "float", "npy_double", "npy_float64", "npy_float32", "long double")


def qtype(n):
    return n.get("type", {}).get("qualType", "")


class CTranslator:
    def __init__(self, fdecl, path):
        self.f = fdecl
        self.path = path
        self.alias = {}     # pointer local -> python expression it aliases (PyArray_DATA(x) -> x)
        self.params = []
        self.parse_tuple = None
        self.line0 = fdecl.get("loc", {}).get("line", 1)

    def err(self, n, msg):
        raise Unsupported("C construct %s: %s (%s line %s)" % (n.get("kind"), msg, os.path.basename(self.path), self.line(n)))

    def line(self, n):
        loc = n.get("range", {}).get("begin", {})
        if "line" in loc:
            self._last_line = loc["line"]
        elif "expansionLoc" in loc and "line" in loc["expansionLoc"]:
            self._last_line = loc["expansionLoc"]["line"]
        return getattr(self, "_last_line", self.line0)

    def at(self, node, n):
        node.lineno = self.line(n)
        node.col_offset = 0
        return node

    # ---------------------------------------------------------------- function
    def function(self):
        params = [c for c in self.f.get("inner", []) if c.get("kind") == "ParmVarDecl"]
        body = [c for c in self.f["inner"] if c.get("kind") == "CompoundStmt"][0]
        self.check_recovery(body)
        pnames = [p["name"] for p in params]
        stmts = self.block(body)
        if self.parse_tuple is not None:
            uses_self = params and params[0]["name"] == "self" and any(
                isinstance(x, ast.Name) and x.id == "self" for st_ in stmts for x in ast.walk(st_))
            pnames = (["self"] if uses_self else []) + self.parse_tuple   # the Python-visible arguments, in format-string order
            stmts = [x for x in stmts if not (isinstance(x, ast.Assign) and isinstance(x.targets[0], ast.Name)
                                              and x.targets[0].id in pnames and isinstance(x.value, ast.Constant))]
        args = ast.arguments(posonlyargs=[], args=[ast.arg(arg=p) for p in pnames], kwonlyargs=[], kw_defaults=[], defaults=[])
        fn = ast.FunctionDef(name=self.f["name"], args=args, body=stmts or [ast.Pass()], decorator_list=[], lineno=self.line0,
                             col_offset=0)
        fn.type_params = []
        ast.fix_missing_locations(fn)
        return fn

    def check_recovery(self, n):
        if n.get("kind") == "RecoveryExpr":
            self.err(n, "clang could not parse this expression")
        for c in n.get("inner", []):
            self.check_recovery(c)

    def block(self, n):
        out = []
        for c in n.get("inner", []):
            out.extend(self.stmt(c))
        return out

    # ---------------------------------------------------------------- statements
    def stmt(self, n):
        k = n.get("kind")
        if k == "CompoundStmt":
            return self.block(n)
        if k == "NullStmt":
            return []
        if k == "DeclStmt":
            out = []
            for d in n.get("inner", []):
                if d.get("kind") != "VarDecl":
                    continue
                init = [c for c in d.get("inner", []) if c.get("kind") not in ("FullComment",)]
                qt = qtype(d)
                if init:
                    if qt.endswith("]"):
                        # array with initialiser list
                        val = self.expr(init[0])
                    else:
                        val = self.coerce_to(self.expr(init[0]), qt, init[0])
                    r = self.try_alias(d["name"], init[0])
                    if r:
                        continue
                elif qt.endswith("]"):
                    size = qt[qt.index("[") + 1:qt.index("]")]
                    zero = ast.Constant(0.0) if is_float_type(qt[:qt.index("[")].strip()) else ast.Constant(0)
                    val = ast.BinOp(ast.List([zero], ast.Load()), ast.Mult(), ast.Constant(int(size)))
                elif is_float_type(qt):
                    val = ast.Constant(0.0)
                elif is_int_type(qt):
                    val = ast.Constant(0)
                else:
                    val = ast.Constant(None)
                out.append(self.at(ast.Assign([ast.Name(d["name"], ast.Store())], val), n))
            return out
        if k == "IfStmt":
            inner = n["inner"]
            test = self.cond(inner[0])
            body = self.stmt(inner[1]) or [ast.Pass()]
            orelse = self.stmt(inner[2]) if len(inner) > 2 else []
            # the PyArg_ParseTuple guard
            if self.is_parse_tuple_guard(inner[0]):
                call = self.find_call(inner[0], "PyArg_ParseTuple")
                self.bind_parse_tuple(call)
                return []
            return [self.at(ast.If(test, body, orelse), n)]
        if k == "WhileStmt":
            inner = n["inner"]
            return [self.at(ast.While(self.cond(inner[0]), self.stmt(inner[1]) or [ast.Pass()], []), n)]
        if k == "DoStmt":
            inner = n["inner"]
            body = self.stmt(inner[0])
            body.append(ast.If(ast.UnaryOp(ast.Not(), self.cond(inner[1])), [ast.Break()], []))
            return [self.at(ast.While(ast.Constant(True), body, []), n)]
        if k == "ForStmt":
            init, _, cond, inc, body = n["inner"]
            pre = self.stmt(init) if init else []
            incs = self.stmt(inc) if inc and inc.get("kind") else []
            b = self.stmt(body)
            b = self.rewrite_continue(b, incs)
            test = self.cond(cond) if cond and cond.get("kind") else ast.Constant(True)
            return pre + [self.at(ast.While(test, (b + incs) or [ast.Pass()], []), n)]
        if k == "ReturnStmt":
            inner = n.get("inner", [])
            if not inner:
                return [self.at(ast.Return(None), n)]
            return [self.at(ast.Return(self.expr(inner[0])), n)]
        if k == "BreakStmt":
            return [self.at(ast.Break(), n)]
        if k == "ContinueStmt":
            return [self.at(ast.Continue(), n)]
        # expression statements
        return self.expr_stmt(n)

    def rewrite_continue(self, stmts, incs):
        if not incs:
            return stmts

        class RW(ast.NodeTransformer):
            def visit_While(self, node):      # nested loops own their continues
                return node

            def visit_For(self, node):
                return node

            def visit_Continue(self, node):
                return [*[ast.copy_location(x, node) for x in incs], node]
        out = []
        for s in stmts:
            r = RW().visit(s)
            out.extend(r if isinstance(r, list) else [r])
        return out

    def find_call(self, n, name):
        if n.get("kind") == "CallExpr" and self.callee(n) == name:
            return n
        for c in n.get("inner", []):
            r = self.find_call(c, name)
            if r is not None:
                return r
        return None

    def is_parse_tuple_guard(self, cond):
        txt = json.dumps(cond)
        return '"PyArg_ParseTuple"' in txt

    def try_alias(self, name, init):
        """ptr = (T*) PyArray_DATA(obj)  ->  name is an alias of obj"""
        e = self.strip(init)
        if e.get("kind") == "CallExpr" and self.callee(e) == "PyArray_DATA":
            self.alias[name] = self.expr(e["inner"][1])
            return True
        return False

    def expr_stmt(self, n):
        n0 = self.strip(n)
        k = n0.get("kind")
        if k == "BinaryOperator" and n0["opcode"] == "=":
            lhs, rhs = n0["inner"]
            lname = self.strip(lhs)
            if lname.get("kind") == "DeclRefExpr" and self.try_alias(lname["referencedDecl"]["name"], rhs):
                return []
            val = self.coerce_to(self.expr(rhs), qtype(lhs), rhs)
            return [self.at(ast.Assign([self.lvalue(lhs)], val), n)]
        if k == "BinaryOperator" and n0["opcode"] == ",":
            return self.expr_stmt(n0["inner"][0]) + self.expr_stmt(n0["inner"][1])
        if k == "CompoundAssignOperator":
            lhs, rhs = n0["inner"]
            op = n0["opcode"][:-1]
            cur = self.expr(lhs)
            val = self.binop(op, cur, self.expr(rhs), qtype(lhs), n0)
            return [self.at(ast.Assign([self.lvalue(lhs)], val), n)]
        if k == "UnaryOperator" and n0["opcode"] in ("++", "--"):
            tgt = n0["inner"][0]
            op = ast.Add() if n0["opcode"] == "++" else ast.Sub()
            return [self.at(ast.Assign([self.lvalue(tgt)], ast.BinOp(self.expr(tgt), op, ast.Constant(1))), n)]
        if k == "CallExpr":
            name = self.callee(n0)
            if name == "PyArg_ParseTuple":
                self.bind_parse_tuple(n0)
                return []
            if name in ("import_array", "fflush", "printf", "fprintf", "free"):
                return []
            if name == "PyTuple_SetItem":
                # PyTuple_SetItem(t, i, v)  ->  t[i] = v   (the tuple under construction is a list; reference stealing dropped)
                a = n0["inner"][1:]
                return [self.at(ast.Assign([ast.Subscript(self.expr(a[0]), self.expr(a[1]), ast.Store())], self.expr(a[2])), n)]
            if name in ("PyErr_SetString", "PyErr_Format"):
                exc = self.strip(n0["inner"][1])
                ename = exc.get("referencedDecl", {}).get("name", "PyExc_RuntimeError").replace("PyExc_", "")
                return [self.at(ast.Assign([ast.Name("__c_error", ast.Store())], ast.Constant(ename)), n)]
            return [self.at(ast.Expr(self.expr(n0)), n)]
        if k in ("ParenExpr", "CStyleCastExpr"):
            return self.expr_stmt(n0["inner"][0])
        self.err(n0, "unsupported expression statement")

    def bind_parse_tuple(self, call):
        args = call["inner"][1:]
        fmt = json.dumps(args[1])
        import re
        m = re.search(r'"value": "\\"([A-Za-z|:]*)\\""', fmt)
        if not m:
            self.err(call, "cannot read the PyArg_ParseTuple format string")
        names = []
        for a in args[2:]:
            a = self.strip(a)
            if a.get("kind") == "UnaryOperator" and a["opcode"] == "&":
                names.append(self.strip(a["inner"][0])["referencedDecl"]["name"])
            else:
                self.err(call, "PyArg_ParseTuple target")
        self.parse_tuple = names
        self.parse_fmt = m.group(1)

    # ---------------------------------------------------------------- expressions
    def strip(self, n):
        while n.get("kind") in ("ImplicitCastExpr", "ParenExpr", "ConstantExpr") or \
                (n.get("kind") == "CStyleCastExpr" and n.get("castKind") in ("NoOp", "BitCast", "LValueToRValue", "IntegralCast",
                                                                             "NullToPointer", "ToVoid")):
            n = n["inner"][0]
        return n

    def callee(self, call):
        f = self.strip(call["inner"][0])
        return f.get("referencedDecl", {}).get("name") if f.get("kind") == "DeclRefExpr" else None

    def cond(self, n):
        e = self.expr(n)
        return e

    def coerce_to(self, e, qt, src):
        """assignment conversion: double -> integer truncates, integer -> double widens"""
        st = qtype(self.strip_keep_type(src))
        if is_int_type(qt) and is_float_type(st):
            return ast.Call(ast.Name("c_trunc", ast.Load()), [e], [])
        if is_float_type(qt) and is_int_type(st):
            return ast.Call(ast.Name("float", ast.Load()), [e], [])
        if is_float_type(qt) and isinstance(e, ast.Constant) and isinstance(e.value, int) and not isinstance(e.value, bool):
            return ast.Constant(float(e.value))
        return e

    def strip_keep_type(self, n):
        return n

    def lvalue(self, n):
        e = self.expr(n)
        for x in ast.walk(e):
            if hasattr(x, "ctx"):
                pass
        if isinstance(e, ast.Name):
            return ast.Name(e.id, ast.Store())
        if isinstance(e, ast.Subscript):
            return ast.Subscript(e.value, e.slice, ast.Store())
        if isinstance(e, ast.Attribute):
            return ast.Attribute(e.value, e.attr, ast.Store())
        self.err(n, "unsupported assignment target")

    def binop(self, op, a, b, qt, n):
        flt = is_float_type(qt)
        table = {"+": ast.Add, "-": ast.Sub, "*": ast.Mult}
        if op in table:
            return ast.BinOp(a, table[op](), b)
        if op == "/":
            if flt:
                return ast.BinOp(a, ast.Div(), b)
            return ast.Call(ast.Name("c_div", ast.Load()), [a, b], [])
        if op == "%":
            return ast.Call(ast.Name("c_mod", ast.Load()), [a, b], [])
        self.err(n, "operator " + op)

    def expr(self, n):
        k = n.get("kind")
        if k in ("ParenExpr", "ConstantExpr"):
            return self.expr(n["inner"][0])
        if k in ("ImplicitCastExpr", "CStyleCastExpr"):
            ck = n.get("castKind")
            inner = n["inner"][0]
            e = self.expr(inner)
            if ck == "FloatingToIntegral":
                return ast.Call(ast.Name("c_trunc", ast.Load()), [e], [])
            if ck == "IntegralToFloating":
                if isinstance(e, ast.Constant) and isinstance(e.value, int):
                    return ast.Constant(float(e.value))
                return ast.Call(ast.Name("float", ast.Load()), [e], [])
            if ck in ("FloatingCast", "IntegralCast", "NoOp", "LValueToRValue", "BitCast", "ArrayToPointerDecay",
                      "FunctionToPointerDecay", "NullToPointer", "IntegralToBoolean", "PointerToBoolean", "ToVoid",
                      "FloatingToBoolean"):
                return e
            self.err(n, "cast kind %s" % ck)
        if k == "IntegerLiteral":
            return ast.Constant(int(n["value"]))
        if k == "FloatingLiteral":
            return ast.Constant(float(n["value"]))
        if k == "StringLiteral":
            return ast.Constant("<c-string>")
        if k == "CharacterLiteral":
            return ast.Constant(int(n["value"]))
        if k == "DeclRefExpr":
            name = n["referencedDecl"]["name"]
            if name in self.alias:
                return self.alias[name]
            if name == "Py_None" or name == "_Py_NoneStruct":
                return ast.Constant(None)
            if n["referencedDecl"].get("kind") == "EnumConstantDecl":
                return ast.Name(name, ast.Load())
            return ast.Name(name, ast.Load())
        if k == "UnaryOperator":
            op = n["opcode"]
            inner = n["inner"][0]
            if op == "-":
                return ast.UnaryOp(ast.USub(), self.expr(inner))
            if op == "+":
                return self.expr(inner)
            if op == "!":
                return ast.UnaryOp(ast.Not(), self.expr(inner))
            if op == "*":
                s = self.strip(inner)
                if s.get("kind") == "CallExpr" and self.callee(s) == "PyArray_GETPTR1":
                    return ast.Subscript(self.expr(s["inner"][1]), self.expr(s["inner"][2]), ast.Load())
                if s.get("kind") == "CallExpr" and self.callee(s) == "PyArray_GETPTR2":
                    return ast.Subscript(self.expr(s["inner"][1]),
                                         ast.Tuple([self.expr(s["inner"][2]), self.expr(s["inner"][3])], ast.Load()), ast.Load())
                if s.get("kind") == "CallExpr" and self.callee(s) == "PyArray_DATA":
                    return ast.Subscript(self.expr(s["inner"][1]), ast.Constant(0), ast.Load())
                return ast.Subscript(self.expr(inner), ast.Constant(0), ast.Load())
            if op == "&":
                s = self.strip(inner)
                if s.get("kind") == "DeclRefExpr" and s["referencedDecl"]["name"] in ("_Py_NoneStruct", "Py_None"):
                    return ast.Constant(None)
                return self.expr(inner)     # address of a struct/array: the object itself
            self.err(n, "unary operator %s in expression position" % op)
        if k == "BinaryOperator":
            op = n["opcode"]
            a, b = n["inner"]
            if op in ("&&", "||"):
                return ast.BoolOp(ast.And() if op == "&&" else ast.Or(), [self.truth(a), self.truth(b)])
            cmp_ = {"<": ast.Lt, "<=": ast.LtE, ">": ast.Gt, ">=": ast.GtE, "==": ast.Eq, "!=": ast.NotEq}
            if op in cmp_:
                ea, eb = self.expr(a), self.expr(b)
                if isinstance(eb, ast.Constant) and eb.value is None:
                    return ast.Compare(ea, [ast.Is() if op == "==" else ast.IsNot()], [eb])
                return ast.Compare(ea, [cmp_[op]()], [eb])
            if op in ("+", "-", "*", "/", "%"):
                return self.binop(op, self.expr(a), self.expr(b), qtype(n), n)
            self.err(n, "binary operator %s in expression position" % op)
        if k == "ConditionalOperator":
            c, a, b = n["inner"]
            return ast.IfExp(self.truth(c), self.expr(a), self.expr(b))
        if k == "ArraySubscriptExpr":
            a, i = n["inner"]
            return ast.Subscript(self.expr(a), self.expr(i), ast.Load())
        if k == "MemberExpr":
            return ast.Attribute(self.expr(n["inner"][0]), n["name"], ast.Load())
        if k == "CallExpr":
            name = self.callee(n)
            if name is None:
                self.err(n, "indirect call")
            args = [self.expr(a) for a in n["inner"][1:]]
            if name == "PyArray_SIZE":
                return ast.Call(ast.Name("len", ast.Load()), args, [])
            if name in ("PyFloat_FromDouble", "PyLong_FromLong"):
                return args[0]
            if name == "PyTuple_New":
                if not (isinstance(args[0], ast.Constant) and isinstance(args[0].value, int)):
                    self.err(n, "PyTuple_New with a non-constant size")
                return ast.List([ast.Constant(None) for _ in range(args[0].value)], ast.Load())
            return ast.Call(ast.Name(name, ast.Load()), args, [])
        if k == "InitListExpr":
            return ast.List([self.expr(c) for c in n.get("inner", [])], ast.Load())
        if k == "UnaryExprOrTypeTraitExpr":
            return ast.Constant(8)
        self.err(n, "expression")

    def truth(self, n):
        e = self.expr(n)
        qt = qtype(self.strip(n))
        if isinstance(e, (ast.Compare, ast.BoolOp)) or (isinstance(e, ast.UnaryOp) and isinstance(e.op, ast.Not)):
            return e
        return e


def load_c_function(idx, c):
    """returns (module, qualname, FunctionDef, None) and registers the translated module in the index"""
    fname = c.name.split("#")[0].split(".")[-1]
    path = os.path.join(idx.root, c.source)
    modname = ".".join(c.name.split("#")[0].split(".")[:-1])
    key = (path, fname)
    decl = clang_ast(path, fname)
    tr = CTranslator(decl, path)
    fn = tr.function()
    mod = idx.extra.get(modname)
    if mod is None:
        mod = ast.Module(body=[], type_ignores=[])
        mod._path = path
        idx.extra[modname] = mod
    mod.body = [b for b in mod.body if not (isinstance(b, ast.FunctionDef) and b.name == fname)] + [fn]
    return modname, fname, fn, None


def c_source_text(idx, c):
    fname = c.name.split("#")[0].split(".")[-1]
    path = os.path.join(idx.root, c.source)
    decl = clang_ast(path, fname)
    return ast.unparse(CTranslator(decl, path).function())


if __name__ == "__main__":
    import sys
    from .repoindex import RepoIndex

    class C:
        pass
    c = C()
    c.name, c.source = sys.argv[1], sys.argv[2]
    print(c_source_text(RepoIndex(), c))
