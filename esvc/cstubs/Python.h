/* Stub of the CPython / numpy C API used by the esvc C front end.
 * The real source file is parsed by clang against these declarations so that API accessor macros
 * (PyArray_GETPTR1, PyArray_SIZE, ...) appear as plain calls with an assumed meaning (listed in DESIGN.md section 6).
 * Nothing of the function under verification is replaced. */
#ifndef ESVC_PYTHON_H
#define ESVC_PYTHON_H
#include <stddef.h>
typedef struct _object { long ob_refcnt; } PyObject;
typedef long Py_ssize_t;
typedef long npy_intp;
typedef long npy_int64;
typedef int npy_int32;
typedef double npy_double;
typedef double npy_float64;
typedef float npy_float32;
typedef struct { PyObject base; } PyArrayObject;
extern PyObject *Py_None;
extern PyObject *PyExc_ValueError, *PyExc_RuntimeError, *PyExc_MemoryError, *PyExc_TypeError, *PyExc_IOError;
#define Py_RETURN_NONE return Py_None
#define Py_INCREF(x) ((void)0)
#define Py_DECREF(x) ((void)0)
#define Py_XDECREF(x) ((void)0)
#define Py_XINCREF(x) ((void)0)
#define PyObject_HEAD PyObject ob_base;
#define PyMODINIT_FUNC PyObject*
#define PyObject_HEAD_INIT(x) {0},
#define PyModuleDef_HEAD_INIT {0}
#define PyVarObject_HEAD_INIT(a,b) {0},
#define METH_VARARGS 1
#define METH_KEYWORDS 2
#define METH_NOARGS 4
#define PY_MAJOR_VERSION 3
#define Py_TPFLAGS_DEFAULT 0
#define Py_TPFLAGS_BASETYPE 0
#define NPY_FLOAT64 12
#define NPY_DOUBLE 12
#define NPY_INT64 7
#define NPY_INTP 7
#define NPY_FALSE 0
#define NPY_TRUE 1
typedef PyObject *(*PyCFunction)(PyObject *, PyObject *);
typedef struct PyMethodDef { const char *ml_name; PyCFunction ml_meth; int ml_flags; const char *ml_doc; } PyMethodDef;
typedef struct PyModuleDef { int m_base; const char *m_name; const char *m_doc; long m_size; PyMethodDef *m_methods;
                             void *m_slots; void *m_traverse; void *m_clear; void *m_free; } PyModuleDef;
typedef struct _typeobject { int dummy; } PyTypeObject;
int PyArg_ParseTuple(PyObject *, const char *, ...);
PyObject *PyModule_Create(PyModuleDef *);
int PyModule_AddObject(PyObject *, const char *, PyObject *);
PyObject *Py_InitModule3(const char *, PyMethodDef *, const char *);
PyObject *PyFloat_FromDouble(double);
PyObject *PyLong_FromLong(long);
PyObject *PyTuple_New(Py_ssize_t);
int PyTuple_SetItem(PyObject *, Py_ssize_t, PyObject *);
PyObject *Py_BuildValue(const char *, ...);
void PyErr_SetString(PyObject *, const char *);
PyObject *PyErr_Format(PyObject *, const char *, ...);
int PyType_Ready(PyTypeObject *);
void *PyArray_DATA(void *);
npy_intp PyArray_SIZE(void *);
npy_intp PyArray_DIM(void *, int);
int PyArray_NDIM(void *);
void *PyArray_GETPTR1(void *, npy_intp);
void *PyArray_GETPTR2(void *, npy_intp, npy_intp);
PyObject *PyArray_ZEROS(int, npy_intp *, int, int);
PyObject *PyArray_EMPTY(int, npy_intp *, int, int);
PyObject *PyArray_SimpleNew(int, npy_intp *, int);
void import_array(void);
#endif
