#include "Python.h"
