#include "Python.h"
