"""Property-level check:  python3-vt -m esvc.check <Cxx> [--tier quick|thorough] [--replay file]

exit 0: every obligation of the property discharged and every bounded stand-in passed
exit 1: violation (a line `VIOLATION property=<id> replay=<path>` is printed)
exit 2: undecided (unsupported construct after an edit, unknown on an obligation that was never locked)
exit 3: checker error
"""
import concurrent.futures as cf
import glob
import hashlib
import json
import os
import shutil
import subprocess
import sys
import time
import traceback

ROOT = os.path.dirname(os.path.dirname(os.path.abspath(__file__)))
REPO = os.environ.get("ESVC_REPO", "/repo")
VENV_PY = "/venv/bin/python"
CACHE = os.path.join(ROOT, ".cache")
SCRATCH_BASE = "/var/tmp"


# ------------------------------------------------------------------------------------------- prover side
def _prove_one(args):
    name, timeout, repo = args
    os.environ["ESVC_REPO"] = repo
    flag = os.environ.get("ESVC_TEST_WORKER_DEATH")       # self-test of the pool recovery: the first worker to see the flag file dies
    if flag and os.path.exists(flag):
        try:
            os.remove(flag)
            os._exit(9)
        except OSError:
            pass
    from . import speclang
    from .engine import Engine
    from . import solve
    speclang.load_specs()
    c = speclang.CONTRACTS[name]
    t0 = time.time()
    eng = Engine(speclang.CONTRACTS, speclang.SPEC_ASTS, repo_root=repo, timeout=float(c.timeout or timeout))
    try:
        info = eng.verify_function(name)
    except Exception:
        info = dict(function=name, status="crash", error=traceback.format_exc()[-1500:], paths=0, exits=0, raises=0)
    obls = [o.to_json() for o in eng.obls]
    samples = []
    for o in eng.obls[:2]:
        try:
            samples.append(dict(name=o.name, goal=o.goal.sexpr()[:400]))
        except Exception:
            pass
    return dict(info=info, obligations=obls, assumptions=sorted(eng.assumptions_used), notes=eng.notes,
                used_contracts=sorted(eng.used_contracts), solver=dict(solve.STATS), wall_s=time.time() - t0,
                samples=samples)


def src_hash(repo):
    h = hashlib.sha256()
    pats = ["esutil/**/*.c", "esutil/**/*.cc", "esutil/**/*.cpp", "esutil/**/*.h", "esutil/**/*.hpp", "setup.py"]
    files = []
    for p in pats:
        files += glob.glob(os.path.join(repo, p), recursive=True)
    for f in sorted(set(files)):
        h.update(f[len(repo):].encode())
        h.update(open(f, "rb").read())
    return h.hexdigest()[:24]


def prepare_scratch(repo, need_ext=True, log=None):
    """copy of the working tree with extensions built from *its* sources; returns the scratch path"""
    scratch = os.path.join(SCRATCH_BASE, "esvc-%d-%d" % (os.getpid(), int(time.time() * 1000) % 100000))
    dst = os.path.join(scratch, "repo")
    os.makedirs(dst)
    subprocess.run(["rsync", "-a", "--exclude", ".git", "--exclude", "*.so", "--exclude", "build", "--exclude",
                    "__pycache__", repo + "/", dst + "/"], check=True)
    if need_ext:
        hsh = src_hash(repo)
        cdir = os.path.join(CACHE, "so", hsh)
        if not os.path.isdir(cdir) or not glob.glob(os.path.join(cdir, "**", "*.so"), recursive=True):
            t0 = time.time()
            r = subprocess.run([VENV_PY, "setup.py", "build_ext", "--inplace", "-j16"], cwd=dst, capture_output=True,
                               text=True)
            if r.returncode != 0:
                shutil.rmtree(scratch, ignore_errors=True)
                raise RuntimeError("build of the working tree failed:\n" + r.stdout[-2000:] + r.stderr[-2000:])
            tmp = cdir + ".tmp%d" % os.getpid()
            for so in glob.glob(os.path.join(dst, "esutil", "**", "*.so"), recursive=True):
                rel = os.path.relpath(so, dst)
                os.makedirs(os.path.dirname(os.path.join(tmp, rel)), exist_ok=True)
                shutil.copy2(so, os.path.join(tmp, rel))
            os.makedirs(os.path.dirname(cdir), exist_ok=True)
            try:
                os.rename(tmp, cdir)
            except OSError:
                shutil.rmtree(tmp, ignore_errors=True)
            shutil.rmtree(os.path.join(dst, "build"), ignore_errors=True)
            # keep at most 3 generations
            gens = sorted(glob.glob(os.path.join(CACHE, "so", "*")), key=os.path.getmtime)
            for g in gens[:-3]:
                shutil.rmtree(g, ignore_errors=True)
            if log is not None:
                log.append("built extensions from the working tree in %.1fs (hash %s)" % (time.time() - t0, hsh))
        for so in glob.glob(os.path.join(cdir, "**", "*.so"), recursive=True):
            rel = os.path.relpath(so, cdir)
            shutil.copy2(so, os.path.join(dst, rel))
    return scratch


def run_runtime(scratch, prop, contracts, tier, seed, limit, cases=None):
    out = os.path.join(scratch, "runtime-%s.json" % prop)
    args = [VENV_PY, "-m", "esvc.runtime", "--tier", tier, "--seed", str(seed), "--out", out, "--limit", str(limit)]
    if contracts:
        args += ["--contracts", ",".join(contracts)]
    else:
        args += ["--prop", prop]
    if cases:
        cf_ = os.path.join(scratch, "cases-%s.json" % prop)
        json.dump(cases, open(cf_, "w"))
        args += ["--cases", cf_]
    env = dict(os.environ)
    deps = os.path.join(ROOT, ".deps")
    env["PYTHONPATH"] = os.pathsep.join([os.path.join(scratch, "repo"), ROOT, deps])
    env["ESVC_SCRATCH"] = scratch
    r = subprocess.run(args, cwd=scratch, env=env, capture_output=True, text=True, errors="replace")
    if -r.returncode in (4, 6, 7, 8, 11):
        crashed = _native_crash(scratch, out, -r.returncode, r.stderr)
        if crashed is not None:
            return crashed
    if r.returncode != 0 or not os.path.exists(out):
        raise RuntimeError("runtime evaluator failed: " + r.stdout[-1500:] + r.stderr[-3000:])
    return json.load(open(out))


def _native_crash(scratch, out, signo, stderr):
    """the evaluator was ended by SIGILL/ABRT/BUS/FPE/SEGV.  When the interpreter's fault handler shows that the innermost
    Python frame is code of the package under test (a native call made by esutil itself, on a case of a bounded domain),
    the case is reported as a violation of its contract: the call has no result.  Anything else stays a checker error."""
    try:
        mark = json.load(open(out + ".current"))
    except (OSError, ValueError):
        return None
    frames = [l.strip() for l in stderr.splitlines() if l.strip().startswith('File "')]
    inner = frames[0] if frames else ""
    if os.path.join(scratch, "repo", "esutil") + os.sep not in inner:
        return None
    try:
        done = json.load(open(out + ".partial"))
    except (OSError, ValueError):
        done = []
    n = int(mark.get("index", 1))
    text = "the process evaluating this case was ended by signal %d inside a native call made at %s" % (signo, inner.replace(scratch, "<scratch>"))
    done.append(dict(contract=mark["contract"], cases=n, ok=max(0, n - 1), skipped=0, error=None, distinct=0, samples=[], crashed=True,
                     violations=[dict(failures=[["the-call-returns", text]], inputs={"case": mark.get("case_key")}, result=None,
                                      exception="signal %d" % signo, case_key=mark.get("case_key"), signature=None,
                                      fault_handler_output=stderr[-3000:].replace(scratch, "<scratch>"))]))
    return done


# ------------------------------------------------------------------------------------------- findings / lock
def load_json(path, default):
    try:
        return json.load(open(path))
    except (OSError, ValueError):
        return default


def finding_for(findings, prop, kind, key, detail=""):
    """kind: 'obligation' | 'runtime'; returns the matching finding entry (status known) or None"""
    for f in findings:
        if f.get("property") != prop or f.get("status") != "known":
            continue
        m = f.get("match", {})
        if kind == "obligation" and m.get("obligation") == key:
            return f
        if kind == "runtime" and m.get("contract") == key[0] and m.get("clause") == key[1]:
            sig = m.get("signature")
            if sig is None or sig == key[2]:
                return f
    return None


def _replayable(v):
    """can this JSON value (from Engine.concretize) be turned back into a real argument?"""
    if isinstance(v, str):
        return not (v.startswith("Ref(") or v.startswith("Opaque(") or v.startswith("<") or "object at 0x" in v or "FieldType" in v)
    if isinstance(v, dict):
        if "__obj__" in v:
            return False
        return all(_replayable(x) for x in v.values())
    if isinstance(v, (list, tuple)):
        return all(_replayable(x) for x in v)
    return True


INTERNAL_KINDS = {"loop-init", "loop-preserve", "loop-variant", "lemma", "call-variant"}


# ------------------------------------------------------------------------------------------- main
def _map_robust(fn, items, workers):
    """ex.map in a process pool, in input order; when a worker dies (the pool breaks) the items without a result are run again
    in a fresh pool, twice at most, before giving up"""
    from concurrent.futures.process import BrokenProcessPool
    out = [None] * len(items)
    todo = list(range(len(items)))
    for attempt in range(3):
        if not todo:
            break
        with cf.ProcessPoolExecutor(max_workers=max(1, min(workers, len(todo)) if attempt == 0 else min(4, len(todo)))) as ex:
            futs = {i: ex.submit(fn, items[i]) for i in todo}
            left = []
            for i, f in futs.items():
                try:
                    out[i] = f.result()
                except BrokenProcessPool:
                    left.append(i)
        if left:
            print("note: a prover worker ended abruptly; %d function(s) are run again" % len(left), flush=True)
        todo = left
    if todo:
        raise RuntimeError("prover workers keep ending abruptly: %r" % [items[i][0] for i in todo])
    return out


def main(argv):
    import argparse
    ap = argparse.ArgumentParser()
    ap.add_argument("prop")
    ap.add_argument("--tier", default=os.environ.get("VERIF_TIER", "quick"))
    ap.add_argument("--replay", default=None)
    ap.add_argument("--no-runtime", action="store_true")
    ap.add_argument("--update-lock", action="store_true")
    ap.add_argument("-v", action="store_true")
    a = ap.parse_args(argv)
    seed = int(os.environ.get("VERIF_SEED", "0") or 0)
    prop = a.prop
    t0 = time.time()
    # hard wall-clock limit: a solver call or a native call that never returns must not hang the check; it ends as a checker
    # error (exit 3), never as a verdict
    import threading

    def _give_up():
        import multiprocessing
        import signal
        sys.stderr.write("CHECKER-ERROR: wall-clock limit reached, giving up\n")
        print("CHECKER-ERROR: wall-clock limit reached (%s tier); no verdict" % a.tier)
        sys.stdout.flush()
        for ch in multiprocessing.active_children():
            try:
                ch.kill()
            except Exception:
                pass
        try:
            # everything this process started (pool workers, the run-time evaluator): same process group unless re-grouped
            for line in os.popen("ps -o pid= --ppid %d" % os.getpid()).read().split():
                os.kill(int(line), signal.SIGKILL)
        except Exception:
            pass
        os._exit(3)
    _wd = threading.Timer(2400.0 if a.tier == "quick" else 7200.0, _give_up)
    _wd.daemon = True
    _wd.start()
    sys.path.insert(0, ROOT)
    from . import speclang
    from .propinfo import PROPS
    speclang.load_specs()
    if a.replay:
        return replay(a.replay)
    meta = PROPS[prop]
    tier = a.tier
    timeout = 10.0 if tier == "quick" else 40.0
    names = [n for n, c in speclang.CONTRACTS.items() if prop in c.props]
    proved_fns = [n for n in names if not speclang.CONTRACTS[n].assumed]
    assumed_fns = [n for n in names if speclang.CONTRACTS[n].assumed]
    findings = load_json(os.path.join(ROOT, "known_findings.json"), {"findings": []})["findings"]
    lock = load_json(os.path.join(ROOT, "obligations.lock.json"), {})
    locked = set(lock.get(prop, []))
    log = []
    # ---- 1. deductive part
    results = _map_robust(_prove_one, [(n, timeout, REPO) for n in proved_fns], min(16, max(1, len(proved_fns))))
    # obligations the solver left open are tried once more, with four times the budget and at most four functions at a time:
    # under a loaded machine the first pass can time out on obligations that discharge in seconds when run alone.
    # Only an `unknown` is ever replaced; proved and refuted verdicts of the first pass stand.
    open_fns = sorted({o["function"] for r in results for o in r["obligations"] if o["result"] == "unknown"})
    retried = {}
    if open_fns:
        for r in _map_robust(_prove_one, [(n, timeout * 4, REPO) for n in open_fns], min(4, len(open_fns))):
            retried[r["info"]["function"]] = r
        for r in results:
            r2 = retried.get(r["info"]["function"])
            if r2 is None or r2["info"]["status"] != "ok":
                continue
            better = {}
            for o in r2["obligations"]:
                cur = better.get(o["name"])
                if cur is None or {"proved": 0, "unknown": 1, "refuted": 2}[o["result"]] > {"proved": 0, "unknown": 1, "refuted": 2}[cur["result"]]:
                    better[o["name"]] = o
            for o in r["obligations"]:
                if o["result"] == "unknown" and o["name"] in better and better[o["name"]]["result"] != "unknown":
                    o.update(better[o["name"]])
                    o["retried"] = True
            for k in ("z3_s", "cvc5_s"):
                r["solver"][k] = r["solver"].get(k, 0) + r2["solver"].get(k, 0)
    agg = {}          # obligation name -> worst status
    per_ob = {}
    rank = {"proved": 0, "unknown": 1, "refuted": 2}
    fn_status = {}
    solver_s = 0.0
    all_obls = []
    assumptions = set()
    used_contracts = set()
    for r in results:
        info = r["info"]
        fn_status[info["function"]] = info
        solver_s += r["solver"].get("z3_s", 0) + r["solver"].get("cvc5_s", 0)
        assumptions.update(r["assumptions"])
        used_contracts.update(r["used_contracts"])
        for o in r["obligations"]:
            all_obls.append(o)
            cur = agg.get(o["name"])
            if cur is None or rank[o["result"]] > rank[cur]:
                agg[o["name"]] = o["result"]
                per_ob[o["name"]] = o
    broken_fns = {n: i for n, i in fn_status.items() if i["status"] != "ok"}
    # contradictory hypotheses on *every* exit mean a vacuous contract; a single infeasible branch that the cheap path pruning
    # did not remove (e.g. a clip branch that the tabulated constants can never reach) is normal
    vacuous = {n: i.get("vacuous_exits") for n, i in fn_status.items()
               if i.get("vacuous_exits") and not i.get("live_exits") and not any(str(v).count(": loop ") for v in i.get("vacuous_exits"))}
    vacuous.update({n: [v for v in i.get("vacuous_exits") if ": loop " in str(v)] for n, i in fn_status.items()
                    if any(": loop " in str(v) for v in (i.get("vacuous_exits") or []))})
    # a contract none of whose paths reaches an exit (normal or exceptional) proves nothing: every path died on a contradiction
    for n, i in fn_status.items():
        if i["status"] == "ok" and not i.get("live_exits") and not i.get("raises") and not i.get("vacuous_exits") \
                and not any(o["function"] == n and o["result"] != "proved" for o in all_obls):
            vacuous[n] = ["no path reaches an exit"]
    failed = {n: s for n, s in agg.items() if s != "proved"}
    missing = sorted(x for x in locked if x not in agg and x.split("/")[0] not in broken_fns)
    if a.update_lock:
        lock[prop] = sorted(n for n, s in agg.items() if s == "proved")
        json.dump(lock, open(os.path.join(ROOT, "obligations.lock.json"), "w"), indent=0, sort_keys=True)
        print("lock updated: %d obligations" % len(lock[prop]))
    # ---- 2. run-time part (bounded stand-ins, contract sanity, replay of counter-models)
    rt = []
    rt_error = None
    scratch = None
    violations = []       # (kind, key, replay-data)
    known_lines = []
    try:
        if not a.no_runtime:
            need_ext = meta.get("needs_ext", True)
            scratch = prepare_scratch(REPO, need_ext=need_ext, log=log)
            cases = {}
            for name, o in per_ob.items():
                if o["result"] != "proved" and o.get("inputs"):
                    fn = o["function"]
                    c = speclang.CONTRACTS[fn]
                    argv_ = [o["inputs"].get(p) for p in c.params.keys()]
                    if not all(_replayable(v) for v in argv_):
                        continue      # the model has no concrete counterpart for this argument kind: nothing to replay
                    if getattr(c, "runtime", True) is False:
                        continue      # no callable counterpart (a C/C++ function that Python cannot call directly, a method
                        #               verified on a ghost object): the refutation is reported with no-failing-input-found
                    cases.setdefault(fn, []).append(dict(args=argv_, key="counter-model of " + name, sig="counter-model"))
            limit = meta.get("limit_quick", 40) if tier == "quick" else meta.get("limit_thorough", 600)
            rt = run_runtime(scratch, prop, None, tier, seed, limit, cases)
    except Exception as e:
        rt_error = "%s" % e
    finally:
        if scratch:
            shutil.rmtree(scratch, ignore_errors=True)
    # ---- 3. verdicts
    os.makedirs(os.path.join(ROOT, "replays"), exist_ok=True)
    rt_viol_by_fn = {}
    for r in rt:
        for v in r.get("violations", []):
            for clause, text in v["failures"]:
                key = (r["contract"], clause, v.get("signature"))
                f = finding_for(findings, prop, "runtime", key)
                rt_viol_by_fn.setdefault(r["contract"], []).append(v)
                if f is not None:
                    line = "KNOWN-FINDING: property=%s %s" % (prop, f["what"])
                    if line not in known_lines:
                        known_lines.append(line)
                else:
                    violations.append(("runtime", key, dict(contract=r["contract"], clause=clause, text=text, case=v)))
    undecided = []
    for name, status in sorted(failed.items()):
        f = finding_for(findings, prop, "obligation", name)
        if f is not None:
            line = "KNOWN-FINDING: property=%s %s" % (prop, f["what"])
            if line not in known_lines:
                known_lines.append(line)
            continue
        fn = name.split("/")[0]
        concrete = rt_viol_by_fn.get(fn)
        o = per_ob[name]
        if concrete:
            # a concrete failing input of the same function exists: reported through the runtime violation above,
            # unless that one is a known finding (then this obligation is the symbolic face of it)
            if not any(v[0] == "runtime" and v[2]["contract"] == fn for v in violations):
                # all concrete failures of this function are known findings; is this obligation attributed?
                undecided.append((name, status, "failed obligation whose concrete witnesses are all known findings"))
            continue
        internal = o.get("kind") in INTERNAL_KINDS
        if name in locked and status == "unknown":
            # solver time-out: undecided by definition, never an alarm (the bounded domain found no failing input either)
            undecided.append((name, status, "solver returned unknown within the budget and no failing input was found"))
        elif (name in locked and not internal) or \
                (status == "refuted" and any(x.startswith(fn + "/") for x in locked) and
                 ("/post/unexpected-exception:" in name or o.get("kind") == "frame" or
                  (o.get("kind") == "safety" and name.split("/")[-1].split(":")[0] in ("local-assigned-before-use", "operand-not-None")))):
            # (obligations that exist only when violated - an exception the contract does not allow, a write outside the
            #  frame, a read of an unassigned local, a None operand - have no counterpart on the reference tree, so their names
            #  cannot be in the lock; the clauses they stand for are part of the locked contract of the function.
            #  Presence of a key / field / attribute that the contract's object type does not declare is NOT in this list: that
            #  is a limit of the model, reported as undecided)
            violations.append(("obligation", name, dict(obligation=name, status=status, line=o.get("line"),
                                                        path=o.get("path"), backend=o.get("backend"), kind=o.get("kind"),
                                                        inputs=o.get("inputs"), no_input=True)))
        elif name in locked:
            # a proof-internal obligation (invariant, lemma, variant) no longer holds and no failing input of the function
            # was found: the proof is broken, the property may still hold -> undecided, never an alarm
            undecided.append((name, status, "proof-internal obligation failed after an edit; no failing input found in the "
                                            "bounded domain of the function - contract invariants need revisiting"))
        else:
            undecided.append((name, status, "obligation not in the lock (never discharged on the reference tree)"))
    for name in missing:
        log.append("obligation discharged on the reference tree is no longer generated: " + name)
    for n, i in broken_fns.items():
        undecided.append((n, i["status"], i.get("error")))
    for n, v in vacuous.items():
        undecided.append((n, "vacuous", "contradictory hypotheses on exits %s" % v))
    # ---- 4. evidence
    nobl = len(agg)
    ndis = sum(1 for s in agg.values() if s == "proved")
    bounded = []
    evals = 0
    distinct = 0
    samples = []
    for r in rt:
        c = speclang.CONTRACTS[r["contract"]]
        bounded.append(dict(function=r["contract"], label="bounded - not proved", cases=r["cases"], passed=r["ok"],
                            skipped_by_precondition=r["skipped"], violations=len(r.get("violations", [])),
                            assumed_contract=bool(c.assumed), error=r.get("error"), truncated=r.get("truncated", False),
                            revisited_after_the_run=r.get("revisited", 0)))
        evals += r["cases"]
        distinct += r.get("distinct", 0)
        samples += r.get("samples", [])[:1]
    level = meta["level"]
    coverage = dict(
        obligations=nobl, discharged=ndis,
        checker_cmd="python3-vt -m esvc.check %s --tier %s" % (prop, tier),
        trusted_base=["esvc VC generator (this repository, /verif/esvc)", "z3 5.1.0", "cvc5 1.0.3", "CPython ast module",
                      "clang 14 JSON AST (C functions)"] + sorted("assumed contract: " + n for n in used_contracts if speclang.CONTRACTS[n].assumed),
        functions_under_contract=[dict(function=n, status=fn_status[n]["status"], paths=fn_status[n].get("paths"),
                                       obligations=fn_status[n].get("obligations"), wall_s=fn_status[n].get("wall_s"),
                                       line=fn_status[n].get("line")) for n in proved_fns if n in fn_status],
        assumed_contracts=[dict(function=n, why=speclang.CONTRACTS[n].why_assumed) for n in assumed_fns],
        per_obligation=[dict(name=n, result=s, backend=per_ob[n]["backend"], ms=per_ob[n]["ms"]) for n, s in sorted(agg.items())][:400],
        path_queries=len(all_obls), solver_time_s=round(solver_s, 2),
        bounded=bounded,
        evaluations=max(evals, 0), distinct_nontrivial=distinct,
        rule="bounded part: enumerated small-scope domains attached to each contract (see specs/*.py @domain); a case is "
             "counted once per distinct argument tuple whose precondition holds",
        samples=([per_ob[n] for n in list(agg)[:2]] + samples[:3]) or ["none"],
        explanation=meta["explanation"],
        undecided=[dict(name=n, status=s, reason=str(why)[:400]) for n, s, why in undecided],
        known_findings=known_lines,
        log=log,
    )
    ev = dict(property_id=prop, tier=tier, seed=seed, level=level, coverage=coverage,
              assumptions=sorted(assumptions) + meta.get("assumptions", []) + [
                  "integers are mathematical (no int64 overflow); floats are reals unless stated",
                  "bounded stand-ins are labelled and never counted as proved"],
              wall_s=round(time.time() - t0, 2), violations=len(violations))
    os.makedirs(os.path.join(ROOT, "evidence"), exist_ok=True)
    json.dump(ev, open(os.path.join(ROOT, "evidence", prop + ".json"), "w"), indent=1, default=str)
    # ---- 5. report
    print("%s tier=%s functions=%d obligations=%d discharged=%d path-queries=%d solver=%.1fs bounded-cases=%d wall=%.1fs"
          % (prop, tier, len(proved_fns), nobl, ndis, len(all_obls), solver_s, evals, time.time() - t0))
    for line in known_lines:
        print(line)
    if rt_error:
        print("CHECKER-ERROR: runtime stage: " + rt_error[:2000])
        return 3
    for r in rt:
        if r.get("error"):
            print("CHECKER-ERROR: runtime %s: %s" % (r["contract"], r["error"][:1500]))
            return 3
    if violations:
        seen = set()
        for kind, key, data in violations:
            k = json.dumps(key, default=str)
            if k in seen:
                continue
            seen.add(k)
            fname = "%s-%s.json" % (prop, hashlib.sha1(k.encode()).hexdigest()[:10])
            path = os.path.join(ROOT, "replays", fname)
            data = dict(data)
            data.update(property=prop, kind=kind, repo=REPO, tier=tier)
            json.dump(data, open(path, "w"), indent=1, default=str)
            tail = " no-failing-input-found" if data.get("no_input") else ""
            print("VIOLATION property=%s replay=%s%s" % (prop, path, tail))
            if kind == "obligation":
                print("   failed obligation: %s (%s)" % (key, data.get("status")))
            else:
                print("   contract %s clause %s fails on %s" % (key[0], key[1], str(data["case"].get("inputs"))[:300]))
        return 1
    if undecided:
        for n, s, why in undecided:
            print("UNDECIDED %s [%s] %s" % (n, s, str(why)[:300]))
        return 2
    if nobl == 0 and not rt:
        print("CHECKER-ERROR: no obligations generated")
        return 3
    return 0


def replay(path):
    """re-execute a replay file against the current tree"""
    from . import speclang
    data = json.load(open(path))
    prop = data["property"]
    if data["kind"] == "obligation":
        print("replay: obligation %s - re-running the prover for its function" % data["obligation"])
        r = _prove_one((data["obligation"].split("/")[0], 20.0, REPO))
        bad = [o for o in r["obligations"] if o["name"] == data["obligation"] and o["result"] != "proved"]
        print("still failing" if bad else "now discharged")
        return 1 if bad else 0
    scratch = prepare_scratch(REPO)
    try:
        case = data["case"]
        print("replay: contract %s clause %s" % (data["contract"], data["clause"]))
        print("inputs:", json.dumps(case.get("inputs"))[:1000])
        rt = run_runtime(scratch, prop, [data["contract"]], data.get("tier", "quick"), 0, 120)
        bad = [v for r in rt for v in r.get("violations", []) if any(cl == data["clause"] for cl, _ in v["failures"])]
        print("still failing: %d case(s)" % len(bad) if bad else "no longer failing")
        return 1 if bad else 0
    finally:
        shutil.rmtree(scratch, ignore_errors=True)


if __name__ == "__main__":
    try:
        sys.exit(main(sys.argv[1:]))
    except SystemExit:
        raise
    except Exception:
        traceback.print_exc()
        sys.exit(3)
