"""Array model and the catalogue of numpy / builtin primitives (assumed contracts, see DESIGN section 6).

Every primitive here is an *assumed contract*: the prover uses the stated effect as an axiom.  The same
statements are conformance-tested against the real numpy in esvc/conformance.py.
"""
import ast
import itertools

import z3

from .values import (HArr, HArr2, HList, HObj, HStruct, Ref, SliceV, Unsupported, SpecError, Func, Prim, Module,
                     Opaque, UNDEF, to_z3, truth, zand, zor, znot, zimplies, kind_of, is_sym, as_const, SORTS,
                     py_floordiv, py_mod)

_c = itertools.count()


def fresh(name, sort):
    return z3.Const("%s!%d" % (name, next(_c)), sort)


UF = {}


def ufunc(name, *sorts):
    key = (name,) + tuple(str(s) for s in sorts)
    if key not in UF:
        UF[key] = z3.Function(name, *sorts)
    return UF[key]


R = z3.RealSort()
I = z3.IntSort()
B = z3.BoolSort()


def _contains_lambda(t, seen):
    if t.get_id() in seen:
        return False
    seen.add(t.get_id())
    if z3.is_quantifier(t):
        return t.is_lambda() or _contains_lambda(t.body(), seen)
    return any(_contains_lambda(c, seen) for c in t.children())


def _mentions(f, v, seen=None):
    seen = set() if seen is None else seen
    if f.get_id() in seen:
        return False
    seen.add(f.get_id())
    if f.eq(v):
        return True
    if z3.is_quantifier(f):
        return _mentions(f.body(), v, seen)
    return any(_mentions(c, v, seen) for c in f.children())


def lift_lambda(t):
    """An array-valued term built from lambdas (gathered / sliced / element-wise arrays) -> an application G(c1..cn) of an
    uninterpreted function to the free constants of the term, G being keyed by the term's structure.  Structurally equal
    terms over equal constants become equal applications, so congruence replaces reasoning about lambdas.  Sound: it only
    forgets the cells' definitions (which the callers state separately where they need them)."""
    import hashlib
    if not _contains_lambda(t, set()):
        return t
    consts, seen = [], set()

    def walk(x):
        if x.get_id() in seen:
            return
        seen.add(x.get_id())
        if z3.is_quantifier(x):
            walk(x.body())
            return
        if z3.is_const(x) and x.decl().kind() == z3.Z3_OP_UNINTERPRETED:
            consts.append(x)
            return
        for c in x.children():
            walk(c)
    walk(t)
    place = [z3.Const("P!%d" % j, c.sort()) for j, c in enumerate(consts)]
    shape = z3.substitute(t, *zip(consts, place)) if consts else t
    key = hashlib.md5((shape.sexpr() + "|" + ",".join(str(c.sort()) for c in consts)).encode()).hexdigest()[:12]
    G = ufunc("LIFT_" + key, *([c.sort() for c in consts] + [t.sort()]))
    return G(*consts) if consts else G()


_KEEP = []


class NumpyMixin:
    def mat(self, st, n, t, kind):
        """optionally replace an element-wise defined content term by a named array with its defining axiom
        (forall k in range: A[k] == body(k), pattern A[k]); keeps vectorised numpy code from nesting lambdas"""
        if not getattr(self, "materialize", False) or not z3.is_quantifier(t) and z3.is_const(t):
            return t
        from .values import SORTS
        a = fresh("arr", z3.ArraySort(I, SORTS[kind]))
        k = fresh("k", I)
        body = z3.simplify(t[k])
        st.pc.append(z3.ForAll([k], z3.Implies(z3.And(k >= 0, k < to_z3(n, "int")), a[k] == body), patterns=[a[k]]))
        return a

    # ------------------------------------------------------------ array access
    def arr_term(self, st, ref):
        """(length, z3 array term) with views resolved"""
        h = st.get(ref)
        if not isinstance(h, HArr):
            raise Unsupported("expected 1-d array")
        if h.base is None:
            return h.n, h.data
        bref, off, step = h.base
        _, bdata = self.arr_term(st, bref)
        i = z3.Int("i!v")
        return h.n, z3.Lambda([i], bdata[to_z3(off, "int") + i * to_z3(step, "int")])

    def org_term(self, st, ref):
        h = st.get(ref)
        if h.base is None:
            if h.org is None:
                raise SpecError("array has no origin ghost")
            return h.org
        bref, off, step = h.base
        borg = self.org_term(st, bref)
        i = z3.Int("i!v")
        return z3.Lambda([i], borg[to_z3(off, "int") + i * to_z3(step, "int")])

    def arr_get(self, st, ref, i):
        h = st.get(ref)
        if h.base is not None:
            bref, off, step = h.base
            return self.arr_get(st, bref, to_z3(off, "int") + to_z3(i, "int") * to_z3(step, "int"))
        return z3.simplify(h.data[to_z3(i, "int")]) if not is_sym(i) else h.data[to_z3(i, "int")]

    def arr_set(self, st, ref, i, v, org=None):
        h = st.get(ref)
        if h.base is not None:
            bref, off, step = h.base
            return self.arr_set(st, bref, to_z3(off, "int") + to_z3(i, "int") * to_z3(step, "int"), v, org)
        val = self.coerce_elem(v, h.kind)
        new = h.replace(data=z3.Store(h.data, to_z3(i, "int"), val))
        if h.org is not None:
            new.org = z3.Store(h.org, to_z3(i, "int"), org if org is not None else z3.IntVal(-1))
        st.put(ref, new)

    def coerce_elem(self, v, kind):
        k = kind_of(v)
        if k == kind:
            return to_z3(v)
        if kind == "real" and k in ("int", "bool"):
            return to_z3(v, "real")
        if kind == "int" and k == "bool":
            return to_z3(v, "int")
        if kind == "int" and k == "real":
            # numpy truncates on store into an integer array
            return self.trunc(to_z3(v))
        if kind == "bool":
            return to_z3(truth(v))
        raise Unsupported("store of %s into %s array" % (k, kind))

    def trunc(self, x):
        x = to_z3(x, "real")
        if "trunc" in getattr(self, "abstract", ()):
            return ufunc("TRUNC", R, I)(x)
        return z3.If(x >= 0, z3.ToInt(x), -z3.ToInt(-x))

    def root(self, st, ref):
        h = st.get(ref)
        while isinstance(h, HArr) and h.base is not None:
            ref = h.base[0]
            h = st.get(ref)
        return ref

    def index_ok(self, st, n, i, fr, node, label="index"):
        """safety obligation for x[i]; returns the effective (non-negative) index"""
        c = as_const(i) if is_sym(i) else i
        if isinstance(c, bool):
            c = int(c)
        n = to_z3(n, "int")
        if isinstance(c, int):
            if c < 0:
                eff = n + c
                if not fr.spec:
                    self.oblige(st, eff >= 0, "safety", label, node, fr)
                return eff
            if not fr.spec:
                self.oblige(st, c < n, "safety", label, node, fr)
            return c
        if kind_of(i) != "int":
            raise Unsupported("non-integer index", node)
        if not fr.spec:
            self.oblige(st, z3.And(i >= 0, i < n), "safety", label, node, fr)
        return i

    def norm_slice(self, sl, n, node=None):
        """(start, stop, step) of a basic slice with Python/numpy clamping, step > 0 constant"""
        step = sl.step if sl.step is not None else 1
        sc = as_const(step) if is_sym(step) else step
        if not isinstance(sc, int) or sc <= 0:
            raise Unsupported("slice step must be a positive constant", node)
        n = to_z3(n, "int")

        def clamp(v, default):
            if v is None:
                return default
            c = as_const(v) if is_sym(v) else v
            v = to_z3(v, "int")
            if isinstance(c, int):
                if c >= 0:
                    return z3.If(v > n, n, v)
                return z3.If(n + v < 0, 0, n + v)
            w = z3.If(v < 0, n + v, v)
            return z3.If(w < 0, 0, z3.If(w > n, n, w))
        start = clamp(sl.start, z3.IntVal(0))
        stop = clamp(sl.stop, n)
        return z3.simplify(start), z3.simplify(stop), sc

    def slice_len(self, start, stop, step):
        d = stop - start
        ln = z3.If(d <= 0, 0, (d + (step - 1)) / step) if step != 1 else z3.If(d <= 0, 0, d)
        return z3.simplify(ln)

    def arr_subscript(self, base, h, idx, st, fr, node):
        if isinstance(h, HArr2):
            return self.arr2_subscript(base, h, idx, st, fr, node)
        if isinstance(idx, SliceV):
            start, stop, step = self.norm_slice(idx, h.n, node)
            ln = self.slice_len(start, stop, step)
            v = HArr(h.kind, ln, None, base=(base, start, step), fresh=h.fresh, islist=h.islist, unit=h.unit)
            if h.islist:
                # python list slicing copies
                n, t = self.arr_term(st, base)
                i = z3.Int("i!s")
                return st.alloc(HArr(h.kind, ln, z3.Lambda([i], t[start + i * step]), org=None, islist=True))
            return st.alloc(v)
        if isinstance(idx, Ref):
            hi = st.get(idx)
            if isinstance(hi, HArr) and hi.kind == "int":
                return self.gather(base, idx, st, fr, node)
            if isinstance(hi, HArr) and hi.kind == "bool":
                return self.mask_select(base, idx, st, fr, node)
            if isinstance(hi, HList):
                # list of indices
                tmp = self.list_to_arr(idx, st, "int")
                return self.gather(base, tmp, st, fr, node)
            raise Unsupported("array indexed by heap object", node)
        if isinstance(idx, tuple):
            if len(idx) == 1:
                return self.arr_subscript(base, h, idx[0], st, fr, node)
            raise Unsupported("multi-dimensional index of 1-d array", node)
        if idx is None:
            raise Unsupported("newaxis", node)
        if isinstance(idx, str):
            raise Unsupported("field access on plain array", node)
        eff = self.index_ok(st, h.n, idx, fr, node)
        r = self.arr_get(st, base, eff)
        if h.unit == "str" and isinstance(r, z3.ExprRef):
            st.ghost["strterms"] = frozenset(st.ghost.get("strterms", frozenset()) | {r.get_id()})
            _KEEP.append(r)
        return r

    def arr2_subscript(self, base, h, idx, st, fr, node):
        if isinstance(idx, tuple) and len(idx) == 2 and not any(isinstance(x, (SliceV, Ref)) or x is None for x in idx):
            i = self.index_ok(st, h.n0, idx[0], fr, node)
            j = self.index_ok(st, h.n1, idx[1], fr, node)
            return z3.Select(h.data, to_z3(i, "int"), to_z3(j, "int"))
        if isinstance(idx, tuple) and len(idx) == 2 and isinstance(idx[0], SliceV) and not isinstance(idx[1], (SliceV, Ref)):
            s = idx[0]
            if s.start is None and s.stop is None and s.step is None:
                j = self.index_ok(st, h.n1, idx[1], fr, node)
                k = z3.Int("i!c")
                return st.alloc(HArr(h.kind, h.n0, z3.Lambda([k], z3.Select(h.data, k, to_z3(j, "int"))), fresh=True))
        if not isinstance(idx, (tuple, SliceV, Ref)) and idx is not None:
            i = self.index_ok(st, h.n0, idx, fr, node)
            k = z3.Int("i!r")
            return st.alloc(HArr(h.kind, h.n1, z3.Lambda([k], z3.Select(h.data, to_z3(i, "int"), k)), fresh=True))
        raise Unsupported("2-d subscript form", node)

    def gather(self, base, idx, st, fr, node):
        """fancy indexing a[idx]: fresh array, r[k] = a[idx[k]]"""
        n, a = self.arr_term(st, base)
        m, ix = self.arr_term(st, idx)
        h = st.get(base)
        if not fr.spec:
            k = fresh("k", I)
            self.oblige(st, z3.ForAll([k], z3.Implies(z3.And(k >= 0, k < m), z3.And(ix[k] >= 0, ix[k] < n))),
                        "safety", "fancy-index-in-bounds", node, fr)
        i = z3.Int("i!g")
        org = None
        if h.org is not None or h.base is not None:
            try:
                o = self.org_term(st, base)
                org = z3.Lambda([i], o[ix[i]])
            except SpecError:
                org = None
        return st.alloc(HArr(h.kind, m, z3.Lambda([i], a[ix[i]]), org=org, fresh=True, unit=h.unit))

    def mask_select(self, base, mask, st, fr, node):
        """boolean-mask indexing a[mask]: ascending positions of true cells"""
        w = self.where1(mask, st, fr, node)
        return self.gather(base, w, st, fr, node)

    def where1(self, mask, st, fr, node=None):
        """np.where(mask)[0]: strictly ascending list of exactly the true positions"""
        n, m = self.arr_term(st, mask)
        cnt = fresh("where!n", I)
        w = fresh("where!w", z3.ArraySort(I, I))
        k, j = fresh("k", I), fresh("j", I)
        self.assume(st, z3.And(cnt >= 0, cnt <= n))
        self.assume(st, z3.ForAll([k], z3.Implies(z3.And(k >= 0, k < cnt),
                                                  z3.And(w[k] >= 0, w[k] < n, m[w[k]]))))
        self.assume(st, z3.ForAll([k, j], z3.Implies(z3.And(k >= 0, k < j, j < cnt), w[k] < w[j])))
        # completeness: every true position occurs; inv gives its rank
        inv = fresh("where!inv", z3.ArraySort(I, I))
        self.assume(st, z3.ForAll([j], z3.Implies(z3.And(j >= 0, j < n, m[j]),
                                                  z3.And(inv[j] >= 0, inv[j] < cnt, w[inv[j]] == j))))
        self.assumptions_used.add("numpy.where(mask): ascending positions of exactly the true cells")
        return st.alloc(HArr("int", cnt, w, fresh=True))

    def list_to_arr(self, ref, st, kind=None):
        h = st.get(ref)
        if isinstance(h, HArr):
            return ref
        if isinstance(h, HList):
            items = h.items
            if kind is None:
                kinds = {kind_of(x) for x in items}
                kind = "real" if "real" in kinds else ("int" if "int" in kinds or not kinds else "bool")
            data = z3.K(I, to_z3(0, kind) if kind != "bool" else z3.BoolVal(False))
            for k, x in enumerate(items):
                data = z3.Store(data, k, self.coerce_elem(x, kind))
            return st.alloc(HArr(kind, len(items), data, fresh=True))
        raise Unsupported("cannot convert to array")

    # ------------------------------------------------------------ attributes of arrays
    def arr_attr(self, ref, h, attr, st, fr, node):
        if attr == "size":
            if isinstance(h, HArr2):
                return to_z3(h.n0, "int") * to_z3(h.n1, "int")
            return h.n
        if attr == "shape":
            if isinstance(h, HArr2):
                return (h.n0, h.n1)
            return (h.n,)
        if attr == "ndim":
            return 2 if isinstance(h, HArr2) else 1
        if attr == "T" and isinstance(h, HArr2):
            i, j = z3.Int("i!t"), z3.Int("j!t")
            return st.alloc(HArr2(h.kind, h.n1, h.n0, z3.Lambda([i, j], z3.Select(h.data, j, i)), fresh=True))
        if attr == "dtype":
            d = DTypeV(ref, h)
            if isinstance(h, HArr):
                # the concrete dtype is a symbolic identity: arrays of one model kind may still differ in numpy dtype
                root = self.root(st, ref)
                ids = st.ghost.get("dtids", {})
                d.did = ids.get(root.id)
                if d.did is None:
                    d.did = z3.Int("dtype!%d" % root.id)
            return d
        from .values import Bound
        return Bound(ref, Prim("ndarray." + attr))

    # ------------------------------------------------------------ elementwise arithmetic
    def np_binop(self, opn, a, b, st, fr, node=None):
        ha = st.get(a) if isinstance(a, Ref) else None
        hb = st.get(b) if isinstance(b, Ref) else None
        if isinstance(ha, HArr2) or isinstance(hb, HArr2):
            return self.np2_binop(opn, a, b, ha, hb, st, fr, node)
        if isinstance(ha, HList):
            a = self.list_to_arr(a, st)
            ha = st.get(a)
        if isinstance(hb, HList):
            b = self.list_to_arr(b, st)
            hb = st.get(b)
        i = z3.Int("i!e")
        if ha is not None and hb is not None:
            na, ta = self.arr_term(st, a)
            nb, tb = self.arr_term(st, b)
            na, nb = to_z3(na, "int"), to_z3(nb, "int")
            ca, cb = as_const(na), as_const(nb)
            if ca == 1 and cb != 1:
                x, y, n = ta[0], tb[i], nb
            elif cb == 1 and ca != 1:
                x, y, n = ta[i], tb[0], na
            else:
                if not fr.spec:
                    self.oblige(st, zor(na == nb, na == 1, nb == 1), "safety", "shapes-broadcast", node, fr)
                # after the obligation: general broadcast
                x = z3.If(na == 1, ta[0], ta[i]) if ca is None else ta[i]
                y = z3.If(nb == 1, tb[0], tb[i]) if cb is None else tb[i]
                n = z3.If(na == 1, nb, na) if ca is None else (nb if ca == 1 else na)
            ka, kb = ha.kind, hb.kind
        elif ha is not None:
            n, ta = self.arr_term(st, a)
            x, y = ta[i], b
            ka, kb = ha.kind, kind_of(b)
        else:
            n, tb = self.arr_term(st, b)
            x, y = a, tb[i]
            ka, kb = kind_of(a), hb.kind
        cmpops = {"Eq", "NotEq", "Lt", "LtE", "Gt", "GtE"}
        if opn in cmpops:
            r = self.compare(getattr(ast, opn)(), x, y, st, fr, node)
            kind = "bool"
            r = to_z3(r)
        elif opn in ("BitAnd", "BitOr") and ka == "bool" and kb == "bool":
            r = z3.And(x, to_z3(y)) if opn == "BitAnd" else z3.Or(x, to_z3(y))
            kind = "bool"
        else:
            fr2 = self.sub_frame(fr)
            fr2.spec = True  # element-wise numpy division does not raise
            if opn in ("Div", "FloorDiv", "Mod") and not fr.spec and not getattr(self, "total_fdiv", False):
                # numpy emits a warning and produces inf/nan; treated as a definedness obligation
                k = fresh("k", I)
                yk = z3.substitute(to_z3(y), (i, k)) if is_sym(y) else to_z3(y)
                self.oblige(st, z3.ForAll([k], z3.Implies(z3.And(k >= 0, k < to_z3(n, "int")), yk != 0)),
                            "safety", "elementwise-div-by-zero", node, fr)
            npc = len(st.pc)
            r = self.scalar_binop(opn, x, y, st, fr2, node)
            kind = kind_of(r)
            r = to_z3(r)
            # facts that the scalar operator stated about its (element) operands hold for every element
            for j in range(npc, len(st.pc)):
                f = st.pc[j]
                if isinstance(f, z3.ExprRef) and _mentions(f, i):
                    k = fresh("k", I)
                    st.pc[j] = z3.ForAll([k], z3.substitute(f, (i, k)))
        unit = None
        return st.alloc(HArr(kind, n, self.mat(st, n, z3.Lambda([i], r), kind), fresh=True, unit=unit))

    def np2_binop(self, opn, a, b, ha, hb, st, fr, node):
        i, j = z3.Int("i!e"), z3.Int("j!e")

        def elem(v, h):
            if isinstance(h, HArr2):
                return z3.Select(h.data, i, j), h.kind, (h.n0, h.n1)
            if isinstance(h, HArr):
                _, t = self.arr_term(st, v)
                return t[j], h.kind, (None, h.n)     # broadcast along rows
            return v, kind_of(v), (None, None)
        x, ka, sa = elem(a, ha)
        y, kb, sb = elem(b, hb)
        n0 = sa[0] if sa[0] is not None else sb[0]
        n1 = sa[1] if sa[1] is not None else sb[1]
        if not fr.spec:
            conds = []
            if sa[0] is not None and sb[0] is not None:
                conds.append(to_z3(sa[0], "int") == to_z3(sb[0], "int"))
            if sa[1] is not None and sb[1] is not None:
                conds.append(to_z3(sa[1], "int") == to_z3(sb[1], "int"))
            if conds:
                self.oblige(st, zand(*conds), "safety", "shapes-broadcast", node, fr)
        cmpops = {"Eq", "NotEq", "Lt", "LtE", "Gt", "GtE"}
        fr2 = self.sub_frame(fr)
        fr2.spec = True
        if opn in cmpops:
            r = to_z3(self.compare(getattr(ast, opn)(), x, y, st, fr2, node))
        else:
            r = to_z3(self.scalar_binop(opn, x, y, st, fr2, node))
        return st.alloc(HArr2(kind_of(r), n0, n1, z3.Lambda([i, j], r), fresh=True))

    def np_unary(self, name, a, st, fr, node=None):
        n, t = self.arr_term(st, a)
        h = st.get(a)
        i = z3.Int("i!e")
        if name == "invert":
            return st.alloc(HArr("bool", n, z3.Lambda([i], z3.Not(t[i])), fresh=True))
        r = self.ufun(name, [t[i]], st, fr, node, elementwise=(n, i))
        return st.alloc(HArr(kind_of(r), n, self.mat(st, n, z3.Lambda([i], to_z3(r)), kind_of(r)), fresh=True))

    # ------------------------------------------------------------ python list arithmetic with symbolic repeat counts
    def list_arith(self, opn, a, b, st, fr, node):
        def as_seq(v):
            """(length term, element function k->term, kind)"""
            if isinstance(v, Ref):
                h = st.get(v)
                if isinstance(h, HList):
                    items = h.items
                    kinds = {kind_of(x) for x in items}
                    if not kinds <= {"int", "real", "bool"}:
                        return None
                    kind = "real" if "real" in kinds else "int"

                    def f(k, items=items, kind=kind):
                        if not items:
                            return to_z3(0, kind)
                        r = to_z3(items[-1], kind)
                        for idx in range(len(items) - 2, -1, -1):
                            r = z3.If(k == idx, to_z3(items[idx], kind), r)
                        return r
                    return len(items), f, kind
                if isinstance(h, HArr):
                    n, t = self.arr_term(st, v)
                    return n, (lambda k, t=t: t[k]), h.kind
            return None
        if opn == "Add":
            sa, sb = as_seq(a), as_seq(b)
            if sa is None or sb is None:
                if isinstance(a, Ref) and isinstance(b, Ref) and isinstance(st.get(a), HList) and isinstance(st.get(b), HList):
                    return st.alloc(HList(st.get(a).items + st.get(b).items))
                raise Unsupported("list + non-list", node)
            if isinstance(sa[0], int) and isinstance(sb[0], int) and isinstance(st.get(a), HList) and isinstance(st.get(b), HList):
                return st.alloc(HList(st.get(a).items + st.get(b).items))
            kind = "real" if "real" in (sa[2], sb[2]) else sa[2]
            i = z3.Int("i!l")
            na = to_z3(sa[0], "int")
            data = z3.Lambda([i], z3.If(i < na, to_z3(sa[1](i), kind), to_z3(sb[1](i - na), kind)))
            return st.alloc(HArr(kind, z3.simplify(na + to_z3(sb[0], "int")), data, fresh=True, islist=True))
        if opn == "Mult":
            if isinstance(a, Ref):
                seq, cnt = as_seq(a), b
            else:
                seq, cnt = as_seq(b), a
            if seq is None or kind_of(cnt) != "int":
                raise Unsupported("list * non-int", node)
            if not is_sym(cnt) and isinstance(seq[0], int):
                src = a if isinstance(a, Ref) else b
                return st.alloc(HList(st.get(src).items * max(cnt, 0)))
            ln = as_const(to_z3(seq[0], "int"))
            if ln != 1:
                raise Unsupported("symbolic repetition of a list of length != 1", node)
            c = to_z3(cnt, "int")
            i = z3.Int("i!l")
            data = z3.Lambda([i], to_z3(seq[1](z3.IntVal(0)), seq[2]))
            return st.alloc(HArr(seq[2], z3.If(c < 0, 0, c), data, fresh=True, islist=True))
        raise Unsupported("list operator " + opn, node)

    def struct_subscript(self, base, h, idx, st, fr, node):
        if isinstance(idx, str):
            if idx not in h.fields:
                self.oblige(st, False, "safety", "field-present:%s" % idx, node, fr)
                return self.kill(st, "no such field")
            return h.fields[idx]
        raise Unsupported("structured array subscript", node)

    # ------------------------------------------------------------ uninterpreted real functions (libm)
    def ufun(self, name, args, st, fr, node=None, elementwise=None):
        """libm-like functions over the reals, constrained by the identities the arguments need"""
        args = [to_z3(a, "real") for a in args]
        f = ufunc("libm_" + name, *([R] * (len(args) + 1)))
        r = f(*args)
        x = args[0]

        def domain(cond, label):
            if fr.spec:
                return
            if elementwise is not None:
                n, i = elementwise
                k = fresh("k", I)
                c = z3.substitute(cond, (i, k))
                self.oblige(st, z3.ForAll([k], z3.Implies(z3.And(k >= 0, k < to_z3(n, "int")), c)), "safety", label, node, fr)
            else:
                self.oblige(st, cond, "safety", label, node, fr)

        def axiom(fact):
            if elementwise is not None:
                n, i = elementwise
                k = fresh("k", I)
                fk = z3.substitute(fact, (i, k))
                # instantiate for all indices (the term itself is the trigger)
                self.assume(st, z3.ForAll([k], fk))
            else:
                self.assume(st, fact)
        self.assumptions_used.add("libm %s: uninterpreted real function with the axioms listed in nplib.ufun" % name)
        if name == "sqrt":
            domain(x >= 0, "sqrt-domain")
            if "mul" in getattr(self, "abstract", ()):
                # products are uninterpreted in this function: keep the linear facts only (sign, zero)
                axiom(z3.Implies(x >= 0, z3.And(r >= 0, (r == 0) == (x == 0))))
            else:
                axiom(z3.Implies(x >= 0, z3.And(r >= 0, r * r == x)))
        elif name in ("sin", "cos"):
            s = ufunc("libm_sin", R, R)(x)
            c = ufunc("libm_cos", R, R)(x)
            if not getattr(self, "light_trig", False):
                axiom(s * s + c * c == 1)
            axiom(z3.And(r >= -1, r <= 1))
        elif name in ("arcsin", "asin"):
            domain(z3.And(x >= -1, x <= 1), "arcsin-domain")
            axiom(z3.And(r >= -HALFPI, r <= HALFPI))
        elif name in ("arccos", "acos"):
            domain(z3.And(x >= -1, x <= 1), "arccos-domain")
            axiom(z3.And(r >= 0, r <= PI))
        elif name in ("arctan2", "atan2"):
            axiom(z3.And(r >= -PI, r <= PI))
            if len(args) == 2:
                # right half plane (second argument >= 0): the angle is within a quarter turn
                axiom(z3.Implies(args[1] >= 0, z3.And(r >= -HALFPI, r <= HALFPI)))
                # upper half plane (first argument >= 0): the angle is non-negative
                axiom(z3.Implies(args[0] >= 0, r >= 0))
        elif name in ("arctan", "atan"):
            axiom(z3.And(r >= -HALFPI, r <= HALFPI, z3.Implies(x > 0, r > 0), z3.Implies(x < 0, r < 0)))
        elif name in ("log", "log10"):
            domain(x > 0, "log-domain")
        elif name in ("exp",):
            axiom(r > 0)
        elif name in ("sinh", "cosh", "tan", "pow", "floor_real"):
            pass
        elif name == "abs":
            return z3.If(x >= 0, x, -x)
        elif name == "deg2rad":
            return x * D2R
        elif name == "rad2deg":
            return x * R2D
        else:
            raise Unsupported("libm function " + name, node)
        return r


class DTypeV:
    """the dtype of an array value (field names only; numpy's dtype algebra is an assumed contract)"""

    def __init__(self, ref, h):
        self.ref, self.h = ref, h
        self.tag = "dtype:" + getattr(h, "kind", "struct")
        self.did = None

    @property
    def names(self):
        return tuple(self.h.fields.keys()) if isinstance(self.h, HStruct) else None


# pi as an uninterpreted positive real constant with loose rational bounds (enough for range reasoning)
# pi is the double math.pi / numpy.pi as an exact rational (the code's own constant); the libm range axioms (arcsin in
# [-pi/2, pi/2] ...) are stated against the same constant, i.e. about the rounded results the library returns
PI = z3.RealVal("884279719003555/281474976710656")
HALFPI = PI / 2
D2R = PI / 180
R2D = 180 / PI
PI_AXIOMS = []


def _ax_arccos_decreasing():
    """arccos is non-increasing on [-1, 1]"""
    f = ufunc("libm_arccos", R, R)
    x, y = z3.Reals("x!ax y!ax")
    return z3.ForAll([x, y], z3.Implies(z3.And(-1 <= x, x <= y, y <= 1), f(x) >= f(y)), patterns=[z3.MultiPattern(f(x), f(y))])


def _ax_arccos_cos():
    """arccos(cos t) == t for 0 <= t <= pi"""
    f = ufunc("libm_arccos", R, R)
    g = ufunc("libm_cos", R, R)
    t = z3.Real("t!ax")
    return z3.ForAll([t], z3.Implies(z3.And(0 <= t, t <= PI), f(g(t)) == t), patterns=[g(t)])


LIBM_AXIOMS = {"arccos-decreasing": _ax_arccos_decreasing, "arccos-cos": _ax_arccos_cos}
