"""esvc engine: obligations, symbolic instantiation of contract types, function verification driver."""
import ast
import time

import z3

from . import solve
from .repoindex import RepoIndex, label_loops
from .values import (HArr, HArr2, HList, HObj, HStruct, Ref, SliceV, State, Unsupported, SpecError, Func,
                     Opaque, UNDEF, to_z3, zand, kind_of, is_sym, SORTS)
from .engine_expr import ExprMixin
from .engine_stmt import StmtMixin
from .nplib import NumpyMixin
from .engine_call import CallMixin
from .prims import PrimMixin
from .bomodel import BOMixin


class Obligation:
    def __init__(self, name, kind, func, label, status, backend, ms, line, path, model=None, goal=None, pc=None):
        self.name, self.kind, self.func, self.label = name, kind, func, label
        self.status, self.backend, self.ms, self.line, self.path = status, backend, ms, line, path
        self.model, self.goal, self.pc = model, goal, pc

    inputs = None

    def to_json(self):
        return dict(inputs=self.inputs, name=self.name, kind=self.kind, function=self.func, clause=self.label, result=self.status,
                    backend=self.backend, ms=round(self.ms, 2), line=self.line, path="/".join(self.path))


class Frame:
    def __init__(self, func, contract, engine, spec=False):
        self.func = func
        self.contract = contract
        self.module = func.module if func else None
        self.spec = spec
        self.entry = None          # State snapshot at entry (for old())
        self.entry_env = None
        self.selfref = None
        self.depth = 0
        self.qvars = {}
        self.result = UNDEF
        self.inputs = {}           # param -> description for model extraction
        self.callee_pre = None
        self.inline_stack = []
        self.generator = False
        self.outer_module = None
        self.gen = None
        self.modifiable = None     # root heap id -> True | set(fields) : what the contract allows to be written


class Engine(ExprMixin, StmtMixin, CallMixin, PrimMixin, NumpyMixin, BOMixin):
    def __init__(self, contracts, spec_asts, repo_root=None, timeout=10.0, verbose=False):
        self.idx = RepoIndex(repo_root)
        self.contracts = contracts
        self.spec_asts = spec_asts
        self.timeout = timeout
        self.verbose = verbose
        self.obls = []
        self.cur_func = None
        self.cur_prop = None
        self.notes = []
        self.assumptions_used = set()
        self.paths = 0
        self.max_paths = 4000
        self.pending = []
        self.stmt_stack = [None]
        self.used_contracts = set()
        self.unknown_s = 0.0
        self.vacuity_warnings = []

    # ------------------------------------------------------------ obligations
    def oblige(self, st, goal, kind, label, node=None, fr=None):
        """prove goal under st.pc; record; then assume it (to avoid cascades)"""
        if fr is not None and fr.spec:
            return
        if st.dead:
            return
        if goal is True:
            self.obls.append(Obligation("%s/%s/%s" % (self.cur_func, kind, label), kind, self.cur_func, label, "proved",
                                        "trivial", 0.0, getattr(node, "lineno", None), list(st.path)))
            return
        if goal is False:
            goal = z3.BoolVal(False)
        goal = to_z3(goal)
        name = "%s/%s/%s" % (self.cur_func, kind, label)
        budget = self.timeout if self.unknown_s < 2 * self.timeout else 1.0
        res = solve.prove(st.pc, goal, timeout_s=budget)
        if res["status"] == "unknown":
            self.unknown_s += res["ms"] / 1000.0
        line = getattr(node, "lineno", None)
        ob = Obligation(name, kind, self.cur_func, label, res["status"], res["backend"], res["ms"], line,
                        list(st.path), model=res.get("model") or res.get("candidate"), goal=goal,
                        pc=list(st.pc) if res["status"] != "proved" else None)
        if res["status"] != "proved" and ob.model is not None and fr is not None and getattr(fr, "params", None):
            try:
                ob.inputs = self.concretize_inputs(ob.model, fr)
            except Exception as e:   # noqa
                ob.inputs = None
        self.obls.append(ob)
        if self.verbose and res["status"] != "proved":
            print("   [%s] %s line=%s path=%s" % (res["status"], name, line, "/".join(st.path)))
        st.pc.append(goal)
        if res["status"] != "proved" and z3.is_false(z3.simplify(goal)):
            st.dead = True

    def assume(self, st, fact):
        if fact is True:
            return
        if fact is False:
            st.pc.append(z3.BoolVal(False))
            st.dead = True
            return
        st.pc.append(to_z3(fact))

    def feasible(self, st, cond):
        return solve.feasible(st.pc, cond)

    def concretize_inputs(self, model, fr):
        """concrete (JSON) arguments of the function under verification from a (candidate) counter-model"""
        entry = fr.entry
        out = {}
        for p, v in fr.params.items():
            out[p] = self.concretize(model, v, entry)
        return out

    def concretize(self, model, v, st, depth=0):
        def num(t):
            r = model.eval(t, model_completion=True)
            if z3.is_int_value(r):
                return r.as_long()
            if z3.is_rational_value(r):
                return float(r.numerator_as_long()) / float(r.denominator_as_long())
            if z3.is_true(r):
                return True
            if z3.is_false(r):
                return False
            if z3.is_algebraic_value(r):
                a = r.approx(12)
                return float(a.numerator_as_long()) / float(a.denominator_as_long())
            return str(r)
        if isinstance(v, z3.ExprRef):
            return num(v)
        if isinstance(v, (int, float, str, bool)) or v is None:
            return v
        if isinstance(v, tuple):
            return {"__tuple__": [self.concretize(model, x, st, depth + 1) for x in v]}
        if isinstance(v, SliceV):
            return {"__slice__": [self.concretize(model, x, st, depth + 1) for x in (v.start, v.stop, v.step)]}
        if isinstance(v, Ref):
            h = st.get(v)
            if isinstance(h, HArr):
                n, t = self.arr_term(st, v)
                nn = num(to_z3(n, "int"))
                nn = max(0, min(int(nn), 12))
                vals = [num(t[k]) for k in range(nn)]
                if h.islist:
                    return vals
                return {"__ndarray__": vals, "dtype": {"int": "i8", "real": "f8", "bool": "?"}[h.kind]}
            if isinstance(h, HObj):
                return {"__obj__": h.cls, "fields": {k: self.concretize(model, x, st, depth + 1) for k, x in h.fields.items()},
                        "items": {str(k): self.concretize(model, x, st, depth + 1) for k, x in h.items.items()}}
            if isinstance(h, HList):
                return [self.concretize(model, x, st, depth + 1) for x in h.items]
        return repr(v)

    def note(self, msg):
        if msg not in self.notes:
            self.notes.append(msg)

    # ------------------------------------------------------------ instantiate contract types
    def fresh_scalar(self, kind, name):
        if kind == "int":
            return z3.Int(name)
        if kind == "real":
            return z3.Real(name)
        if kind == "bool":
            return z3.Bool(name)
        if kind == "str":
            return z3.String(name)
        raise SpecError("bad scalar kind " + kind)

    def fresh_arr(self, st, kind, name, fresh=False, n=None, islist=False):
        if n is None:
            n = z3.Int(name + "!len")
            self.assume(st, n >= 0)
        data = z3.Array(name + "!data", z3.IntSort(), SORTS[kind])
        i = z3.Int("i!")
        org = z3.Lambda([i], i)
        return st.alloc(HArr(kind, n, data, org=org, fresh=fresh, islist=islist))

    def instantiate(self, st, ty, name, fresh=False):
        """yields (state, value) pairs: a type may split into several cases (opt[...], slice, union)"""
        ty = ty.strip() if isinstance(ty, str) else ty
        if not isinstance(ty, str):
            # a python constant given directly
            yield st, ty
            return
        if ty in ("int", "real", "bool", "str"):
            yield st, self.fresh_scalar(ty, name)
        elif ty == "nat":
            v = z3.Int(name)
            self.assume(st, v >= 0)
            yield st, v
        elif ty == "pos":
            v = z3.Int(name)
            self.assume(st, v >= 1)
            yield st, v
        elif ty == "none":
            yield st, None
        elif ty.startswith("const:"):
            yield st, ast.literal_eval(ty[6:])
        elif ty.startswith("clist:"):
            # a python list with the given literal items
            yield st, st.alloc(HList(list(ast.literal_eval(ty[6:])), fresh=fresh))
        elif ty.startswith("lst[") and ty.endswith("]"):
            # a python list whose items are instantiated from the given types
            parts = _split_types(ty[4:-1])

            def recl(s, k, acc):
                if k == len(parts):
                    yield s, s.alloc(HList(acc, fresh=fresh))
                    return
                for s1, v in self.instantiate(s, parts[k], "%s[%d]" % (name, k), fresh):
                    yield from recl(s1, k + 1, acc + [v])
            yield from recl(st, 0, [])
        elif ty.startswith("opt[") and ty.endswith("]"):
            s1 = st.fork()
            s1.path.append(name + "=None")
            yield s1, None
            for s2, v in self.instantiate(st.fork(), ty[4:-1], name, fresh):
                s2.path.append(name + "!=None")
                yield s2, v
        elif ty == "bodtype":
            from .bomodel import BODType
            r = self.fresh_bo(st, "bo", name, fresh=fresh)
            yield st, BODType(r, None, st.get(r).order)
        elif ty == "bo" or ty.startswith("bo:"):
            yield st, self.fresh_bo(st, ty, name, fresh=fresh)
        elif ty == "sarr":
            # array of strings / bytes: elements are only compared, so they are modelled as ordered integers carrying the tag "str"
            r = self.fresh_arr(st, "int", name, fresh=fresh)
            st.get(r).unit = "str"
            yield st, r
        elif ty.startswith("arr[") and ty.endswith("]"):
            yield st, self.fresh_arr(st, ty[4:-1], name, fresh=fresh)
        elif ty.startswith("list[") and ty.endswith("]"):
            yield st, self.fresh_arr(st, ty[5:-1], name, fresh=fresh, islist=True)
        elif ty.startswith("arr2[") and ty.endswith("]"):
            kind = ty[5:-1]
            n0, n1 = z3.Int(name + "!n0"), z3.Int(name + "!n1")
            self.assume(st, n0 >= 0)
            self.assume(st, n1 >= 0)
            data = z3.Array(name + "!data2", z3.IntSort(), z3.IntSort(), SORTS[kind])
            yield st, st.alloc(HArr2(kind, n0, n1, data, fresh=fresh))
        elif ty == "slice":
            for s1, a in self.instantiate(st, "opt[int]", name + ".start"):
                for s2, b in self.instantiate(s1, "opt[int]", name + ".stop"):
                    for s3, c in self.instantiate(s2, "opt[int]", name + ".step"):
                        yield s3, SliceV(a, b, c)
        elif ty.startswith("tuple[") and ty.endswith("]"):
            parts = _split_types(ty[6:-1])

            def rec(s, k, acc):
                if k == len(parts):
                    yield s, tuple(acc)
                    return
                for s1, v in self.instantiate(s, parts[k], "%s.%d" % (name, k), fresh):
                    yield from rec(s1, k + 1, acc + [v])
            yield from rec(st, 0, [])
        elif ty.startswith("sdtype[") and ty.endswith("]"):
            # the dtype of a structured array (string type codes): only the field list is used
            from .nplib import DTypeV
            for s1, r in self.instantiate(st, "sstruct[" + ty[7:], name, fresh):
                yield s1, DTypeV(r, s1.get(r))
        elif (ty.startswith("struct[") or ty.startswith("sstruct[")) and ty.endswith("]"):
            # struct[a:int,b:real] : structured array with parallel field arrays of one length
            n = z3.Int(name + "!len")
            self.assume(st, n >= 0)
            fields, ftype, fshape = {}, {}, {}
            from .values import FieldType
            strcodes = ty.startswith("sstruct[")
            for part in _split_types(ty[ty.index("[") + 1:-1]):
                fname, fkind = part.split(":")
                fname, fkind = fname.strip(), fkind.strip()
                fields[fname] = self.fresh_arr(st, fkind, name + "." + fname, fresh=fresh, n=n)
                # sstruct: the numpy type string itself ('<i4', '|S3', ...), so that code can strip its byte-order character
                code = z3.String("%s.%s!typestr" % (name, fname)) if strcodes else z3.Int("%s.%s!type" % (name, fname))
                if strcodes:
                    self.assume(st, z3.Length(code) >= 2)
                ftype[fname] = FieldType(code, fkind)
                fshape[fname] = z3.Int("%s.%s!subshape" % (name, fname))
            yield st, st.alloc(HStruct(n, fields, fresh=fresh, ftype=ftype, fshape=fshape))
        elif ty.startswith("obj:"):
            # obj:Class{field:type,...}
            body = ty[4:]
            cls, _, rest = body.partition("{")
            fields = {}
            specs = _split_types(rest.rstrip("}")) if rest else []

            def rec(s, k, acc):
                if k == len(specs):
                    flds = {a: b for a, b in acc.items() if not a.startswith("[")}
                    items = {ast.literal_eval(a[1:-1]): b for a, b in acc.items() if a.startswith("[")}
                    yield s, s.alloc(HObj(cls, flds, fresh=fresh, items=items))
                    return
                sp = specs[k]
                if sp.startswith("["):
                    # dict item of a dict-like object:  ['key']:type
                    close = sp.index("]")
                    fname, fty = sp[:close + 1], sp[close + 2:]
                else:
                    fname, _, fty = sp.partition(":")
                for s1, v in self.instantiate(s, fty, name + "." + fname.strip(), fresh):
                    a2 = dict(acc)
                    a2[fname.strip()] = v
                    yield from rec(s1, k + 1, a2)
            yield from rec(st, 0, {})
        elif ty.startswith("opaque"):
            yield st, Opaque(ty[7:] or name)
        elif ty.startswith("union[") and ty.endswith("]"):
            for alt in _split_types(ty[6:-1]):
                yield from self.instantiate(st.fork(), alt, name, fresh)
        elif ty == "func":
            yield st, Opaque("func:" + name)
        elif ty in ("iterable", "iterable_len", "iterable_nolen"):
            from .prims import AbsIterable
            n = z3.Int(name + "!count")
            self.assume(st, n >= 0)
            if ty in ("iterable", "iterable_len"):
                s1 = st.fork() if ty == "iterable" else st
                s1.path.append(name + ":has-len")
                yield s1, AbsIterable(name, n, True)
            if ty in ("iterable", "iterable_nolen"):
                st.path.append(name + ":no-len")
                yield st, AbsIterable(name, n, False)
        else:
            raise SpecError("unknown type %r for %s" % (ty, name))


def resolve_mod(m, env, st):
    """'self._robj.robj.size_line' / "self._hdr['_SIZE']" / 'data'  ->  (owner Ref | value, key, is_item)
    walks attribute / constant-item steps from a formal to the object that owns the last step; key '' means the whole value"""
    tree = ast.parse(m.strip(), mode="eval").body
    steps = []
    while isinstance(tree, (ast.Attribute, ast.Subscript)):
        if isinstance(tree, ast.Attribute):
            steps.append(("attr", tree.attr))
            tree = tree.value
        else:
            steps.append(("item", ast.literal_eval(tree.slice)))
            tree = tree.value
    if not isinstance(tree, ast.Name):
        raise SpecError("bad modifies entry " + m)
    steps.reverse()
    cur = env.get(tree.id)
    if not steps:
        return cur, "", False
    for kind, key in steps[:-1]:
        if not (isinstance(cur, Ref) and isinstance(st.get(cur), HObj)):
            return cur, "", False
        h = st.get(cur)
        cur = h.fields.get(key) if kind == "attr" else h.items.get(key)
    kind, key = steps[-1]
    return cur, key, kind == "item"


def split_mod(m):
    """'self.dmin' -> ('self','dmin');  "self['wsort']" -> ('self','wsort');  'data' -> ('data', '')"""
    m = m.strip()
    if "[" in m and m.endswith("]"):
        base, _, key = m.partition("[")
        return base, ast.literal_eval(key[:-1])
    base, _, fld = m.partition(".")
    return base, fld


def _split_types(s):
    out, depth, cur = [], 0, ""
    for ch in s:
        if ch in "[{(":
            depth += 1
        if ch in "]})":
            depth -= 1
        if ch == "," and depth == 0:
            out.append(cur.strip())
            cur = ""
        else:
            cur += ch
    if cur.strip():
        out.append(cur.strip())
    return out


# ---------------------------------------------------------------------------------------------------------------
# function verification driver
# ---------------------------------------------------------------------------------------------------------------
from .nplib import PI_AXIOMS  # noqa: E402
from .engine_expr import Poison  # noqa: E402
from .engine_call import is_generator  # noqa: E402
from .values import ExcValue, znot, truth, as_const  # noqa: E402


def _verify_function(self, cname):
    """generate and discharge every obligation of one function against its contract"""
    c = self.contracts[cname]
    t0 = time.time()
    nstart = len(self.obls)
    self.cur_func = cname
    self.abstract = tuple(c.abstract)
    self.total_fdiv = bool(c.total_float_division)
    self.light_trig = bool(c.light_trig)
    self.materialize = bool(c.materialize)
    if self.total_fdiv:
        self.assumptions_used.add("in %s floating-point division is total (IEEE: x/0 is inf or nan, no trap): no division-safety "
                                  "obligations; a quotient by zero is an unspecified real" % cname)
    if c.abstract:
        self.assumptions_used.add("in %s the operations %s are uninterpreted functions (sound abstraction: the proof uses no property of them)"
                                  % (cname, ", ".join(c.abstract)))
    info = dict(function=cname, paths=0, exits=0, raises=0, status="ok", error=None, cover=None)
    try:
        if c.lang == "c":
            from . import cfront
            mod, qual, node, cls = cfront.load_c_function(self.idx, c)
        else:
            mod, qual, node, cls = self.idx.find(cname.split("#")[0])
        label_loops(node)
        node._labelled = True
        # a decorator replaces the function that callers get: the verified body is then not what a call executes
        for dec in getattr(node, "decorator_list", []):
            dname = ast.unparse(dec)
            if dname.split("(")[0].split(".")[-1] not in ("staticmethod", "classmethod", "property", "wraps"):
                raise Unsupported("decorator @%s is not modelled: the body under contract is not what a call of %s executes"
                                  % (dname, cname.split("#")[0]), node)
        info["line"] = node.lineno
        info["source"] = getattr(self.idx.module(mod), "_path", mod)
        f = Func(mod, qual, node, cls)
        variants = c.variants or [{}]
        for vi, var in enumerate(variants):
            self._verify_variant(f, c, var, vi, info)
    except (Unsupported, SpecError, KeyError, RecursionError) as e:
        info["status"] = "unsupported" if isinstance(e, Unsupported) else "spec-error"
        info["error"] = "%s: %s" % (type(e).__name__, e)
    info["obligations"] = len(self.obls) - nstart
    if self.vacuity_warnings:
        info.setdefault("vacuous_exits", []).extend(sorted(set(self.vacuity_warnings)))
    info["wall_s"] = round(time.time() - t0, 3)
    return info


def _verify_variant(self, f, c, var, vi, info):
    node = f.node
    a = node.args
    pnames = [p.arg for p in a.posonlyargs + a.args] + [p.arg for p in a.kwonlyargs]
    ptypes = dict(c.params)
    ptypes.update(var)
    st0 = State()
    for ax in PI_AXIOMS:
        st0.pc.append(ax)
    from .nplib import LIBM_AXIOMS
    for nm in c.libm_axioms:
        st0.pc.append(LIBM_AXIOMS[nm]())
        self.assumptions_used.add("libm axiom %s (assumed): %s" % (nm, LIBM_AXIOMS[nm].__doc__))
    if len(c.variants or []) > 1:
        st0.path.append("variant%d" % vi)
    # default values of parameters not typed by the contract
    ndef = len(a.defaults)
    defaults = {}
    pos = [p.arg for p in a.posonlyargs + a.args]
    for p, d in zip(pos[len(pos) - ndef:], a.defaults):
        defaults[p] = d
    for p, d in zip(a.kwonlyargs, a.kw_defaults):
        if d is not None:
            defaults[p.arg] = d

    def inst(k, st, env):
        if k == len(pnames):
            yield st, env
            return
        p = pnames[k]
        if p in c.defaults:
            e2 = dict(env)
            e2[p] = c.defaults[p]
            yield from inst(k + 1, st, e2)
        elif p in ptypes:
            for s1, v in self.instantiate(st, ptypes[p], p):
                e2 = dict(env)
                e2[p] = v
                yield from inst(k + 1, s1, e2)
        elif p in defaults:
            fr0 = Frame(f, c, self)
            fr0.module = f.module
            e2 = dict(env)
            e2[p] = self.eval_default(defaults[p], st, fr0)
            yield from inst(k + 1, st, e2)
        else:
            raise SpecError("parameter %s of %s has neither a type nor a default" % (p, c.name))

    if a.vararg is not None and a.vararg.arg in ptypes:
        pnames.append(a.vararg.arg)
    for st, env in inst(0, st0, {}):
        if a.kwarg is not None:
            kwv = ptypes.get(a.kwarg.arg, c.defaults.get(a.kwarg.arg))
            items = {}
            if isinstance(kwv, str) and kwv.startswith("const:"):
                items = ast.literal_eval(kwv[6:])
            elif isinstance(kwv, dict):
                items = kwv
            env[a.kwarg.arg] = st.alloc(HObj("dict", {}, items=dict(items), fresh=True))
        if a.vararg is not None and a.vararg.arg not in env:
            env[a.vararg.arg] = ()
        # ghost inputs
        for g, ty in c.ghost.items():
            res = list(self.instantiate(st, ty, g))
            if len(res) != 1:
                raise SpecError("ghost input type must not split: " + g)
            env[g] = res[0][1]
        st.env = dict(env)
        fr = Frame(f, c, self)
        fr.module = f.module
        fr.generator = is_generator(node)
        entry = st.fork()
        fr.entry = entry
        fr.params = dict(env)
        # everything reachable from parameters is non-fresh; what may be modified is listed by the contract
        fr.modifiable = {}
        for m in c.modifies:
            tgt, fld, _is_item = resolve_mod(m, env, st)
            if isinstance(tgt, Ref):
                h = st.get(tgt)
                root = self.root(st, tgt) if isinstance(h, HArr) else tgt
                if fld:
                    cur = fr.modifiable.get(root.id)
                    if cur is not True:
                        fr.modifiable[root.id] = (cur or set()) | {fld}
                    # an array held in a listed attribute / item may also be mutated in place
                    if isinstance(h, HObj):
                        held = h.items.get(fld, h.fields.get(fld))
                        if isinstance(held, Ref) and isinstance(st.get(held), HArr):
                            fr.modifiable[self.root(st, held).id] = True
                        if isinstance(held, Ref) and isinstance(st.get(held), HObj) and st.get(held).cls == "dict":
                            fr.modifiable[held.id] = True       # a dict held in a listed attribute may be updated in place
                else:
                    fr.modifiable[root.id] = True
                    if isinstance(h, HStruct):
                        for r in h.fields.values():
                            fr.modifiable[r.id] = True
        if c.gen:
            srcv = env[c.gen["source"]] if "source" in c.gen else None
            fr.gen = dict(c.gen)
            if srcv is None:
                srcv = self.spec_eval_val(c.gen["source_expr"], st, fr)
            fr.gen["source_value"] = srcv
            fr.gen["seq"] = self.seq_of(srcv, st, node)
            st.ghost["out_n"] = 0
            st.ghost["consumed"] = 0
        # assume preconditions
        for name, clause in c.requires:
            self.assume(st, self.spec_eval(clause, st, fr, c.name + ":" + name))
            self.assume(entry, st.pc[-1]) if st.pc else None
            if st.dead:
                break
        if st.dead:
            continue    # this case split contradicts a precondition outright
        entry.pc = list(st.pc)
        # vacuity guard: the hypotheses must be satisfiable (quantifier-free part) 
        if not self.feasible(st, True if not st.pc else z3.BoolVal(True)):
            continue   # this case split is excluded by the precondition
        info["cover"] = (info["cover"] or 0) + 1
        self.run_body(f, c, st, fr, info)


def _run_body(self, f, c, st, fr, info):
    node = f.node
    self.pending = []
    outcomes = self.exec_block(node.body, st, fr)
    for kind, s, v in outcomes:
        info["paths"] += 1
        if s.dead:
            continue
        if kind in ("next", "return"):
            info["exits"] += 1
            if isinstance(v, Poison):
                continue
            fr2 = self.sub_frame(fr)
            fr2.result = v if kind == "return" else None
            s.path.append("exit")
            # vacuity guard: the hypotheses collected on this path must not be contradictory
            vac = solve.prove(s.pc, z3.BoolVal(False), timeout_s=min(2.0, self.timeout), use_cvc5=False, key_extra="vac")
            if vac["status"] == "proved":
                info.setdefault("vacuous_exits", []).append("/".join(s.path))
            else:
                info["live_exits"] = info.get("live_exits", 0) + 1
            # exceptions that the contract says must be raised
            for exc, cond, mode in c.raises:
                if mode in ("iff", "if"):
                    g = self.spec_eval(cond, fr.entry, fr, c.name + ":raises")
                    self.oblige(s, znot(truth(g)) if not isinstance(g, bool) else (not g), "post",
                                "must-raise-%s" % exc, node, fr)
            if getattr(fr, "gen", None):
                if fr.generator:
                    self.oblige(s, to_z3(s.ghost["out_n"], "int") == to_z3(fr.gen["seq"][0], "int"), "gen",
                                "yields-all-items", node, fr)
                else:
                    self.oblige(s, self.iter_equal(fr2.result, fr.gen["source_value"], s), "gen",
                                "returns-iterator-over-the-source-items", node, fr)
            if "post" in c.checks and kind == "next" and c.ret_post and "end" in c.ret_post:
                # postconditions stated at the implicit end of the body may mention the function's locals
                for name, clause in c.ret_post["end"].items():
                    g = self.spec_eval(clause, s, fr2, c.name + ":" + name)
                    self.oblige_no_assume(s, g, "post", name, node, fr)
            if "post" in c.checks:
                # postconditions speak about the parameters (entry bindings; heap objects in their final state)
                s.env = dict(fr.params)
                for name, clause in c.ensures:
                    g = self.spec_eval(clause, s, fr2, c.name + ":" + name)
                    self.oblige_no_assume(s, g, "post", name, node, fr)
        elif kind == "raise":
            info["raises"] += 1
            s.path.append("raise " + v.cls)
            allowed = [(e, cond, mode) for e, cond, mode in c.raises if e == v.cls]
            if v.cls in c.exc_ok:
                continue
            if not allowed:
                self.oblige(s, False, "post", "unexpected-exception:%s" % v.cls, node, fr)
                continue
            conds = []
            for e, cond, mode in allowed:
                g = self.spec_eval(cond, fr.entry, fr, c.name + ":raises")
                conds.append(truth(g) if not isinstance(g, bool) else g)
            from .values import zor
            self.oblige(s, zor(*conds), "post", "raises-%s-only-when" % v.cls, node, fr)
            # exceptional postconditions: what must (still) hold when the exception escapes
            if v.cls in c.raise_ensures and not s.dead:
                fr3 = self.sub_frame(fr)
                s.env = dict(fr.params)
                for nm, clause in c.raise_ensures[v.cls].items():
                    g = self.spec_eval(clause, s, fr3, c.name + ":" + nm)
                    self.oblige_no_assume(s, g, "post", "on-%s:%s" % (v.cls, nm), node, fr)
        else:
            raise Unsupported("break/continue outside loop")


Engine.verify_function = _verify_function
Engine._verify_variant = _verify_variant
Engine.run_body = _run_body
