"""Contract registry and the run-time meaning of the spec vocabulary.

This module imports neither z3 nor numpy at import time so that the same spec
files can be loaded by the prover (python3-vt) and by the run-time evaluator
(/venv/bin/python, where the repository's extensions live).
"""
import ast
import glob
import os

CONTRACTS = {}
LEMMAS = {}
SPEC_FUNCS = {}      # name -> python callable (run time)
SPEC_ASTS = {}       # name -> ast.FunctionDef (prover)
_SPEC_SRC = {}
DOMAINS = {}         # contract name -> callable(tier, seed) -> iterable of dict(args=..., kwargs=...)
_current_file = [None]


class Contract:
    def __init__(self, name, **kw):
        self.name = name
        self.file = _current_file[0]
        self.params = kw.pop("params", {})            # name -> type string
        self.returns = kw.pop("returns", None)        # type string or None
        self.requires = _named(kw.pop("requires", []), "pre")
        self.ensures = _named(kw.pop("ensures", []), "post")
        self.raises = kw.pop("raises", [])            # list of (ExcName, cond, mode)
        self.modifies = kw.pop("modifies", [])
        self.loops = kw.pop("loops", {})
        self.props = kw.pop("props", [])
        self.self_fields = kw.pop("self_fields", None)
        self.self_items = kw.pop("self_items", None)
        self.globals = kw.pop("globals", {})          # module-level names -> type/constant
        self.assumed = kw.pop("assumed", False)       # contract on a function the prover cannot reach
        self.why_assumed = kw.pop("why_assumed", "")
        self.lang = kw.pop("lang", "py")              # py | c
        self.source = kw.pop("source", None)          # for C: file path relative to repo
        self.defaults = kw.pop("defaults", {})        # param -> python constant when the contract fixes an option
        self.asserts = kw.pop("asserts", {})          # program point -> clauses (ghost assertions / lemmas)
        self.unroll = kw.pop("unroll", 64)
        self.runtime = kw.pop("runtime", True)        # clauses are run-time evaluable
        self.locals = kw.pop("locals", {})
        self.timeout = kw.pop("timeout", None)
        self.elem = kw.pop("elem", None)
        self.ghost = kw.pop("ghost", {})              # ghost inputs: name -> type
        self.notes = kw.pop("notes", "")
        self.inline_calls = kw.pop("inline_calls", [])
        self.variants = kw.pop("variants", None)      # list of dict(param -> type) overrides, verified separately
        self.ret_post = kw.pop("ret_post", None)
        self.exc_ok = kw.pop("exc_ok", [])
        self.checks = kw.pop("checks", ["safety", "post", "frame"])
        self.decreases = kw.pop("decreases", None)
        self.runtime_name = kw.pop("runtime_name", None)
        self.gen = kw.pop("gen", None)
        self.post_types = kw.pop("post_types", {})   # "self.field" / "self['item']" -> type of the value after the call
        self.abstract = kw.pop("abstract", [])      # operations treated as uninterpreted functions: "div", "trunc", "mul"
        self.rt_ensures = _named(kw.pop("rt_ensures", []), "rt")   # clauses evaluated only by the bounded run-time layer
        self.concretize = kw.pop("concretize", None)
        self.total_float_division = kw.pop("total_float_division", False)
        self.light_trig = kw.pop("light_trig", False)
        self.materialize = kw.pop("materialize", False)
        self.libm_axioms = kw.pop("libm_axioms", [])
        self.raise_ensures = kw.pop("raise_ensures", {})
        self.callee_contracts = kw.pop("callee_contracts", {})   # callee qualname -> name of the contract to use at its call sites   # exception class -> {name: clause} that must hold when it escapes       # extra (listed) facts about libm functions, e.g. "arccos-decreasing"    # every computed array becomes a named array + defining axiom (no nested lambdas)      # sin/cos constrained by their range only (no sin^2+cos^2=1)   # C doubles: x/0 is inf/nan, not a trap
        if kw:
            raise TypeError("unknown contract keys %s in %s" % (sorted(kw), name))


def _named(clauses, prefix):
    if isinstance(clauses, dict):
        return list(clauses.items())
    out = []
    for i, c in enumerate(clauses):
        if isinstance(c, tuple):
            out.append(c)
        else:
            out.append(("%s%d" % (prefix, i), c))
    return out


def contract(name, **kw):
    c = Contract(name, **kw)
    if name in CONTRACTS:
        raise ValueError("duplicate contract " + name)
    CONTRACTS[name] = c
    return c


def domain(name):
    def deco(f):
        DOMAINS[name] = f
        return f
    return deco


def spec(f):
    SPEC_FUNCS[f.__name__] = f
    return f


OPAQUE = set()


def opaque(f):
    """spec function presented to the solver as an uninterpreted function plus its defining equation at every use
    (lets congruence decide F(a) == F(b) from a == b without expanding nonlinear bodies)"""
    OPAQUE.add(f.__name__)
    return f


# ------------------------------------------------------------------ run-time vocabulary
def implies(a, b):
    return (not a) or b


def permutation(new, old, lo=None, hi=None):
    """new[lo..hi] is a rearrangement of old[lo..hi] and cells outside are unchanged (inclusive bounds)"""
    n = len(new)
    if len(old) != n:
        return False
    if lo is None:
        lo, hi = 0, n - 1
    for i in range(n):
        if (i < lo or i > hi) and not _same(new[i], old[i]):
            return False
    a = sorted(list(new[lo:hi + 1]), key=repr)
    b = sorted(list(old[lo:hi + 1]), key=repr)
    return len(a) == len(b) and all(_same(x, y) for x, y in zip(a, b))


def _same(x, y):
    try:
        return bool(x == y)
    except Exception:
        return False


def is_sorted(a, lo=None, hi=None):
    if lo is None:
        lo, hi = 0, len(a) - 1
    return all(a[i] <= a[i + 1] for i in range(lo, hi))


def pairs_kept(keys, data, oldkeys, olddata, lo, hi):
    """the (key, value) pairs of [lo..hi] are a rearrangement of the old pairs; cells outside unchanged"""
    n = len(keys)
    for i in range(n):
        if (i < lo or i > hi) and not (_same(keys[i], oldkeys[i]) and _same(data[i], olddata[i])):
            return False
    a = sorted([(repr(keys[i]), repr(data[i])) for i in range(max(lo, 0), hi + 1)])
    b = sorted([(repr(oldkeys[i]), repr(olddata[i])) for i in range(max(lo, 0), hi + 1)])
    return a == b


def is_permutation(a, hint=None):
    return sorted(int(x) for x in a) == list(range(len(a)))


def org(a):          # ghost, prover only
    raise NotImplementedError("org() is a ghost function (prover only)")


# ---- byte-order vocabulary on real numpy arrays (run-time meaning of esvc/bomodel.py's spec words)
def _bo_field(a, f=None):
    return a if f is None else a[f]


def bo_fields(a):
    return [None] if a.dtype.names is None else list(a.dtype.names)


def bo_names(a):
    return a.dtype.names


def bo_order(a, f=None):
    return {"<": 0, ">": 1, "=": 2, "|": 3}[_bo_field(a, f).dtype.base.byteorder]


def bo_bytes(a, f=None):
    return _bo_field(a, f).tobytes()


def bo_swapped(a, f=None):
    return _bo_field(a, f).byteswap().tobytes()


def bo_value(a, f=None):
    import numpy as np
    x = _bo_field(a, f)
    if x.dtype.base.kind in "SUVO":
        return x.tolist()
    return [repr(v) for v in np.ravel(x.astype(x.dtype.base.newbyteorder("=") if x.dtype.subdtype is None else
                                               np.dtype((x.dtype.base.newbyteorder("="), x.dtype.shape)))).tolist()]


def machine_little():
    import sys
    return sys.byteorder == "little"


def bo_big(a, f=None):
    o = bo_order(a, f)
    return o == 1 or (o == 2 and not machine_little())


def bo_little(a, f=None):
    o = bo_order(a, f)
    return o == 0 or (o == 2 and machine_little())


def bo_native(a, f=None):
    return bo_little(a, f) if machine_little() else bo_big(a, f)


def same_object(a, b):
    return a is b


def field(a, name):
    return a[name]


def field_names(a):
    return a.dtype.names


def field_type(a, name):
    return a.dtype[name].base.str


def field_subshape(a, name):
    return a.dtype[name].shape


def arr_eq(a, b):
    import numpy as np
    a, b = np.asarray(a), np.asarray(b)
    return a.shape == b.shape and bool(np.array_equal(a, b))


def approx(a, b, scale=1.0):
    """equality over the reals for the prover; at run time equality up to floating-point rounding (1e-9 relative)"""
    a, b = float(a), float(b)
    if a != a or b != b:
        return (a != a) and (b != b)
    if a in (float("inf"), float("-inf")) or b in (float("inf"), float("-inf")):
        return a == b
    return abs(a - b) <= 1e-9 * max(abs(a), abs(b), abs(float(scale)))


def shape0(a):
    return a.shape[0]


def shape1(a):
    return a.shape[1]


def sqrt(x):
    import math
    return math.sqrt(x)


def shares_buffer(a, b):
    import numpy as np
    return bool(np.shares_memory(a, b))


RUNTIME_VOCAB = dict(bo_fields=bo_fields, bo_names=bo_names, bo_order=bo_order, bo_bytes=bo_bytes, bo_swapped=bo_swapped,
                     bo_value=bo_value, machine_little=machine_little, bo_big=bo_big, bo_little=bo_little, bo_native=bo_native,
                     same_object=same_object, shares_buffer=shares_buffer, approx=approx, field=field, field_names=field_names,
                     field_type=field_type, field_subshape=field_subshape, arr_eq=arr_eq, shape0=shape0, shape1=shape1, sqrt=sqrt,
                     is_permutation=is_permutation, implies=implies, permutation=permutation, is_sorted=is_sorted, pairs_kept=pairs_kept)


def load_specs(specdir=None):
    """execute every spec file (registers contracts) and keep the ASTs of helper functions"""
    if CONTRACTS:
        return
    specdir = specdir or os.path.join(os.path.dirname(os.path.dirname(os.path.abspath(__file__))), "specs")
    for path in sorted(glob.glob(os.path.join(specdir, "*.py"))):
        src = open(path).read()
        tree = ast.parse(src, path)
        for node in tree.body:
            if isinstance(node, ast.FunctionDef):
                SPEC_ASTS[node.name] = node
        _current_file[0] = os.path.basename(path)
        ns = {"__name__": "esvc_spec_" + os.path.basename(path)[:-3], "__file__": path}
        exec(compile(tree, path, "exec"), ns)
        for node in tree.body:
            if isinstance(node, ast.FunctionDef) and node.name in ns:
                if node.name in SPEC_FUNCS and not node.name.startswith("_") and \
                        ast.dump(node) != ast.dump(_SPEC_SRC[node.name]):
                    raise ValueError("spec function %s is defined differently in two spec files (%s)" % (node.name, path))
                _SPEC_SRC.setdefault(node.name, node)
                SPEC_FUNCS.setdefault(node.name, ns[node.name])
    _current_file[0] = None
