"""Builtins, spec vocabulary and numpy primitives (assumed contracts; each use is recorded)."""
import ast

import z3

from .values import (HViewList, HArr, HArr2, HList, HObj, HStruct, Ref, SliceV, State, Unsupported, SpecError, Func, Prim,
                     Module, ClassV, ExcClass, ExcValue, Bound, Opaque, SpecLambda, UNDEF, to_z3, truth, zand, zor,
                     znot, zimplies, kind_of, is_sym, as_const, SORTS)
from .engine_expr import GenExp, RangeV, EnumV, ZipV, SpecArr, POISON, Poison
from .nplib import fresh, I, R, B, ufunc, lift_lambda

INT_DTYPES = {"i8", "i4", "i2", "i1", "u8", "u4", "u2", "u1", "int", "int64", "int32", "intp", "<i8", ">i8", "uint64"}
REAL_DTYPES = {"f8", "f4", "float", "float64", "float32", "<f8", ">f8", "double"}


class PrimMixin:
    def call_prim(self, name, args, kwargs, st, fr, node):
        short = name.split(".", 1)[1] if "." in name else name
        head = name.split(".")[0]
        m = getattr(self, "p_" + name.replace(".", "_"), None)
        if m is None and head in ("numpy", "np"):
            m = getattr(self, "np_" + short.replace(".", "_"), None)
        if m is None and head == "ndarray":
            m = getattr(self, "nd_" + short, None)
        if m is None:
            raise Unsupported("primitive %s has no catalogue entry" % name, node)
        r = m(args, kwargs, st, fr, node)
        if hasattr(r, "__next__"):
            yield from r
        else:
            yield st, r

    def use(self, text):
        self.assumptions_used.add(text)

    # ============================================================ python builtins
    def p_builtin_len(self, args, kw, st, fr, node):
        v = args[0]
        if isinstance(v, (tuple, str)):
            return len(v)
        if isinstance(v, SpecArr):
            return v.n
        if kind_of(v) == "str" and isinstance(v, z3.ExprRef):
            return z3.Length(v)
        if isinstance(v, Ref):
            h = st.get(v)
            if isinstance(h, HArr):
                return h.n
            if isinstance(h, HArr2):
                return h.n0
            if isinstance(h, HList):
                return len(h.items)
            if isinstance(h, HStruct):
                return h.n
            if isinstance(h, HObj):
                if h.cls == "dict":
                    return len(h.items)
                m = self.find_method(h.cls, "__len__", fr)
                if m is not None:
                    res = list(self.call(m, [v], {}, st, fr, node))
                    if len(res) == 1:
                        return res[0][1]
        if isinstance(v, Ref) and isinstance(st.get(v), HViewList):
            return st.get(v).n
        if isinstance(v, RangeV):
            lo, hi, step = to_z3(v.lo, "int"), to_z3(v.hi, "int"), v.step
            sc = as_const(step) if is_sym(step) else step
            if sc == 1:
                return z3.simplify(z3.If(hi - lo < 0, 0, hi - lo))
            raise Unsupported("len(range) with step", node)
        if isinstance(v, Opaque) and not v.tag.startswith("func"):
            n = fresh("strlen", I)
            self.assume(st, n >= 0)
            return n
        if isinstance(v, IterView):
            if not fr.spec:
                self.raise_from_expr(st.fork(), ExcValue("TypeError"), fr)
                return self.kill(st)
            raise SpecError("len of an iterator")
        if isinstance(v, AbsIterable):
            if v.n is None:
                if not fr.spec:
                    # TypeError: object has no len()
                    self.raise_from_expr(st.fork(), ExcValue("TypeError"), fr)
                    return self.kill(st)
                raise SpecError("len of an iterable without length")
            return v.n
        if kind_of(v) in ("int", "real", "bool", "none"):
            if not fr.spec:
                self.raise_from_expr(st.fork(), ExcValue("TypeError"), fr)
                return self.kill(st)
        raise Unsupported("len() of %s" % kind_of(v), node)

    def p_builtin_range(self, args, kw, st, fr, node):
        if len(args) == 1:
            return RangeV(0, args[0], 1)
        if len(args) == 2:
            return RangeV(args[0], args[1], 1)
        return RangeV(args[0], args[1], args[2])

    def p_builtin_int(self, args, kw, st, fr, node):
        v = args[0]
        k = kind_of(v)
        if k in ("int", "bool"):
            return v if not isinstance(v, bool) else int(v)
        if k == "real":
            if not is_sym(v):
                return int(v)
            return self.trunc(v)
        if isinstance(v, Ref) and isinstance(st.get(v), HArr):
            h = st.get(v)
            self.oblige(st, to_z3(h.n, "int") == 1, "safety", "int()-of-size-1", node, fr)
            return self.p_builtin_int([self.arr_get(st, v, 0)], kw, st, fr, node)
        if k == "none":
            if not fr.spec:
                self.oblige(st, False, "safety", "operand-not-None", node, fr)
            return self.kill(st)
        raise Unsupported("int() of %s" % k, node)

    def p_builtin_float(self, args, kw, st, fr, node):
        v = args[0]
        k = kind_of(v)
        if k in ("int", "real", "bool"):
            return to_z3(v, "real") if is_sym(v) else (float(v) if not isinstance(v, bool) else float(v))
        if isinstance(v, Ref) and isinstance(st.get(v), HArr):
            h = st.get(v)
            self.oblige(st, to_z3(h.n, "int") == 1, "safety", "float()-of-size-1", node, fr)
            return to_z3(self.arr_get(st, v, 0), "real")
        if k == "none":
            if not fr.spec:
                self.oblige(st, False, "safety", "operand-not-None", node, fr)
            return self.kill(st)
        raise Unsupported("float() of %s" % k, node)

    def p_builtin_bool(self, args, kw, st, fr, node):
        return self.truth_of(args[0], st, node)

    def p_builtin_abs(self, args, kw, st, fr, node):
        v = args[0]
        if self.is_arr(v, st):
            return self.np_unary("abs", v, st, fr, node)
        if not is_sym(v):
            return abs(v)
        return z3.If(v >= 0, v, -v)

    def _minmax(self, args, ismin, st, fr, node):
        if len(args) == 1:
            v = args[0]
            if isinstance(v, Ref) and isinstance(st.get(v), HList):
                args = st.get(v).items
            elif isinstance(v, tuple):
                args = list(v)
            elif self.is_arr(v, st):
                return self.nd_min([v], {}, st, fr, node) if ismin else self.nd_max([v], {}, st, fr, node)
            else:
                raise Unsupported("min/max of %s" % kind_of(v), node)
        r = args[0]
        for x in args[1:]:
            if not is_sym(r) and not is_sym(x):
                r = min(r, x) if ismin else max(r, x)
            else:
                want = "real" if "real" in (kind_of(r), kind_of(x)) else "int"
                a, b = to_z3(r, want), to_z3(x, want)
                r = z3.If(b < a, b, a) if ismin else z3.If(b > a, b, a)
        return r

    def p_builtin_min(self, args, kw, st, fr, node):
        return self._minmax(args, True, st, fr, node)

    def p_builtin_max(self, args, kw, st, fr, node):
        return self._minmax(args, False, st, fr, node)

    def p_builtin_divmod(self, args, kw, st, fr, node):
        a, b = args
        q = self.scalar_binop("FloorDiv", a, b, st, fr, node)
        r = self.scalar_binop("Mod", a, b, st, fr, node)
        return (q, r)

    def p_builtin_isinstance(self, args, kw, st, fr, node):
        v, cls = args
        classes = cls if isinstance(cls, tuple) else (cls,)
        names = set()
        for c in classes:
            if isinstance(c, Prim):
                names.add(c.name.split(".")[-1])
            elif isinstance(c, ClassV):
                names.add(c.name)
            elif isinstance(c, ExcClass):
                names.add(c.name)
            else:
                raise Unsupported("isinstance class %r" % (c,), node)
        k = kind_of(v)
        if isinstance(v, z3.ExprRef) and v.get_id() in st.ghost.get("strterms", ()):
            # element read out of a string / bytes array (ordered elements tagged "str")
            return bool(names & {"str", "bytes", "basestring", "str_", "bytes_"})
        if isinstance(v, bool) or k == "bool":
            return bool(names & {"bool", "int"})
        if k == "int":
            return bool(names & {"int", "integer", "int64", "Integral", "Number"})
        if k == "real":
            return bool(names & {"float", "float64", "floating", "Number"})
        if k == "str":
            return bool(names & {"str", "basestring"})
        if k == "none":
            return False
        if isinstance(v, tuple):
            return "tuple" in names
        if isinstance(v, SliceV):
            return "slice" in names
        if isinstance(v, Ref):
            h = st.get(v)
            if isinstance(h, HList) or (isinstance(h, HArr) and h.islist):
                return "list" in names
            if isinstance(h, (HArr, HArr2, HStruct)):
                return "ndarray" in names
            if isinstance(h, HObj):
                if h.cls == "dict":
                    return "dict" in names
                return h.cls in names
        if isinstance(v, Opaque):
            if v.tag == "bytes":
                return "bytes" in names
            raise Unsupported("isinstance of opaque value", node)
        if isinstance(v, ExcValue):
            return v.cls in names or "Exception" in names
        return False

    def p_builtin_isstring(self, args, kw, st, fr, node):
        return kind_of(args[0]) == "str"

    def p_builtin_enumerate(self, args, kw, st, fr, node):
        start = kw.get("start", args[1] if len(args) > 1 else 0)
        return EnumV(args[0], start)

    def p_builtin_zip(self, args, kw, st, fr, node):
        return ZipV(list(args))

    def p_builtin_list(self, args, kw, st, fr, node):
        if not args:
            return st.alloc(HList([]))
        v = args[0]
        if isinstance(v, (AbsIterable, IterView)):
            src = v
            while isinstance(src, IterView):
                src = src.src
            if isinstance(src, AbsIterable):
                return st.alloc(HArr("int", src.total, src.items, fresh=True, islist=True))
        if isinstance(v, Ref) and isinstance(st.get(v), HArr):
            n, t = self.arr_term(st, v)
            return st.alloc(HArr(st.get(v).kind, n, t, fresh=True, islist=True))
        return st.alloc(HList(self.concrete_iter(v, st, node)))

    def p_builtin_tuple(self, args, kw, st, fr, node):
        if not args:
            return ()
        return tuple(self.concrete_iter(args[0], st, node))

    def p_builtin_slice(self, args, kw, st, fr, node):
        if len(args) == 1:
            return SliceV(None, args[0], None)
        if len(args) == 2:
            return SliceV(args[0], args[1], None)
        return SliceV(*args)

    # ---- the file system as seen by the Python glue: existence of a path is an uninterpreted predicate of the path string
    def _path_exists(self, s):
        f = ufunc("fs!exists", z3.StringSort(), B)
        return f(to_z3(s))

    def p_os_path_exists(self, args, kw, st, fr, node):
        self.use("file system: os.path.exists(p) is an uninterpreted predicate of the path (stable during the call)")
        return self._path_exists(args[0])

    def p_builtin_path_exists(self, args, kw, st, fr, node):
        return self._path_exists(args[0])

    def p_os_path_expanduser(self, args, kw, st, fr, node):
        self.use("paths: os.path.expanduser / expandvars are uninterpreted functions of the path string (environment stable during the call)")
        return ufunc("fs!expanduser", z3.StringSort(), z3.StringSort())(to_z3(args[0]))

    def p_os_path_expandvars(self, args, kw, st, fr, node):
        self.use("paths: os.path.expanduser / expandvars are uninterpreted functions of the path string (environment stable during the call)")
        return ufunc("fs!expandvars", z3.StringSort(), z3.StringSort())(to_z3(args[0]))

    def p_builtin_path_expanded(self, args, kw, st, fr, node):
        """spec word: the path a name stands for once '~' and '$VAR' are expanded (expandvars(expanduser(name)))"""
        eu = ufunc("fs!expanduser", z3.StringSort(), z3.StringSort())
        ev = ufunc("fs!expandvars", z3.StringSort(), z3.StringSort())
        return ev(eu(to_z3(args[0])))

    def p_pprint_pformat(self, args, kw, st, fr, node):
        return Opaque("formatted-string")      # the text of a rendered object: opaque (the bytes are decided bounded)

    def p_builtin_super(self, args, kw, st, fr, node):
        """super(Class, self): the base class as an opaque value named after the base expression in the class statement
        (`class Matcher(htmc.Matcher)` -> htmc.Matcher), so that a method call resolves to the contract of that name"""
        from .values import ClassV
        if len(args) == 2 and isinstance(args[0], ClassV) and args[0].node.bases:
            return Opaque(ast.unparse(args[0].node.bases[0]))
        raise Unsupported("super() in this form", node)

    def p_builtin_str(self, args, kw, st, fr, node):
        if args and isinstance(args[0], (int, str)) and not isinstance(args[0], bool):
            return str(args[0])          # a literal: Python's own rendering
        return Opaque("str()")

    def p_builtin_repr(self, args, kw, st, fr, node):
        return Opaque("repr()")

    def p_builtin_print(self, args, kw, st, fr, node):
        return None

    def p_builtin_all(self, args, kw, st, fr, node):
        if isinstance(args[0], GenExp):
            return self.quantify(args[0], st, fr, True)
        return zand(*[truth(x) for x in self.concrete_iter(args[0], st, node)])

    def p_builtin_any(self, args, kw, st, fr, node):
        if isinstance(args[0], GenExp):
            return self.quantify(args[0], st, fr, False)
        return zor(*[truth(x) for x in self.concrete_iter(args[0], st, node)])

    def p_builtin_sum(self, args, kw, st, fr, node):
        v = args[0]
        if isinstance(v, GenExp):
            vals = []
            for (fr2,) in self.comp_iter(v.node.generators, st, fr):
                vals.append(self.ev1(v.node.elt, st, fr2))
        else:
            vals = self.concrete_iter(v, st, node)
        r = args[1] if len(args) > 1 else 0
        for x in vals:
            r = self.scalar_binop("Add", r, x, st, fr, node)
        return r

    def p_builtin_hasattr(self, args, kw, st, fr, node):
        v, a = args
        if isinstance(v, Ref):
            h = st.get(v)
            if isinstance(h, HObj):
                return a in h.fields or self.find_method(h.cls, a, fr) is not None
            if isinstance(h, (HArr, HArr2, HStruct)):
                return a in ("size", "shape", "dtype", "ndim", "astype", "copy", "view", "sum", "__len__")
            if isinstance(h, HList):
                return a in ("append", "pop", "__len__", "__iter__", "__getitem__")
        if isinstance(v, AbsIterable):
            return a == "__len__" and v.n is not None or a == "__iter__"
        if kind_of(v) in ("int", "real", "bool", "none"):
            return False
        raise Unsupported("hasattr on %s" % kind_of(v), node)

    # ---- list / dict methods
    def p_list_append(self, args, kw, st, fr, node):
        ref, v = args
        h = st.get(ref)
        if isinstance(h, HViewList):
            hv = st.get(v) if isinstance(v, Ref) else None
            if not (isinstance(hv, HArr) and hv.base is not None and hv.base[0] == h.base and as_const(to_z3(hv.base[2], "int")) == 1):
                raise Unsupported("append of something that is not a contiguous view of the list's base array", node)
            n = to_z3(h.n, "int")
            st.put(ref, HViewList(z3.simplify(n + 1), h.base, z3.Store(h.off, n, to_z3(hv.base[1], "int")),
                                  z3.Store(h.ln, n, to_z3(hv.n, "int")), h.fresh))
            return None
        if isinstance(h, HArr):
            # symbolic list: append one element
            self.frame_check(ref, st, fr, node)
            n, t = self.arr_term(st, ref)
            st.put(ref, h.replace(n=z3.simplify(to_z3(n, "int") + 1),
                                  data=z3.Store(t, to_z3(n, "int"), self.coerce_elem(v, h.kind)), base=None))
            return None
        self.frame_check(ref, st, fr, node)
        st.put(ref, h.replace(h.items + [v]))
        return None

    def p_list_pop(self, args, kw, st, fr, node):
        ref = args[0]
        h = st.get(ref)
        idx = args[1] if len(args) > 1 else -1
        if not isinstance(h, HList) or not isinstance(idx, int):
            raise Unsupported("pop on symbolic list", node)
        if not h.items:
            self.oblige(st, False, "safety", "pop-from-empty", node, fr)
            return self.kill(st)
        items = list(h.items)
        v = items.pop(idx)
        st.put(ref, h.replace(items))
        return v

    def p_list_count(self, args, kw, st, fr, node):
        ref, v = args
        h = st.get(ref)
        if isinstance(h, HList) and all(not is_sym(x) for x in h.items) and not is_sym(v):
            return h.items.count(v)
        raise Unsupported("list.count symbolic", node)

    def p_list_index(self, args, kw, st, fr, node):
        ref, v = args
        h = st.get(ref)
        if isinstance(h, HList) and all(not is_sym(x) for x in h.items) and not is_sym(v):
            if v in h.items:
                return h.items.index(v)
            self.raise_from_expr(st.fork(), ExcValue("ValueError"), fr)
            return self.kill(st)
        raise Unsupported("list.index symbolic", node)

    def p_dict_get(self, args, kw, st, fr, node):
        ref, key = args[0], args[1]
        default = args[2] if len(args) > 2 else None
        h = st.get(ref)
        if not isinstance(key, (str, int)):
            raise Unsupported("dict.get with symbolic key", node)
        return h.items.get(key, default)

    def p_dict_clear(self, args, kw, st, fr, node):
        ref = args[0]
        h = st.get(ref)
        self.frame_check(ref, st, fr, node, what="item *", field="*")
        h2 = h.replace()
        h2.items = {}
        st.put(ref, h2)
        return None

    def p_dict_keys(self, args, kw, st, fr, node):
        return tuple(st.get(args[0]).items.keys())

    def p_dict_items(self, args, kw, st, fr, node):
        return tuple(st.get(args[0]).items.items())

    def p_str_lower(self, args, kw, st, fr, node):
        return args[0].lower()

    def p_str_upper(self, args, kw, st, fr, node):
        return args[0].upper()

    def p_str_strip(self, args, kw, st, fr, node):
        return args[0].strip(*args[1:])

    def p_str_lstrip(self, args, kw, st, fr, node):
        if not isinstance(args[0], str):
            raise Unsupported("lstrip of a symbolic string", node)
        return args[0].lstrip(*args[1:])

    def p_str_rstrip(self, args, kw, st, fr, node):
        if not isinstance(args[0], str):
            raise Unsupported("rstrip of a symbolic string", node)
        return args[0].rstrip(*args[1:])

    def p_str_replace(self, args, kw, st, fr, node):
        if not all(isinstance(a, str) for a in args[:3]):
            raise Unsupported("replace on a symbolic string", node)
        return args[0].replace(*args[1:])

    def p_str_format(self, args, kw, st, fr, node):
        return Opaque("formatted-string")

    def p_str_join(self, args, kw, st, fr, node):
        return Opaque("joined-string")

    def p_str_startswith(self, args, kw, st, fr, node):
        return args[0].startswith(args[1])

    def p_scalar_astype(self, args, kw, st, fr, node):
        v, dt = args[0], args[1]
        kind = self.dtype_kind(dt, node)
        if kind == "int" and kind_of(v) == "real":
            return self.trunc(v)
        if kind == "real":
            return to_z3(v, "real") if is_sym(v) else v
        return v

    # ============================================================ spec vocabulary
    def p_builtin_old(self, args, kw, st, fr, node):
        raise SpecError("old() must be applied syntactically")

    def ev_old(self, node, st, fr):
        entry = fr.entry
        if entry is None:
            raise SpecError("old() used without an entry state")
        return self.ev1(node.args[0], entry, fr)

    def p_builtin_implies(self, args, kw, st, fr, node):
        return zimplies(truth(args[0]), truth(args[1]))

    def p_builtin_ite(self, args, kw, st, fr, node):
        c = truth(args[0])
        if isinstance(c, bool):
            return args[1] if c else args[2]
        return self.ite(c, args[1], args[2], node)

    def p_builtin_real(self, args, kw, st, fr, node):
        return to_z3(args[0], "real")

    def p_builtin_org(self, args, kw, st, fr, node):
        v = args[0]
        if isinstance(v, SpecArr):
            return v.org
        return self.org_term(st, v)

    def p_builtin_prov(self, args, kw, st, fr, node):
        raise SpecError("prov() must be applied to a variable name")

    def p_builtin_upd(self, args, kw, st, fr, node):
        """upd(a, i, v [, origin]) : spec-level array update"""
        a, i, v = args[:3]
        if isinstance(a, SpecArr):
            n, t, o, kind = a.n, a.data, a.org, a.kind
        else:
            h = st.get(a)
            n, t = self.arr_term(st, a)
            kind = h.kind
            try:
                o = self.org_term(st, a)
            except SpecError:
                o = None
        no = None
        if o is not None:
            no = z3.Store(o, to_z3(i, "int"), to_z3(args[3], "int") if len(args) > 3 else z3.IntVal(-1))
        return SpecArr(kind, n, z3.Store(t, to_z3(i, "int"), self.coerce_elem(v, kind)), no)

    def spec_arr(self, v, st):
        if isinstance(v, SpecArr):
            return v
        h = st.get(v)
        n, t = self.arr_term(st, v)
        try:
            o = self.org_term(st, v)
        except SpecError:
            o = None
        return SpecArr(h.kind, n, t, o)

    def p_builtin_permutation(self, args, kw, st, fr, node):
        """permutation(new, old, lo, hi): the origin ghost of `new` is an injective map of [lo,hi] into itself,
        new[i] == old[org[i]], and cells outside are unchanged (bijectivity by pigeonhole)"""
        new = self.spec_arr(args[0], st)
        old = args[1] if isinstance(args[1], SpecArr) else self.spec_arr(args[1], st)
        if len(args) > 2:
            lo, hi = to_z3(args[2], "int"), to_z3(args[3], "int")
        else:
            lo, hi = z3.IntVal(0), to_z3(new.n, "int") - 1
        if new.org is None:
            raise SpecError("permutation(): array carries no origin ghost")
        i, j = fresh("pi", I), fresh("pj", I)
        o = new.org
        c1 = z3.ForAll([i], z3.Implies(z3.And(lo <= i, i <= hi),
                                       z3.And(lo <= o[i], o[i] <= hi, new.data[i] == old.data[o[i]])))
        c2 = z3.ForAll([i, j], z3.Implies(z3.And(lo <= i, i < j, j <= hi), o[i] != o[j]))
        c3 = z3.ForAll([i], z3.Implies(z3.And(i >= 0, i < to_z3(new.n, "int"), z3.Or(i < lo, i > hi)),
                                       z3.And(new.data[i] == old.data[i], o[i] == i)))
        return z3.And(c1, c2, c3, to_z3(new.n, "int") == to_z3(old.n, "int"))

    def spec_arr_in(self, v, fr, st):
        # v is a Ref evaluated by old(): content must be read in the entry state
        s = fr.entry if (fr.entry is not None and getattr(v, "_old", False)) else st
        return self.spec_arr(v, s)

    def p_builtin_pairs_kept(self, args, kw, st, fr, node):
        """pairs_kept(keys, data, oldkeys, olddata, lo, hi): data moved with the same origin map as keys"""
        keys, data = self.spec_arr(args[0], st), self.spec_arr(args[1], st)
        olddata = args[3] if isinstance(args[3], SpecArr) else self.spec_arr(args[3], st)
        lo, hi = to_z3(args[4], "int"), to_z3(args[5], "int")
        if keys.org is None or data.org is None:
            raise SpecError("pairs_kept(): arrays carry no origin ghost")
        i = fresh("ki", I)
        c1 = z3.ForAll([i], z3.Implies(z3.And(lo <= i, i <= hi),
                                       z3.And(data.org[i] == keys.org[i], data.data[i] == olddata.data[data.org[i]])))
        c2 = z3.ForAll([i], z3.Implies(z3.And(i >= 0, i < to_z3(data.n, "int"), z3.Or(i < lo, i > hi)),
                                       z3.And(data.data[i] == olddata.data[i], data.org[i] == i)))
        return z3.And(c1, c2, to_z3(data.n, "int") == to_z3(olddata.n, "int"))

    def p_builtin_is_sorted(self, args, kw, st, fr, node):
        a = self.spec_arr(args[0], st)
        if len(args) > 1:
            lo, hi = to_z3(args[1], "int"), to_z3(args[2], "int")
        else:
            lo, hi = z3.IntVal(0), to_z3(a.n, "int") - 1
        i, j = fresh("si", I), fresh("sj", I)
        return z3.ForAll([i, j], z3.Implies(z3.And(lo <= i, i <= j, j <= hi), a.data[i] <= a.data[j]))

    def p_builtin_fresh(self, args, kw, st, fr, node):
        v = args[0]
        if isinstance(v, Ref):
            root = self.root(st, v) if isinstance(st.get(v), HArr) else v
            return bool(getattr(st.get(root), "fresh", False))
        return True

    def p_builtin_same_object(self, args, kw, st, fr, node):
        a, b = args
        if isinstance(a, Opaque) and isinstance(b, Opaque):
            return a is b
        return isinstance(a, Ref) and isinstance(b, Ref) and a == b

    def p_builtin_shape0(self, args, kw, st, fr, node):
        h = st.get(args[0]) if isinstance(args[0], Ref) else args[0]
        return h.n0 if hasattr(h, "n0") else h.n

    def p_builtin_shape1(self, args, kw, st, fr, node):
        h = st.get(args[0]) if isinstance(args[0], Ref) else args[0]
        return h.n1

    def nd_searchsorted(self, args, kw, st, fr, node):
        return self.np_searchsorted(args, kw, st, fr, node)

    def p_builtin_PyArray_ZEROS(self, args, kw, st, fr, node):
        """numpy C API: PyArray_ZEROS(nd, dims, typenum, fortran) for nd == 1"""
        nd, n, typenum = args[0], args[1], args[2]
        if nd != 1:
            raise Unsupported("PyArray_ZEROS with nd != 1", node)
        kind = {12: "real", 11: "real", 7: "int", 9: "int", 5: "int", 0: "bool"}.get(typenum)
        if kind is None:
            raise Unsupported("PyArray_ZEROS typenum %r" % (typenum,), node)
        if not fr.spec:
            self.oblige(st, to_z3(n, "int") >= 0, "safety", "array-size-non-negative", node, fr)
        self.use("numpy C API PyArray_ZEROS: a fresh zero-filled 1-d array of the requested length and type")
        return self._alloc_const(n, kind, 0, st, fr, node)

    def _gl(self, which, args):
        """gl_nodes / gl_weights(x1, x2, n): the arrays returned by the Gauss-Legendre routine, named as uninterpreted
        array-valued functions of its arguments (the routine is a deterministic function of them)"""
        x1, x2, n = to_z3(args[0], "real"), to_z3(args[1], "real"), to_z3(args[2], "int")
        f = ufunc("GL_" + which, R, R, I, z3.ArraySort(I, R))
        return SpecArr("real", n, f(x1, x2, n))

    def p_builtin_gl_nodes(self, args, kw, st, fr, node):
        return self._gl("nodes", args)

    def p_builtin_gl_weights(self, args, kw, st, fr, node):
        return self._gl("weights", args)

    def p_builtin_field_names(self, args, kw, st, fr, node):
        h = st.get(args[0])
        if not isinstance(h, HStruct):
            return None
        return tuple(h.fields.keys())

    def p_builtin_field_type(self, args, kw, st, fr, node):
        h = args[0].h if hasattr(args[0], "h") else st.get(args[0])
        ft = h.ftype.get(args[1])
        if ft is None:
            raise SpecError("field %r has no recorded type" % (args[1],))
        return ft.code

    def p_builtin_field_subshape(self, args, kw, st, fr, node):
        h = args[0].h if hasattr(args[0], "h") else st.get(args[0])
        v = h.fshape.get(args[1])
        if v is None:
            raise SpecError("field %r has no recorded sub-array shape" % (args[1],))
        return v

    def p_builtin_is_int(self, args, kw, st, fr, node):
        v = args[0]
        if kind_of(v) == "int":
            return True
        return z3.IsInt(to_z3(v, "real"))

    def p_builtin_approx(self, args, kw, st, fr, node):
        """equality over the reals (the run-time evaluator allows floating-point rounding)"""
        return to_z3(args[0], "real") == to_z3(args[1], "real")

    def p_builtin_psum(self, args, kw, st, fr, node):
        """psum(w, s, k) = sum of w[s[t]] for t < k : uninterpreted, unfolded one step at every use"""
        w, s, k = args
        _, wt = self.arr_term(st, w)
        _, stt = self.arr_term(st, s)
        kind = st.get(w).kind
        f = ufunc("PSUM_" + kind, z3.ArraySort(I, SORTS[kind]), z3.ArraySort(I, I), I, SORTS[kind])
        k = to_z3(k, "int")
        zero = to_z3(0, kind)
        for fact in (f(wt, stt, z3.IntVal(0)) == zero,
                     z3.Implies(k > 0, f(wt, stt, k) == f(wt, stt, k - 1) + wt[stt[k - 1]])):
            fact = z3.simplify(fact)
            if not any(fact.eq(g) for g in st.pc):
                st.pc.append(fact)
        return f(wt, stt, k)

    def p_builtin_copy_deepcopy(self, args, kw, st, fr, node):
        v = args[0]
        if isinstance(v, tuple) or kind_of(v) in ("int", "real", "bool", "str", "none") or isinstance(v, Opaque):
            return v          # immutable values: a deep copy is indistinguishable
        if isinstance(v, Ref) and isinstance(st.get(v), HList):
            return st.alloc(HList([self.p_builtin_copy_deepcopy([x], {}, st, fr, node) for x in st.get(v).items]))
        if isinstance(v, Ref) and isinstance(st.get(v), HObj):
            o = st.get(v)
            return st.alloc(HObj(o.cls, {k: self.p_builtin_copy_deepcopy([x], {}, st, fr, node) for k, x in o.fields.items()},
                                 fresh=True,
                                 items={k: self.p_builtin_copy_deepcopy([x], {}, st, fr, node) for k, x in o.items.items()}))
        raise Unsupported("deepcopy of %s" % kind_of(v), node)

    p_copy_deepcopy = p_builtin_copy_deepcopy

    def p_builtin_copy_copy(self, args, kw, st, fr, node):
        v = args[0]
        if isinstance(v, tuple) or kind_of(v) in ("int", "real", "bool", "str", "none") or isinstance(v, Opaque):
            return v          # immutable values: a copy is indistinguishable
        if isinstance(v, Ref) and isinstance(st.get(v), HList):
            return st.alloc(HList(list(st.get(v).items)))
        raise Unsupported("copy.copy of %s" % kind_of(v), node)

    p_copy_copy = p_builtin_copy_copy

    def p_builtin_shares_buffer(self, args, kw, st, fr, node):
        a, b = args
        if not (isinstance(a, Ref) and isinstance(b, Ref)):
            return False
        ha, hb = st.get(a), st.get(b)
        if type(ha).__name__ == "HBO" or type(hb).__name__ == "HBO":
            return getattr(ha, "buf", a.id) == getattr(hb, "buf", b.id)
        return self.root(st, a) == self.root(st, b)

    def p_builtin_chunk_off(self, args, kw, st, fr, node):
        h = st.get(args[0])
        return h.off[to_z3(args[1], "int")]

    def p_builtin_defined_len(self, args, kw, st, fr, node):
        v = args[0]
        if isinstance(v, IterView):
            return False
        if isinstance(v, AbsIterable):
            return v.n is not None
        return True

    def p_builtin_nyielded(self, args, kw, st, fr, node):
        return st.ghost["out_n"]

    def p_builtin_consumed(self, args, kw, st, fr, node):
        return st.ghost.get("consumed", 0)

    def p_builtin_nitems(self, args, kw, st, fr, node):
        v = args[0]
        while isinstance(v, IterView):
            v = v.src
        if isinstance(v, AbsIterable):
            return v.total
        return self.p_builtin_len([v], {}, st, fr, node)

    def p_builtin_item(self, args, kw, st, fr, node):
        v, k = args
        while isinstance(v, IterView):
            v = v.src
        if isinstance(v, AbsIterable):
            return v.items[to_z3(k, "int")]
        n, f = self.seq_of(v, st, node)
        return f(st, k)

    def p_builtin_yields_items_of(self, args, kw, st, fr, node):
        """yields_items_of(result, source): the returned iterator produces exactly the items of source, lazily"""
        a, b = args
        return self.iter_equal(a, b, st)

    def iter_equal(self, a, b, st):
        while isinstance(a, IterView):
            a = a.src
        while isinstance(b, IterView):
            b = b.src
        if isinstance(a, AbsIterable) and isinstance(b, AbsIterable):
            return z3.And(a.items == b.items, to_z3(a.total, "int") == to_z3(b.total, "int"))
        if isinstance(a, RangeV) and isinstance(b, RangeV):
            return z3.And(to_z3(a.lo, "int") == to_z3(b.lo, "int"), to_z3(a.hi, "int") == to_z3(b.hi, "int"),
                          to_z3(a.step, "int") == to_z3(b.step, "int"))
        return False

    def p_time_time(self, args, kw, st, fr, node):
        self.use("time.time() returns an arbitrary float")
        return fresh("time", R)

    def p_concurrent_futures_ProcessPoolExecutor(self, args, kw, st, fr, node):
        return Opaque("executor")

    def p_executor_map(self, args, kw, st, fr, node):
        """Executor.map(fn, iterable): results in submission order for any schedule (stdlib contract, assumed)"""
        fn, it = args[0], args[1]
        src = it
        while isinstance(src, IterView):
            src = src.src
        if not isinstance(src, AbsIterable):
            raise Unsupported("executor.map over %s" % kind_of(it), node)
        if not (isinstance(fn, Opaque) and fn.tag.startswith("func:")):
            raise Unsupported("executor.map with a non-parameter function", node)
        f = ufunc("param_" + fn.tag[5:], I, I)
        k = z3.Int("i!m")
        r = AbsIterable("map%d" % next(_mc), src.total, False)
        r.items = z3.Lambda([k], f(src.items[k]))
        self.use("concurrent.futures.Executor.map returns results in submission order for every schedule (stdlib contract)")
        return r

    def p_builtin_mapped(self, args, kw, st, fr, node):
        """mapped('fn', x): the uninterpreted image of item x under the function parameter fn"""
        f = ufunc("param_" + args[0], I, I)
        return f(to_z3(args[1], "int"))

    def p_builtin_field(self, args, kw, st, fr, node):
        h = st.get(args[0])
        return h.fields[args[1]]

    def p_builtin_is_none(self, args, kw, st, fr, node):
        return args[0] is None

    def p_builtin_isarray(self, args, kw, st, fr, node):
        return self.is_arr(args[0], st)

    def p_builtin_arr_eq(self, args, kw, st, fr, node):
        """arr_eq(a, b): same length and element-wise equal"""
        a, b = self.spec_arr(args[0], st), (args[1] if isinstance(args[1], SpecArr) else self.spec_arr(args[1], st))
        i = fresh("ei", I)
        return z3.And(to_z3(a.n, "int") == to_z3(b.n, "int"),
                      z3.ForAll([i], z3.Implies(z3.And(i >= 0, i < to_z3(a.n, "int")), a.data[i] == b.data[i])))

    def p_builtin_sqrt(self, args, kw, st, fr, node):
        if self.is_arr(args[0], st):
            return self.np_sqrt(args, kw, st, fr, node)
        return self.ufun("sqrt", [args[0]], st, fr, node)

    def p_builtin_ufn(self, args, kw, st, fr, node):
        """ufn(name, x...) : the uninterpreted libm function used by the engine for `name`"""
        name = args[0]
        terms = []
        for a in args[1:]:
            if isinstance(a, Ref) and isinstance(st.get(a), HArr2):
                terms.append(st.get(a).data)          # an array argument stands for its contents
            elif isinstance(a, Ref) and isinstance(st.get(a), HArr):
                terms.append(self.arr_term(st, a)[1])
            else:
                terms.append(to_z3(a, "real"))
        f = ufunc("libm_" + name, *([t.sort() for t in terms] + [R]))
        return f(*terms)

    def p_builtin_apply(self, args, kw, st, fr, node):
        """apply(fname, x...) : the uninterpreted function standing for a parameter of function type"""
        if any(self.is_arr(a, st) for a in args[1:]):
            return self.call_uninterpreted(args[0], list(args[1:]), st, fr, node)
        f = ufunc("param_" + args[0], *([R] * len(args)))
        return f(*[to_z3(a, "real") for a in args[1:]])

    def p_builtin_trunc(self, args, kw, st, fr, node):
        return self.trunc(args[0])

    def p_builtin_c_trunc(self, args, kw, st, fr, node):
        return self.trunc(args[0])

    def p_builtin_c_div(self, args, kw, st, fr, node):
        from .values import c_div
        if not fr.spec:
            self.oblige(st, to_z3(args[1], "int") != 0, "safety", "div-by-zero", node, fr)
        return c_div(args[0], args[1])

    def p_builtin_c_mod(self, args, kw, st, fr, node):
        from .values import c_mod
        if not fr.spec:
            self.oblige(st, to_z3(args[1], "int") != 0, "safety", "div-by-zero", node, fr)
        return c_mod(args[0], args[1])

    def p_builtin_floor(self, args, kw, st, fr, node):
        return z3.ToInt(to_z3(args[0], "real"))

    def p_builtin_SUM(self, args, kw, st, fr, node):
        """SUM(a) / SUM(a, n): uninterpreted sum of the first n cells of array term a"""
        a = self.spec_arr(args[0], st)
        n = to_z3(args[1], "int") if len(args) > 1 else to_z3(a.n, "int")
        r = self.sum_term(a.data, n, a.kind)
        if a.kind in ("real", "int"):
            self.sum_sign_facts(st, a.data, n, r)
        return r

    def sum_sign_facts(self, st, t, n, r):
        k, k2 = fresh("k", I), fresh("k", I)
        f1 = z3.Implies(z3.ForAll([k], z3.Implies(z3.And(k >= 0, k < n), z3.simplify(t[k]) >= 0)), r >= 0)
        f2 = z3.Implies(z3.And(n >= 1, z3.ForAll([k2], z3.Implies(z3.And(k2 >= 0, k2 < n), z3.simplify(t[k2]) > 0))), r > 0)
        done = st.ghost.get("sumfacts", frozenset())
        if r.get_id() in done:
            return
        st.ghost["sumfacts"] = done | {r.get_id()}
        _KEEPALIVE.append(r)
        st.pc.append(f1)
        st.pc.append(f2)
        self.use("numpy sum: a sum of non-negative cells is non-negative; a non-empty sum of positive cells is positive")

    _sum_facts_done = set()

    def sum_term(self, data, n, kind):
        srt = SORTS[kind] if kind != "bool" else I
        if kind == "bool":
            i = z3.Int("i!b")
            data = z3.Lambda([i], z3.If(data[i], 1, 0))
        f = ufunc("SUM_" + kind, z3.ArraySort(I, srt), I, srt)
        self.use("sum over an array: uninterpreted function SUM(array, n) (no arithmetic axioms beyond those stated in specs)")
        return f(lift_lambda(data), to_z3(n, "int"))

    # ============================================================ numpy: construction
    def dtype_kind(self, dt, node=None):
        if dt is None:
            return "real"
        if isinstance(dt, str):
            if dt in INT_DTYPES:
                return "int"
            if dt in REAL_DTYPES:
                return "real"
            if dt in ("bool", "?", "b1"):
                return "bool"
        if isinstance(dt, Prim):
            n = dt.name.split(".")[-1]
            if n in INT_DTYPES or n in ("intp", "int_"):
                return "int"
            if n in REAL_DTYPES or n == "float_":
                return "real"
            if n in ("bool", "bool_"):
                return "bool"
        if hasattr(dt, "tag") and isinstance(dt.tag, str) and dt.tag.startswith("dtype:"):
            return dt.tag[6:]
        raise Unsupported("dtype %r" % (dt,), node)

    def _alloc_const(self, shape, kind, value, st, fr, node):
        zero = to_z3(value, kind) if kind != "bool" else z3.BoolVal(bool(value))
        if isinstance(shape, tuple):
            if len(shape) == 1:
                shape = shape[0]
            elif len(shape) == 2:
                for d in shape:
                    self.oblige(st, to_z3(d, "int") >= 0, "safety", "nonneg-size", node, fr)
                return st.alloc(HArr2(kind, shape[0], shape[1], z3.K(I, z3.K(I, zero)) if False else
                                      z3.Lambda([z3.Int("i!z"), z3.Int("j!z")], zero), fresh=True))
            else:
                raise Unsupported("array rank > 2", node)
        if kind_of(shape) != "int":
            raise Unsupported("array size of kind %s" % kind_of(shape), node)
        self.oblige(st, to_z3(shape, "int") >= 0, "safety", "nonneg-size", node, fr)
        i = z3.Int("i!")
        return st.alloc(HArr(kind, shape, z3.K(I, zero), org=None, fresh=True))

    def np_zeros(self, args, kw, st, fr, node):
        dt = kw.get("dtype", args[1] if len(args) > 1 else None)
        from .nplib import DTypeV
        if isinstance(dt, DTypeV) and isinstance(dt.h, HStruct):
            dt = self.getattr(dt, "descr", st, fr, node)
        if isinstance(dt, Ref) and isinstance(st.get(dt), HList):
            # structured dtype given as a list of (name, type[, subshape]) tuples
            from .values import FieldType
            fields, ftype, fshape = {}, {}, {}
            n = args[0]
            if isinstance(n, tuple):
                if len(n) != 1:
                    raise Unsupported("structured array of rank != 1", node)
                n = n[0]
            self.oblige(st, to_z3(n, "int") >= 0, "safety", "nonneg-size", node, fr)
            for item in st.get(dt).items:
                fname, ftyp = item[0], item[1]
                if fname in fields:
                    # numpy: ValueError: field 'x' occurs more than once
                    self.raise_from_expr(st.fork(), ExcValue("ValueError"), fr)
                    return self.kill(st, "duplicate field name")
                kind = ftyp.kind if isinstance(ftyp, FieldType) else self.dtype_kind(ftyp, node)
                fields[fname] = st.alloc(HArr(kind, n, z3.K(I, to_z3(0, kind) if kind != "bool" else z3.BoolVal(False)), fresh=True))
                if isinstance(ftyp, FieldType):
                    ftype[fname] = ftyp
                if len(item) > 2:
                    fshape[fname] = item[2]
            self.use("numpy.zeros(shape, dtype=descr): a fresh zero-filled structured array whose descr is the given list (packed "
                     "dtypes); duplicate field names raise ValueError")
            return st.alloc(HStruct(n, fields, fresh=True, ftype=ftype, fshape=fshape))
        return self._alloc_const(args[0], self.dtype_kind(dt, node), 0, st, fr, node)

    def np_dtype(self, args, kw, st, fr, node):
        """np.dtype(descr list | dtype): only the field list matters here"""
        from .nplib import DTypeV
        v = args[0]
        if isinstance(v, DTypeV):
            return v
        if isinstance(v, Ref) and isinstance(st.get(v), HList):
            proto = self.np_zeros([0], {"dtype": v}, st, fr, node)
            if isinstance(proto, Poison):
                return proto
            return DTypeV(proto, st.get(proto))
        raise Unsupported("np.dtype of %s" % kind_of(v), node)

    def _const_int_array(self, vals):
        data = z3.K(I, z3.IntVal(0))
        for k, x in enumerate(vals):
            data = z3.Store(data, k, z3.IntVal(x))
        return data

    def np_ones(self, args, kw, st, fr, node):
        dt = kw.get("dtype", args[1] if len(args) > 1 else None)
        return self._alloc_const(args[0], self.dtype_kind(dt, node), 1, st, fr, node)

    def np_empty(self, args, kw, st, fr, node):
        dt = kw.get("dtype", args[1] if len(args) > 1 else None)
        kind = self.dtype_kind(dt, node)
        shape = args[0]
        if isinstance(shape, tuple) and len(shape) == 1:
            shape = shape[0]
        if isinstance(shape, tuple):
            raise Unsupported("np.empty rank > 1", node)
        self.oblige(st, to_z3(shape, "int") >= 0, "safety", "nonneg-size", node, fr)
        return st.alloc(HArr(kind, shape, fresh("empty", z3.ArraySort(I, SORTS[kind])), fresh=True))

    def np_zeros_like(self, args, kw, st, fr, node):
        if kind_of(args[0]) in ("int", "real", "bool"):
            # zeros_like of a scalar is a 0-d array: a zero of the same kind for every use the scalar paths make of it
            return z3.RealVal(0) if kind_of(args[0]) == "real" else 0
        h = st.get(args[0])
        return self._alloc_const(h.n, h.kind, 0, st, fr, node)

    def np_arange(self, args, kw, st, fr, node):
        dt = kw.get("dtype")
        if len(args) == 1:
            lo, hi, step = 0, args[0], 1
        elif len(args) == 2:
            lo, hi, step = args[0], args[1], 1
        else:
            lo, hi, step = args[:3]
        if any(kind_of(x) != "int" for x in (lo, hi, step)):
            raise Unsupported("np.arange with non-integer arguments", node)
        sc = as_const(step) if is_sym(step) else step
        lo_, hi_ = to_z3(lo, "int"), to_z3(hi, "int")
        i = z3.Int("i!r")
        if sc is None:
            s_ = to_z3(step, "int")
            self.oblige(st, s_ > 0, "safety", "arange-positive-step", node, fr)
            d = hi_ - lo_
            n = z3.If(d <= 0, 0, (d + s_ - 1) / s_)
            data = z3.Lambda([i], lo_ + i * s_)
        else:
            if sc <= 0:
                raise Unsupported("np.arange with non-positive step", node)
            d = hi_ - lo_
            n = z3.If(d <= 0, 0, (d + sc - 1) / sc) if sc != 1 else z3.If(d <= 0, 0, d)
            data = z3.Lambda([i], lo_ + i * sc)
        self.use("numpy.arange(a,b,step) for integers: ceil((b-a)/step) cells a+k*step")
        kind = self.dtype_kind(dt, node) if dt is not None else "int"
        if kind == "real":
            data = z3.Lambda([i], z3.ToReal(data[i]))
        return st.alloc(HArr(kind, z3.simplify(n), data, fresh=True))

    def np_array(self, args, kw, st, fr, node):
        v = args[0]
        if isinstance(v, tuple) and v and all(isinstance(x, str) for x in v):
            return StrArr(v)
        dt = kw.get("dtype", args[1] if len(args) > 1 else None)
        copyflag = kw.get("copy", True)
        kind = self.dtype_kind(dt, node) if dt is not None else None
        if isinstance(v, Ref):
            h = st.get(v)
            if isinstance(h, HList):
                return self.list_to_arr(v, st, kind)
            if isinstance(h, HArr):
                n, t = self.arr_term(st, v)
                k2 = kind or h.kind
                if k2 != h.kind:
                    i = z3.Int("i!c")
                    t = z3.Lambda([i], self.coerce_term(t[i], h.kind, k2))
                if copyflag in (False, None) and k2 == h.kind and not h.islist:
                    # copy=False / copy=None (numpy 2: copy only if needed): the argument itself may come back
                    return v
                org = None
                if k2 == h.kind:
                    try:
                        org = self.org_term(st, v)
                    except SpecError:
                        org = None
                return st.alloc(HArr(k2, n, t, org=org, fresh=True, unit=h.unit))
            if isinstance(h, HArr2):
                return st.alloc(HArr2(h.kind, h.n0, h.n1, h.data, fresh=True))
        if kind_of(v) in ("int", "real", "bool"):
            k2 = kind or kind_of(v)
            nd = kw.get("ndmin", 0)
            if nd == 1:
                return st.alloc(HArr(k2, 1, z3.K(I, self.coerce_elem(v, k2)), fresh=True))
            return to_z3(v, k2) if is_sym(v) else v
        if isinstance(v, tuple):
            return self.list_to_arr(st.alloc(HList(list(v))), st, kind)
        raise Unsupported("np.array of %s" % kind_of(v), node)

    def np_asarray(self, args, kw, st, fr, node):
        if isinstance(args[0], Ref) and type(st.get(args[0])).__name__ == "HBO" and "dtype" not in kw and len(args) == 1:
            self.use("numpy.asarray / ascontiguousarray of an array may return the array itself or a view sharing its buffer")
            return args[0]
        kw = dict(kw)
        kw["copy"] = False
        return self.np_array(args, kw, st, fr, node)

    np_ascontiguousarray = np_asarray
    np_asanyarray = np_asarray

    def np_atleast_1d(self, args, kw, st, fr, node):
        v = args[0]
        if isinstance(v, Ref):
            h = st.get(v)
            if isinstance(h, (HArr, HArr2, HStruct)) and not getattr(h, "islist", False):
                self.use("numpy.atleast_1d(ndarray of rank>=1) returns the same object")
                return v
            if isinstance(h, HList) or getattr(h, "islist", False):
                return self.np_array([v], {}, st, fr, node)
        if kind_of(v) in ("int", "real", "bool"):
            k = kind_of(v)
            return st.alloc(HArr(k, 1, z3.K(I, to_z3(v)), fresh=True))
        if isinstance(v, tuple):
            return self.list_to_arr(st.alloc(HList(list(v))), st)
        raise Unsupported("atleast_1d of %s" % kind_of(v), node)

    def np_iterable(self, args, kw, st, fr, node):
        v = args[0]
        if isinstance(v, (str, tuple)):
            return True
        if isinstance(v, Ref):
            return True
        if kind_of(v) in ("int", "real", "bool", "none"):
            return False
        raise Unsupported("np.iterable of %s" % kind_of(v), node)

    def np_ndim(self, args, kw, st, fr, node):
        v = args[0]
        if kind_of(v) in ("int", "real", "bool"):
            return 0
        if isinstance(v, Ref) and isinstance(st.get(v), HArr2):
            return 2
        if isinstance(v, Ref) and isinstance(st.get(v), HArr):
            return 1
        raise Unsupported("np.ndim of %s" % kind_of(v), node)

    def np_isfinite(self, args, kw, st, fr, node):
        v = args[0]
        if kind_of(v) in ("int", "real", "bool"):
            self.use("reals: every scalar float is finite (NaN and infinities are outside the real-number model)")
            return True
        raise Unsupported("np.isfinite of %s" % kind_of(v), node)

    def np_isscalar(self, args, kw, st, fr, node):
        return kind_of(args[0]) in ("int", "real", "bool", "str")

    def _scalar_cast(kind):
        def f(self, args, kw, st, fr, node):
            v = args[0]
            if self.is_arr(v, st):
                return self.nd_astype([v, kind], {}, st, fr, node)
            if kind == "int":
                return self.p_builtin_int([v], kw, st, fr, node)
            return self.p_builtin_float([v], kw, st, fr, node)
        return f

    np_int64 = _scalar_cast("int")
    np_int32 = _scalar_cast("int")
    np_intp = _scalar_cast("int")
    np_float64 = _scalar_cast("real")
    np_float32 = _scalar_cast("real")

    # ============================================================ numpy: searching / sorting
    def np_where(self, args, kw, st, fr, node):
        if len(args) == 1 and isinstance(args[0], BoolTuple):
            idx = [k for k, b in enumerate(args[0].items) if b]
            return (st.alloc(HArr("int", len(idx), self._const_int_array(idx), fresh=True)),)
        if len(args) == 1:
            return (self.where1(args[0], st, fr, node),)
        c, a, b = args
        n, t = self.arr_term(st, c)
        i = z3.Int("i!w")

        def el(v):
            if self.is_arr(v, st):
                return self.arr_term(st, v)[1][i], st.get(v).kind
            return to_z3(v), kind_of(v)
        (x, kx), (y, ky) = el(a), el(b)
        kind = "real" if "real" in (kx, ky) else kx
        return st.alloc(HArr(kind, n, self.mat(st, n, z3.Lambda([i], z3.If(t[i], to_z3(x, kind), to_z3(y, kind))), kind), fresh=True))

    def _argsort(self, a, st, fr, node, stable):
        """fresh index array s: a permutation of 0..n-1 with a[s[i]] non-decreasing (ties by index when stable)"""
        n, t = self.arr_term(st, a)
        n = to_z3(n, "int")
        s = fresh("argsort", z3.ArraySort(I, I))
        inv = fresh("argsort!inv", z3.ArraySort(I, I))
        i, j = fresh("i", I), fresh("j", I)
        self.assume(st, z3.ForAll([i], z3.Implies(z3.And(i >= 0, i < n), z3.And(s[i] >= 0, s[i] < n, inv[s[i]] == i))))
        tj = z3.simplify(t[j])       # beta-reduces a select on a lambda (gathered / sliced arrays)
        body = z3.Implies(z3.And(j >= 0, j < n), z3.And(inv[j] >= 0, inv[j] < n, s[inv[j]] == j, t[s[inv[j]]] == tj))
        try:
            self.assume(st, z3.ForAll([j], body, patterns=[inv[j], tj]))
        except z3.Z3Exception:
            self.assume(st, z3.ForAll([j], body))
        self.assume(st, z3.ForAll([i, j], z3.Implies(z3.And(i >= 0, i < j, j < n), t[s[i]] <= t[s[j]])))
        if stable:
            self.assume(st, z3.ForAll([i, j], z3.Implies(z3.And(i >= 0, i < j, j < n, t[s[i]] == t[s[j]]), s[i] < s[j])))
        self.use("numpy argsort: a permutation (with inverse) ordering the values non-decreasingly%s"
                 % ("; kind='stable' orders ties by index" if stable else ""))
        r = st.alloc(HArr("int", n, s, fresh=True))
        st.get(r).inv = inv
        return r

    def p_builtin_is_permutation(self, args, kw, st, fr, node):
        """is_permutation(a): a is a permutation of 0..len(a)-1 (stated through the ghost inverse carried by the array)"""
        a = args[0]
        h = st.get(a)
        n, t = self.arr_term(st, a)
        n = to_z3(n, "int")
        if h.inv is None:
            st.put(a, h.replace())
            st.get(a).inv = fresh("perm!inv", z3.ArraySort(I, I))
        inv = st.get(a).inv
        i, j = fresh("i", I), fresh("j", I)
        c1 = z3.ForAll([i], z3.Implies(z3.And(i >= 0, i < n), z3.And(t[i] >= 0, t[i] < n, inv[t[i]] == i)))
        body = z3.Implies(z3.And(j >= 0, j < n), z3.And(inv[j] >= 0, inv[j] < n, t[inv[j]] == j))
        pats = [inv[j]]
        if len(args) > 1:
            # instantiation hint: also instantiate for every index at which the hint array is read
            _, ht = self.arr_term(st, args[1])
            pats.append(ht[j])
        c2 = z3.ForAll([j], body, patterns=pats)
        return z3.And(c1, c2)

    def np_argsort(self, args, kw, st, fr, node):
        return self._argsort(args[0], st, fr, node, kw.get("kind") in ("stable", "mergesort"))

    def nd_argsort(self, args, kw, st, fr, node):
        return self._argsort(args[0], st, fr, node, kw.get("kind") in ("stable", "mergesort"))

    def np_unique(self, args, kw, st, fr, node):
        """sorted distinct values: strictly increasing, every result is an input value, every input value occurs"""
        if kw:
            raise Unsupported("np.unique with options", node)
        a = args[0]
        n, t = self.arr_term(st, a)
        n = to_z3(n, "int")
        h = st.get(a)
        m = fresh("unique!n", I)
        u = fresh("unique", z3.ArraySort(I, SORTS[h.kind]))
        src = fresh("unique!src", z3.ArraySort(I, I))
        pos = fresh("unique!pos", z3.ArraySort(I, I))
        i, j = fresh("i", I), fresh("j", I)
        self.assume(st, z3.And(m >= 0, m <= n, z3.Implies(n > 0, m >= 1)))
        self.assume(st, z3.ForAll([i, j], z3.Implies(z3.And(i >= 0, i < j, j < m), u[i] < u[j])))
        self.assume(st, z3.ForAll([i], z3.Implies(z3.And(i >= 0, i < m), z3.And(src[i] >= 0, src[i] < n, t[src[i]] == u[i]))))
        self.assume(st, z3.ForAll([j], z3.Implies(z3.And(j >= 0, j < n), z3.And(pos[j] >= 0, pos[j] < m, u[pos[j]] == t[j]))))
        i2, j2 = fresh("i", I), fresh("j", I)
        self.assume(st, (m == n) == z3.ForAll([i2, j2], z3.Implies(z3.And(i2 >= 0, i2 < j2, j2 < n), t[i2] != t[j2])))
        self.use("numpy.unique: strictly increasing, sound and complete w.r.t. the input values; as many results as inputs "
                 "exactly when the input values are pairwise distinct (pigeonhole, assumed)")
        return st.alloc(HArr(h.kind, m, u, fresh=True))

    def np_searchsorted(self, args, kw, st, fr, node):
        """left insertion points of v in a (sorted through `sorter` when given)"""
        a, v = args[0], args[1]
        side = kw.get("side", args[2] if len(args) > 2 else "left")
        sorter = kw.get("sorter", args[3] if len(args) > 3 else None)
        n, t0 = self.arr_term(st, a)
        n = to_z3(n, "int")
        if sorter is not None:
            _, srt = self.arr_term(st, sorter)

            def t(k):
                return t0[srt[k]]
        else:
            def t(k):
                return t0[k]
        i = fresh("i", I)
        left = side == "left"
        if not fr.spec:
            i2, j2 = fresh("i", I), fresh("j", I)
            self.oblige(st, z3.ForAll([i2, j2], z3.Implies(z3.And(i2 >= 0, i2 < j2, j2 < n), t(i2) <= t(j2))), "safety",
                        "searchsorted-array-is-sorted", node, fr)

        def facts(r, x):
            lo = z3.ForAll([i], z3.Implies(z3.And(i >= 0, i < r), (t(i) < x) if left else (t(i) <= x)))
            hi = z3.ForAll([i], z3.Implies(z3.And(i >= r, i < n), (t(i) >= x) if left else (t(i) > x)))
            return z3.And(r >= 0, r <= n, lo, hi)
        self.use("numpy.searchsorted(side=%s): insertion point in a sorted array (sortedness is an obligation at the call site)" % side)
        if self.is_arr(v, st):
            m, tv = self.arr_term(st, v)
            r = fresh("searchsorted", z3.ArraySort(I, I))
            k = fresh("k", I)
            lo = z3.ForAll([k, i], z3.Implies(z3.And(k >= 0, k < to_z3(m, "int"), i >= 0, i < r[k]),
                                              (t(i) < tv[k]) if left else (t(i) <= tv[k])))
            hi = z3.ForAll([k, i], z3.Implies(z3.And(k >= 0, k < to_z3(m, "int"), i >= r[k], i < n),
                                              (t(i) >= tv[k]) if left else (t(i) > tv[k])))
            rng = z3.ForAll([k], z3.Implies(z3.And(k >= 0, k < to_z3(m, "int")), z3.And(r[k] >= 0, r[k] <= n)))
            self.assume(st, z3.And(lo, hi, rng))
            return st.alloc(HArr("int", m, r, fresh=True))
        r = fresh("searchsorted", I)
        self.assume(st, facts(r, to_z3(v, st.get(a).kind)))
        return r

    # ============================================================ numpy: reductions & elementwise
    def nd_sum(self, args, kw, st, fr, node):
        a = args[0]
        h = st.get(a)
        if isinstance(h, HArr2):
            raise Unsupported("sum over 2-d array", node)
        n, t = self.arr_term(st, a)
        r = self.sum_term(t, n, h.kind)
        if h.kind in ("real", "int"):
            self.sum_sign_facts(st, t, to_z3(n, "int"), r)
        return r

    def _stat(self, name, args, st, fr, node):
        """mean / std / median of a 1-d array: uninterpreted functions of (content, length) - numpy's definitions are assumed"""
        a = args[0]
        h = st.get(a)
        if not isinstance(h, HArr):
            raise Unsupported("%s of a non 1-d array" % name, node)
        n, t = self.arr_term(st, a)
        if not fr.spec:
            self.oblige(st, to_z3(n, "int") >= 1, "safety", "reduce-nonempty", node, fr)
        tt = t
        if h.kind != "real":
            i = z3.Int("i!c")
            tt = z3.Lambda([i], self.coerce_term(t[i], h.kind, "real"))
        f = ufunc("STAT_" + name, z3.ArraySort(I, R), I, R)
        self.use("numpy %s of a 1-d array: uninterpreted function of the cells (numpy's definition assumed)" % name)
        return f(lift_lambda(tt), to_z3(n, "int"))

    def nd_mean(self, args, kw, st, fr, node):
        return self._stat("mean", args, st, fr, node)

    def nd_std(self, args, kw, st, fr, node):
        return self._stat("std", args, st, fr, node)

    def np_median(self, args, kw, st, fr, node):
        return self._stat("median", args, st, fr, node)

    np_mean, np_std = nd_mean, nd_std

    def np_sum(self, args, kw, st, fr, node):
        return self.nd_sum(args, kw, st, fr, node)

    def nd_cumsum(self, args, kw, st, fr, node):
        a = args[0]
        n, t = self.arr_term(st, a)
        h = st.get(a)
        c = fresh("cumsum", z3.ArraySort(I, SORTS[h.kind]))
        i = fresh("i", I)
        self.assume(st, z3.Implies(to_z3(n, "int") > 0, c[0] == t[0]))
        self.assume(st, z3.ForAll([i], z3.Implies(z3.And(i >= 1, i < to_z3(n, "int")), c[i] == c[i - 1] + t[i])))
        self.use("numpy.cumsum: c[0]=a[0], c[i]=c[i-1]+a[i]")
        return st.alloc(HArr(h.kind, n, c, fresh=True))

    np_cumsum = nd_cumsum

    def _extreme(self, a, ismax, st, fr, node):
        n, t = self.arr_term(st, a)
        n = to_z3(n, "int")
        h = st.get(a)
        if not fr.spec:
            self.oblige(st, n >= 1, "safety", "reduce-nonempty", node, fr)
        m = fresh("max" if ismax else "min", SORTS[h.kind])
        w = fresh("argext", I)
        i = fresh("i", I)
        self.assume(st, z3.ForAll([i], z3.Implies(z3.And(i >= 0, i < n), (t[i] <= m) if ismax else (t[i] >= m))))
        self.assume(st, z3.And(w >= 0, w < n, t[w] == m))
        self.use("numpy max/min: an attained bound of the cells")
        return m

    def nd_max(self, args, kw, st, fr, node):
        return self._extreme(args[0], True, st, fr, node)

    def nd_min(self, args, kw, st, fr, node):
        return self._extreme(args[0], False, st, fr, node)

    def nd_astype(self, args, kw, st, fr, node):
        a, dt = args[0], args[1]
        kind = self.dtype_kind(dt, node)
        h = st.get(a)
        if isinstance(h, HArr2):
            return st.alloc(HArr2(kind, h.n0, h.n1, h.data, fresh=True))
        n, t = self.arr_term(st, a)
        if kind != h.kind:
            i = z3.Int("i!c")
            t = z3.Lambda([i], self.coerce_term(t[i], h.kind, kind))
        newdid = getattr(dt, "did", None)
        if newdid is not None and kind == h.kind:
            own = self.arr_attr(a, h, "dtype", st, fr, node).did
            same = z3.simplify(own == newdid)
            if not z3.is_true(same):
                # conversion to another concrete dtype of the same model kind: value-preserving only if the dtypes are equal
                conv = z3.Function("astype!conv!" + kind, I, SORTS[kind], SORTS[kind])
                i = z3.Int("i!c")
                t = z3.Lambda([i], z3.If(same, t[i], conv(newdid, t[i])))
                self.use("astype to the dtype of another array: an arbitrary (uninterpreted) conversion unless the two dtypes are equal")
                r = st.alloc(HArr(kind, n, t, org=None, fresh=True, unit=h.unit))
                ids = dict(st.ghost.get("dtids", {}))
                ids[r.id] = newdid
                st.ghost["dtids"] = ids
                return r
        org = None
        if kind == h.kind:
            try:
                org = self.org_term(st, a)
            except SpecError:
                org = None
        self.use("ndarray.astype returns a fresh array (copy=True default)")
        return st.alloc(HArr(kind, n, t, org=org, fresh=True, unit=h.unit))

    def nd_byteswap(self, args, kw, st, fr, node):
        a = args[0]
        inplace = kw.get("inplace", args[1] if len(args) > 1 else False)
        if type(st.get(a)).__name__ != "HBO":
            raise Unsupported("byteswap of an array without a byte-order model", node)
        return self.bo_byteswap(a, inplace, st, fr, node)

    def nd_copy(self, args, kw, st, fr, node):
        a = args[0]
        h = st.get(a)
        if type(h).__name__ == "HBO":
            return self.bo_copy(a, st)
        if isinstance(h, HStruct):
            flds = {nm: self.nd_copy([r], {}, st, fr, node) for nm, r in h.fields.items()}
            return st.alloc(HStruct(h.n, flds, fresh=True, ftype=h.ftype, fshape=h.fshape))
        if isinstance(h, HArr2):
            return st.alloc(HArr2(h.kind, h.n0, h.n1, h.data, fresh=True))
        n, t = self.arr_term(st, a)
        try:
            org = self.org_term(st, a)
        except SpecError:
            org = None
        return st.alloc(HArr(h.kind, n, t, org=org, fresh=True, unit=h.unit))

    def nd_transpose(self, args, kw, st, fr, node):
        h = st.get(args[0])
        if not isinstance(h, HArr2) or len(args) > 1:
            raise Unsupported("transpose of a non-2-d array", node)
        i, j = z3.Int("i!t"), z3.Int("j!t")
        # a read-only use is all the code makes of it: modelled as a value (writes through the view are not modelled)
        return st.alloc(HArr2(h.kind, h.n1, h.n0, z3.Lambda([i, j], h.data[j][i] if False else z3.Select(h.data, j, i)), fresh=True))

    def nd_view(self, args, kw, st, fr, node):
        a = args[0]
        h = st.get(a)
        if type(h).__name__ == "HBO":
            # a view of a different array class over the same buffer: writes through it are writes to the original
            r = st.alloc(h.replace())
            return r
        if isinstance(h, HArr):
            return st.alloc(HArr(h.kind, h.n, None, base=(a, 0, 1), fresh=h.fresh, unit=h.unit))
        return a

    def nd_sort(self, args, kw, st, fr, node):
        a = args[0]
        self.frame_check(a, st, fr, node)
        n, t = self.arr_term(st, a)
        n = to_z3(n, "int")
        s = self._argsort(a, st, fr, node, False)
        _, sv = self.arr_term(st, s)
        inv = st.get(s).inv
        kind = st.get(a).kind
        new = fresh("sorted", z3.ArraySort(I, SORTS[kind]))
        i, j = fresh("i", I), fresh("j", I)
        # the sorted content as a first-class array: ordered, every new cell is an old cell and every old cell a new one
        self.assume(st, z3.ForAll([i], z3.Implies(z3.And(i >= 0, i < n), z3.And(sv[i] >= 0, sv[i] < n, new[i] == z3.simplify(t[sv[i]]))),
                                  patterns=[new[i]]))
        tj = z3.simplify(t[j])
        try:
            self.assume(st, z3.ForAll([j], z3.Implies(z3.And(j >= 0, j < n), z3.And(inv[j] >= 0, inv[j] < n, new[inv[j]] == tj)),
                                      patterns=[tj]))
        except z3.Z3Exception:
            self.assume(st, z3.ForAll([j], z3.Implies(z3.And(j >= 0, j < n), z3.And(inv[j] >= 0, inv[j] < n, new[inv[j]] == tj))))
        i2, j2 = fresh("i", I), fresh("j", I)
        self.assume(st, z3.ForAll([i2, j2], z3.Implies(z3.And(i2 >= 0, i2 < j2, j2 < n), new[i2] <= new[j2])))
        self.write_all(a, new, st)
        return None

    def nd_fill(self, args, kw, st, fr, node):
        a, v = args
        self.arr_assign_all(a, v, st, fr, node)
        return None

    def nd_ravel(self, args, kw, st, fr, node):
        if isinstance(st.get(args[0]), HArr):
            return args[0]
        raise Unsupported("ravel of 2-d", node)

    def nd_tolist(self, args, kw, st, fr, node):
        return self.p_builtin_list([args[0]], {}, st, fr, node)

    def _np_un(name):
        def f(self, args, kw, st, fr, node):
            v = args[0]
            out = kw.get("out", args[1] if len(args) > 1 else None)
            if self.is_arr(v, st):
                r = self.np_unary(name, v, st, fr, node)
                if out is not None:
                    # ufunc(x, out): the result is stored into `out` (a write to that buffer) and `out` is returned
                    if not self.is_arr(out, st):
                        raise Unsupported("ufunc out= of a non-array", node)
                    self.arr_assign_all(out, r, st, fr, node)
                    return out
                return r
            if out is not None:
                raise Unsupported("ufunc out= with a scalar operand", node)
            return self.ufun(name, [v], st, fr, node)
        return f

    def np_clip(self, args, kw, st, fr, node):
        """np.clip(a, lo, hi[, out]) / a.clip(lo, hi, out=)"""
        a, lo, hi = args[0], args[1], args[2]
        out = kw.get("out", args[3] if len(args) > 3 else None)
        if not self.is_arr(a, st):
            x, l_, h_ = to_z3(a, "real"), to_z3(lo, "real"), to_z3(hi, "real")
            return z3.If(x < l_, l_, z3.If(x > h_, h_, x))
        n, t = self.arr_term(st, a)
        i = z3.Int("i!k")
        kind = st.get(a).kind
        l_, h_ = to_z3(lo, kind), to_z3(hi, kind)
        r = st.alloc(HArr(kind, n, self.mat(st, n, z3.Lambda([i], z3.If(t[i] < l_, l_, z3.If(t[i] > h_, h_, t[i]))), kind), fresh=True))
        if out is not None:
            self.arr_assign_all(out, r, st, fr, node)
            return out
        return r

    nd_clip = np_clip

    # ---- a numpy random generator passed as a parameter (type "opaque:rng"): the draws are arbitrary values in their range
    def p_rng_random(self, args, kw, st, fr, node):
        n = kw.get("size", args[0] if args else None)
        return self._draws(n, 0, 1, True, st, fr, node)

    p_rng_random_sample = p_rng_random

    def p_rng_uniform(self, args, kw, st, fr, node):
        lo = kw.get("low", args[0] if len(args) > 0 else 0.0)
        hi = kw.get("high", args[1] if len(args) > 1 else 1.0)
        n = kw.get("size", args[2] if len(args) > 2 else None)
        return self._draws(n, lo, hi, False, st, fr, node)

    def p_rng_choice(self, args, kw, st, fr, node):
        """Generator.choice(imax, size=n, replace=flag): n arbitrary integers of range(imax); pairwise distinct without
        replacement (numpy raises ValueError when n > imax then)"""
        imax = args[0]
        n = kw.get("size", args[1] if len(args) > 1 else None)
        replace = kw.get("replace", args[2] if len(args) > 2 else True)
        if n is None or kind_of(imax) != "int":
            raise Unsupported("rng.choice in this form", node)
        self.use("random generator parameter: choice(imax, size, replace) returns size arbitrary integers in [0, imax), pairwise "
                 "distinct when replace is False (every draw is covered)")
        n_, m_ = to_z3(n, "int"), to_z3(imax, "int")
        self.oblige(st, n_ >= 0, "safety", "nonneg-size", node, fr)
        rep = truth(replace) if not isinstance(replace, bool) else z3.BoolVal(replace)
        self.oblige(st, z3.Or(rep, n_ <= m_), "safety", "no-more-distinct-draws-than-values", node, fr)
        d = fresh("choice", z3.ArraySort(I, I))
        k, j = fresh("k", I), fresh("j", I)
        self.assume(st, z3.ForAll([k], z3.Implies(z3.And(k >= 0, k < n_), z3.And(d[k] >= 0, d[k] < m_))))
        self.assume(st, z3.Implies(z3.Not(rep), z3.ForAll([k, j], z3.Implies(z3.And(k >= 0, k < j, j < n_), d[k] != d[j]))))
        return st.alloc(HArr("int", n, d, fresh=True))

    def _draws(self, n, lo, hi, strict_hi, st, fr, node):
        self.use("random generator parameter: random()/uniform() return the requested number of arbitrary values in [low, high) / "
                 "[low, high] (every deviate sequence is covered)")
        lo_, hi_ = to_z3(lo, "real"), to_z3(hi, "real")
        if n is None:
            v = fresh("deviate", R)
            self.assume(st, z3.And(v >= lo_, (v < hi_) if strict_hi else (v <= hi_)))
            return v
        self.oblige(st, to_z3(n, "int") >= 0, "safety", "nonneg-size", node, fr)
        d = fresh("deviates", z3.ArraySort(I, R))
        k = fresh("k", I)
        self.assume(st, z3.ForAll([k], z3.Implies(z3.And(k >= 0, k < to_z3(n, "int")),
                                                 z3.And(d[k] >= lo_, (d[k] < hi_) if strict_hi else (d[k] <= hi_)))))
        return st.alloc(HArr("real", n, d, fresh=True))

    for _n in ("sqrt", "sin", "cos", "arcsin", "arccos", "log", "log10", "exp", "sinh", "deg2rad", "rad2deg", "abs", "tan",
               "arctan"):
        locals()["np_" + _n] = _np_un(_n)
    np_absolute = np_abs
    np_fabs = np_abs

    def np_arctan2(self, args, kw, st, fr, node):
        a, b = args
        if self.is_arr(a, st) or self.is_arr(b, st):
            arr = a if self.is_arr(a, st) else b
            n, _ = self.arr_term(st, arr)
            i = z3.Int("i!e")

            def el(v):
                if self.is_arr(v, st):
                    nv, tv = self.arr_term(st, v)
                    if not fr.spec:
                        self.oblige(st, to_z3(nv, "int") == to_z3(n, "int"), "safety", "same-length-operands", node, fr)
                    return self.coerce_term(tv[i], st.get(v).kind, "real")
                return to_z3(v, "real")
            r = self.ufun("arctan2", [el(a), el(b)], st, fr, node, elementwise=(n, i))
            return st.alloc(HArr("real", n, z3.Lambda([i], to_z3(r)), fresh=True))
        return self.ufun("arctan2", [a, b], st, fr, node)

    def np_any(self, args, kw, st, fr, node):
        v = args[0]
        if not self.is_arr(v, st):
            return truth(v)
        n, t = self.arr_term(st, v)
        i = fresh("i", I)
        el = t[i] if st.get(v).kind == "bool" else (t[i] != 0)
        return z3.Exists([i], z3.And(i >= 0, i < to_z3(n, "int"), el))

    def np_all(self, args, kw, st, fr, node):
        v = args[0]
        if not self.is_arr(v, st):
            return truth(v)
        n, t = self.arr_term(st, v)
        i = fresh("i", I)
        el = t[i] if st.get(v).kind == "bool" else (t[i] != 0)
        return z3.ForAll([i], z3.Implies(z3.And(i >= 0, i < to_z3(n, "int")), el))

    nd_any = np_any
    nd_all = np_all

    def np_size(self, args, kw, st, fr, node):
        return self.getattr(args[0], "size", st, fr, node)


_KEEPALIVE = []
import itertools as _itx
_mc = _itx.count()


class StrArr:
    """a numpy array of known strings (field names): only ==, where, size and indexing are used on it"""

    def __init__(self, items):
        self.items = tuple(items)


class BoolTuple:
    """element-wise comparison result of a StrArr"""

    def __init__(self, items):
        self.items = tuple(items)


class IterView:
    """an iterator (no len) over the items of another iterable"""

    def __init__(self, src):
        self.src = src


class AbsIterable:
    """an abstract iterable (the wrapped iterable of the progress-bar wrappers): items are opaque reals"""

    def __init__(self, name, n, haslen):
        self.name = name
        self.items = z3.Array(name + "!items", z3.IntSort(), z3.IntSort())
        self.total = n
        self.n = n if haslen else None
