"""Byte-order model of numpy arrays (property C16, C04, C15).

An array is a set of (base) fields - one anonymous field for a plain array - each with
  order : Int code  0 '<'   1 '>'   2 '='   3 '|' (not applicable: single-byte and string fields)
  raw   : the stored bytes, an opaque Int
Shapes and element counts are not modelled: every operation used here acts cell-wise and uniformly, so the bytes of a
field are one opaque value.  numpy's byte-order algebra is an assumed contract (conformance-tested in the bounded layer):
  byteswap()        : raw' = SW(raw) for fields with order != '|', unchanged otherwise; SW(SW(x)) == x
  newbyteorder()    : '<' <-> '>', '=' -> the non-native order, '|' unchanged
  decoded value     : VAL(raw, big?) with  VAL(SW(x), not b) == VAL(x, b);  fields with order '|' decode to raw itself
  np.little_endian  : the symbolic constant MACHINE_LITTLE (both machines are verified)
"""
import z3

from .values import Ref, Unsupported, SpecError, to_z3, zand, zor, znot

I = z3.IntSort()
MACHINE_LITTLE = z3.Bool("np.little_endian")
SW = z3.Function("bo!byteswap", I, I)
VB = z3.Function("bo!decode-big", I, I)
VL = z3.Function("bo!decode-little", I, I)


def VAL(raw, big):
    return z3.If(big, VB(raw), VL(raw))


_x = z3.Int("x!bo")
BO_AXIOMS = [
    z3.ForAll([_x], SW(SW(_x)) == _x, patterns=[SW(SW(_x))]),
    z3.ForAll([_x], VB(SW(_x)) == VL(_x), patterns=[VB(SW(_x))]),
    z3.ForAll([_x], VL(SW(_x)) == VB(_x), patterns=[VL(SW(_x))]),
]
ORDER_CODES = {"<": 0, ">": 1, "=": 2, "|": 3}


class HBO:
    """heap object: byte-order view of an array; names is None for a plain array (single field keyed None)"""

    def __init__(self, names, order, raw, fresh=True, buf=None, parent=None):
        self.names = names
        self.order = dict(order)
        self.raw = dict(raw)
        self.fresh = fresh
        self.buf = buf
        self.parent = parent      # (Ref of the structured array, field name) for a field view: in-place writes go through

    def keys(self):
        return [None] if self.names is None else list(self.names)

    def replace(self, **kw):
        o = HBO(self.names, self.order, self.raw, self.fresh, self.buf, self.parent)
        for k, v in kw.items():
            setattr(o, k, v)
        return o


class BaseOf:
    """ndarray.base of a (possibly derived) array: numpy collapses base chains, so whether it is a particular array is unknown"""

    def __init__(self, ref):
        self.ref = ref


class OrderV:
    """value of dtype.byteorder: a one-character string known only through its code"""

    def __init__(self, code):
        self.code = code


class BODType:
    def __init__(self, ref, names, order):
        self.ref, self.names, self.order = ref, names, dict(order)
        self.tag = "dtype:bo"
        self.did = None


def flipped(code):
    """numpy dtype.newbyteorder() on one base field"""
    return z3.If(code == 0, z3.IntVal(1), z3.If(code == 1, z3.IntVal(0),
                 z3.If(code == 2, z3.If(MACHINE_LITTLE, z3.IntVal(1), z3.IntVal(0)), z3.IntVal(3))))


def declared_big(code):
    return z3.Or(code == 1, z3.And(code == 2, z3.Not(MACHINE_LITTLE)))


def declared_little(code):
    return z3.Or(code == 0, z3.And(code == 2, MACHINE_LITTLE))


class BOMixin:
    # ---- instantiation:  "bo"  (plain)   "bo:a,b,c" (structured with these field names)
    def fresh_bo(self, st, ty, name, fresh=False):
        names = None
        if ty.startswith("bo:"):
            names = tuple(x.strip() for x in ty[3:].split(","))
        order, raw = {}, {}
        for k in ([None] if names is None else names):
            tag = name if k is None else "%s.%s" % (name, k)
            o = z3.Int(tag + "!order")
            self.assume(st, z3.And(o >= 0, o <= 3))
            order[k] = o
            raw[k] = z3.Int(tag + "!bytes")
        r = st.alloc(HBO(names, order, raw, fresh=fresh))
        st.get(r).buf = r.id
        self.use("numpy byte-order algebra (byteswap involution, newbyteorder flip, decode(swap(bytes), other order) == decode(bytes, order)); "
                 "shapes are not modelled (cell-wise operations)")
        return r

    # ---- attributes
    def bo_attr(self, ref, h, attr, st, fr, node):
        from .values import Bound, Prim
        if attr == "dtype":
            return BODType(ref, h.names, h.order)
        if attr in ("copy", "byteswap", "view"):
            return Bound(ref, Prim("ndarray." + attr))
        if attr == "base":
            return BaseOf(ref)
        if attr == "size":
            n = z3.Int("bo!size!%d" % (h.buf if h.buf is not None else ref.id))
            if not any(f.eq(n >= 0) for f in st.pc):
                st.pc.append(n >= 0)
            return n
        raise Unsupported("attribute .%s of a byte-order array" % attr, node)

    def bodtype_attr(self, d, attr, st, fr, node):
        from .values import Bound, Prim
        if attr == "names":
            return d.names
        if attr == "base":
            if d.names is not None:
                raise Unsupported("dtype.base of a structured dtype", node)
            return d
        if attr == "byteorder":
            if d.names is not None:
                return OrderV(z3.IntVal(3))     # numpy reports '|' for structured dtypes
            return OrderV(d.order[None])
        if attr == "newbyteorder":
            return Bound(d, Prim("bodtype.newbyteorder"))
        if attr == "isnative":
            # numpy: True when every field is in native order or has no order ('|')
            return zand(*[zor(o == 3, z3.If(MACHINE_LITTLE, declared_little(o), declared_big(o))) for o in d.order.values()])
        if attr == "descr":
            raise Unsupported("dtype.descr of a byte-order array (use the descr model)", node)
        raise Unsupported("dtype attribute ." + attr, node)

    def p_bodtype_newbyteorder(self, args, kw, st, fr, node):
        d = args[0]
        if kw or len(args) > 2:
            raise Unsupported("newbyteorder with keyword arguments", node)
        if len(args) == 2:
            if args[1] not in ("=", "<", ">", "S", "s", "N", "n", "L", "l", "B", "b"):
                raise Unsupported("newbyteorder(%r)" % (args[1],), node)
            if args[1] in ("S", "s"):
                return BODType(None, d.names, {k: z3.simplify(flipped(o)) for k, o in d.order.items()})
            code = {"=": 2, "N": 2, "n": 2, "<": 0, "L": 0, "l": 0, ">": 1, "B": 1, "b": 1}[args[1]]
            # fields without a byte order keep '|'
            return BODType(None, d.names, {k: z3.simplify(z3.If(o == 3, z3.IntVal(3), z3.IntVal(code))) for k, o in d.order.items()})
        return BODType(None, d.names, {k: z3.simplify(flipped(o)) for k, o in d.order.items()})

    def bo_setattr(self, base, attr, v, st, fr, node):
        h = st.get(base)
        if attr != "dtype" or not isinstance(v, BODType):
            raise Unsupported("attribute store .%s on a byte-order array" % attr, node)
        if v.names != h.names:
            self.oblige(st, False, "safety", "dtype-assignment-keeps-field-structure", node, fr)
            return
        self.bo_frame(base, st, fr, node, "dtype")
        st.put(base, h.replace(order=dict(v.order)))

    def bo_frame(self, ref, st, fr, node, what):
        h = st.get(ref)
        if fr.spec or h.fresh:
            return
        allowed = getattr(fr, "modifiable", None)
        if allowed is None:
            return
        # a field view shares its parent's buffer
        if ref.id in allowed or h.buf in allowed:
            return
        self.oblige(st, False, "frame", "write-to-%s-of-caller-array-not-in-modifies" % what, node, fr)

    def bo_subscript(self, base, h, idx, st, fr, node):
        if isinstance(idx, str):
            if h.names is None or idx not in h.names:
                self.oblige(st, False, "safety", "field-present:%s" % idx, node, fr)
                return self.kill(st, "missing field")
            return st.alloc(HBO(None, {None: h.order[idx]}, {None: h.raw[idx]}, fresh=h.fresh, buf=h.buf, parent=(base, idx)))
        raise Unsupported("subscript of a byte-order array with a non-name", node)

    # ---- ndarray methods on byte-order arrays
    def bo_copy(self, ref, st):
        h = st.get(ref)
        r = st.alloc(HBO(h.names, h.order, h.raw, fresh=True))
        st.get(r).buf = r.id
        return r

    def bo_ground(self, st, raw):
        """ground instances of the byte-order axioms for the term SW(raw) (keeps every query quantifier-free)"""
        for f in (SW(SW(raw)) == raw, VB(SW(raw)) == VL(raw), VL(SW(raw)) == VB(raw)):
            if not any(f.eq(g) for g in st.pc):
                st.pc.append(f)

    def bo_byteswap(self, ref, inplace, st, fr, node):
        h = st.get(ref)
        for k in h.keys():
            self.bo_ground(st, h.raw[k])
        raw = {k: z3.simplify(z3.If(h.order[k] == 3, h.raw[k], SW(h.raw[k]))) for k in h.keys()}
        if inplace is True:
            self.bo_frame(ref, st, fr, node, "bytes")
            st.put(ref, h.replace(raw=raw))
            if h.parent is not None:
                # a field view shares the parent's buffer: the parent sees the swapped bytes
                pref, fname = h.parent
                ph = st.get(pref)
                if isinstance(ph, HBO) and fname in ph.raw:
                    praw = dict(ph.raw)
                    praw[fname] = raw[None]
                    st.put(pref, ph.replace(raw=praw))
            return ref
        if inplace is False:
            r = st.alloc(HBO(h.names, h.order, raw, fresh=True))
            st.get(r).buf = r.id
            return r
        raise Unsupported("byteswap with a symbolic inplace flag (use contract variants)", node)

    # ---- spec vocabulary
    def _bo(self, v, st, node):
        if isinstance(v, HBO):
            return v
        if isinstance(v, BODType):
            return HBO(v.names, v.order, {k: z3.IntVal(0) for k in v.order})
        if isinstance(v, Ref) and isinstance(st.get(v), HBO):
            return st.get(v)
        raise SpecError("not a byte-order array")

    def p_builtin_bo_fields(self, args, kw, st, fr, node):
        return tuple(self._bo(args[0], st, node).keys())

    def p_builtin_bo_order(self, args, kw, st, fr, node):
        h = self._bo(args[0], st, node)
        return h.order[args[1] if len(args) > 1 else None]

    def p_builtin_bo_bytes(self, args, kw, st, fr, node):
        h = self._bo(args[0], st, node)
        return h.raw[args[1] if len(args) > 1 else None]

    def p_builtin_bo_swapped(self, args, kw, st, fr, node):
        """bytes of field f of a after numpy's own byteswap"""
        h = self._bo(args[0], st, node)
        k = args[1] if len(args) > 1 else None
        self.bo_ground(st, h.raw[k])
        return z3.If(h.order[k] == 3, h.raw[k], SW(h.raw[k]))

    def p_builtin_bo_value(self, args, kw, st, fr, node):
        h = self._bo(args[0], st, node)
        k = args[1] if len(args) > 1 else None
        return z3.If(h.order[k] == 3, h.raw[k], VAL(h.raw[k], declared_big(h.order[k])))

    def p_builtin_bo_big(self, args, kw, st, fr, node):
        h = self._bo(args[0], st, node)
        return declared_big(h.order[args[1] if len(args) > 1 else None])

    def p_builtin_bo_little(self, args, kw, st, fr, node):
        h = self._bo(args[0], st, node)
        return declared_little(h.order[args[1] if len(args) > 1 else None])

    def p_builtin_bo_native(self, args, kw, st, fr, node):
        h = self._bo(args[0], st, node)
        o = h.order[args[1] if len(args) > 1 else None]
        return z3.If(MACHINE_LITTLE, declared_little(o), declared_big(o))

    def p_builtin_bo_names(self, args, kw, st, fr, node):
        return self._bo(args[0], st, node).names

    def p_builtin_machine_little(self, args, kw, st, fr, node):
        return MACHINE_LITTLE
