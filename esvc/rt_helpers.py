"""importable helpers for bounded run-time domains (must be picklable by name)"""
import random
import time


def slow_square(x):
    time.sleep(random.Random(x).random() * 0.01)
    return x * x
