"""Expression evaluation (program mode and spec mode)."""
import ast
import os
from fractions import Fraction

import z3

from .values import (HViewList, HArr, HArr2, HList, HObj, HStruct, Ref, SliceV, Unsupported, SpecError, Func, Prim, Module,
                     ClassV, ExcClass, ExcValue, Bound, Opaque, SpecLambda, UNDEF, to_z3, truth, zand, zor, znot,
                     zimplies, kind_of, is_sym, as_const, py_floordiv, py_mod, SORTS)

EXC_NAMES = {"ValueError", "IndexError", "RuntimeError", "TypeError", "KeyError", "Exception", "IOError",
             "NotImplementedError", "ZeroDivisionError", "AttributeError", "OSError", "ImportError",
             "StopIteration", "FileNotFoundError", "AssertionError", "KeyboardInterrupt"}

SCALAR_KINDS = ("int", "real", "bool")


C_LIBM = {"sin": "sin", "cos": "cos", "sinh": "sinh", "fabs": "fabs", "log10": "log10", "log": "log", "exp": "exp",
          "asin": "arcsin", "acos": "arccos", "atan2": "arctan2", "tan": "tan", "pow": "power"}


class ExprMixin:
    # ------------------------------------------------------------ dispatcher
    def ev(self, node, st, fr):
        m = getattr(self, "ev_" + type(node).__name__, None)
        if m is None:
            raise Unsupported("expression " + type(node).__name__, node)
        yield from m(node, st, fr)

    def ev_many(self, nodes, st, fr, acc=None):
        acc = acc or []
        if not nodes:
            yield st, acc
            return
        for s1, v in self.ev(nodes[0], st, fr):
            yield from self.ev_many(nodes[1:], s1, fr, acc + [v])

    def kill(self, st, why=""):
        st.dead = True
        if os.environ.get("ESVC_DEBUG_KILL"):
            import traceback
            print("KILL:", why, "path=", "/".join(st.path[-4:]))
            traceback.print_stack(limit=6)
        return POISON

    def ev1(self, node, st, fr):
        """evaluate an expression that must not fork"""
        res = list(self.ev(node, st, fr))
        if len(res) != 1:
            if not res and st.dead:
                return POISON        # the path already failed an obligation; nothing more is evaluated on it
            raise Unsupported("forking expression in a non-forking position", node)
        return res[0][1]

    # ------------------------------------------------------------ leaves
    def ev_Constant(self, node, st, fr):
        v = node.value
        if isinstance(v, (int, float, str, bool)) or v is None:
            yield st, v
        elif isinstance(v, bytes):
            yield st, Opaque("bytes")
        else:
            raise Unsupported("constant %r" % (v,), node)

    def ev_Name(self, node, st, fr):
        yield st, self.lookup(node.id, st, fr, node)

    def lookup(self, name, st, fr, node=None):
        if name in fr.qvars:
            return fr.qvars[name]
        if name in st.env:
            v = st.env[name]
            if v is UNDEF:
                if not fr.spec:
                    self.oblige(st, False, "safety", "defined:%s" % name, node, fr)
                return self.kill(st, "use of unassigned local " + name)
            return v
        if fr.spec and name == "result":
            return fr.result
        c = fr.contract
        if c is not None and name in c.globals:
            g = c.globals[name]
            return g
        if fr.func is not None and fr.func.closure and name in fr.func.closure:
            return fr.func.closure[name]
        if fr.spec and name in self.spec_asts:
            return Func("<spec>", name, self.spec_asts[name])
        v = self.builtin(name)
        if v is not None:
            return v
        if fr.module and fr.module != "<spec>":
            g = self.module_global(fr.module, name)
            if isinstance(g, ModuleExpr):
                g = self.eval_module_expr(g, st, fr)
            if g is not UNDEF:
                return g
            cmod = self.idx.extra.get(fr.module)
            if cmod is not None and getattr(cmod, "_path", "").endswith((".c", ".cc")):
                # a translated C module: libm by name, other functions of the same file on demand
                if name in C_LIBM:
                    return Prim("numpy." + C_LIBM[name])
                if name in ("PyArray_ZEROS",):
                    return Prim("builtin." + name)
                g = self.load_c_sibling(fr.module, cmod, name)
                if g is not None:
                    return g
                # a function of another translation unit that is under contract (linked by name, as the C linker does)
                for cname, cc in self.contracts.items():
                    base = cname.split("#")[0]
                    if cc.lang == "c" and base.endswith("." + name):
                        from . import cfront
                        m2, q2, node2, _ = cfront.load_c_function(self.idx, cc)
                        from .repoindex import label_loops
                        if not hasattr(node2, "_labelled"):
                            label_loops(node2)
                            node2._labelled = True
                        return Func(m2, q2, node2)
        if fr.spec and fr.outer_module:
            g = self.module_global(fr.outer_module, name)
            if g is not UNDEF:
                return g
        fnode = getattr(fr.func, "node", None) if getattr(fr, "func", None) is not None else None
        if fnode is not None and not fr.spec:
            # a local of the function (assigned somewhere in its body) read on a path that never assigned it:
            # Python raises UnboundLocalError - a definite-assignment obligation, not a limit of the generator
            assigned = getattr(fnode, "_assigned_names", None)
            if assigned is None:
                assigned = set()
                for sub in ast.walk(fnode):
                    if isinstance(sub, ast.Name) and isinstance(sub.ctx, (ast.Store, ast.Del)):
                        assigned.add(sub.id)
                fnode._assigned_names = assigned
            if name in assigned:
                self.oblige(st, False, "safety", "local-assigned-before-use:%s" % name, node, fr)
                return self.kill(st, "use of unassigned local " + name)
        raise Unsupported("unknown name %s" % name, node)

    BUILTINS = {"len", "range", "int", "float", "abs", "min", "max", "isinstance", "enumerate", "zip", "list", "tuple",
                "str", "slice", "print", "all", "any", "sum", "divmod", "bool", "sorted", "hasattr", "getattr", "iter",
                "next", "repr", "type", "round", "map", "dict", "set", "id", "reversed", "pow", "callable", "open",
                "super", "object", "bytes", "ndarray", "copy", "eval", "format", "isstring", "c_trunc", "c_div", "c_mod"}
    SPEC_BUILTINS = {"old", "implies", "org", "prov", "upd", "permutation", "is_sorted", "forall", "exists", "ite",
                     "real", "unit", "fresh", "same_object", "shares_buffer", "defined", "is_none", "count_true",
                     "SUM", "sqrt", "field", "arr_eq", "abs_", "floor", "is_int", "shape0", "shape1", "nfields",
                     "isarray", "ufn", "trunc", "apply", "pairs_kept", "nyielded", "consumed", "nitems", "item",
                     "yields_items_of", "mapped", "induct", "assume_axiom", "chunk_off", "defined_len", "is_permutation",
                     "bo_fields", "bo_order", "bo_bytes", "bo_swapped", "bo_value", "bo_big", "bo_little", "bo_native",
                     "bo_names", "machine_little", "approx", "psum", "gl_nodes", "gl_weights", "field_names", "field_type", "field_subshape",
                     "path_exists", "path_expanded"}

    def eval_module_expr(self, m, st, fr):
        """a module-level constant defined by an expression (PI = math.pi; D2R = PI / 180.0): evaluated in the module's scope"""
        import copy as _copy
        f2 = _copy.copy(fr)
        f2.module = m.mod
        f2.qvars = {}
        f2.func = None
        saved = st.env
        st.env = {}
        try:
            res = list(self.ev(m.node, st, f2))
        except Unsupported:
            return m
        finally:
            st.env = saved
        if len(res) != 1:
            return m
        return res[0][1]

    def load_c_sibling(self, modname, cmod, name):
        from . import cfront
        import os
        try:
            decl = cfront.clang_ast(cmod._path, name)
        except Unsupported:
            return None
        fn = cfront.CTranslator(decl, cmod._path).function()
        from .repoindex import label_loops
        label_loops(fn)
        fn._labelled = True
        cmod.body.append(fn)
        return Func(modname, name, fn)

    def builtin(self, name):
        if name in EXC_NAMES:
            return ExcClass(name)
        if name in ("True", "False", "None"):
            return {"True": True, "False": False, "None": None}[name]
        if name in self.BUILTINS or name in self.SPEC_BUILTINS:
            return Prim("builtin." + name)
        return None

    def module_global(self, mod, name):
        active = self.__dict__.setdefault("_mg_active", set())
        if (mod, name) in active:
            return UNDEF            # import cycle (package re-exporting a module that imports from the package)
        active.add((mod, name))
        try:
            return self._module_global(mod, name)
        finally:
            active.discard((mod, name))

    def _module_global(self, mod, name):
        node = self.idx.module_global(mod, name)
        if node is None:
            # `from .x import *`
            try:
                body = self.idx.module(mod).body
            except KeyError:
                return UNDEF
            for st_ in body:
                if isinstance(st_, ast.ImportFrom) and any(a.name == "*" for a in st_.names):
                    src = st_.module or ""
                    if st_.level:
                        is_pkg = str(getattr(self.idx.module(mod), "_path", "")).endswith("__init__.py")
                        parts = mod.split(".")
                        drop = st_.level - 1 if is_pkg else st_.level
                        base = parts[:len(parts) - drop] if drop else parts
                        src = ".".join(base + ([st_.module] if st_.module else []))
                    if src.startswith("esutil") and src != mod:
                        try:
                            self.idx.module(src)
                        except KeyError:
                            continue
                        g = self.module_global(src, name)
                        if g is not UNDEF:
                            return g
            return UNDEF
        if isinstance(node, ast.FunctionDef):
            return Func(mod, name, node)
        if isinstance(node, ast.ClassDef):
            return ClassV(mod, name, node)
        if isinstance(node, ast.Import):
            for a in node.names:
                if (a.asname or a.name.split(".")[0]) == name:
                    return Module(a.name if a.asname else a.name.split(".")[0])
        if isinstance(node, ast.ImportFrom):
            for a in node.names:
                if (a.asname or a.name) == name:
                    src = node.module or ""
                    if node.level:
                        is_pkg = str(getattr(self.idx.module(mod), "_path", "")).endswith("__init__.py")
                        parts = mod.split(".")
                        drop = node.level - 1 if is_pkg else node.level
                        base = parts[:len(parts) - drop] if drop else parts
                        src = ".".join(base + ([node.module] if node.module else []))
                    return self.import_from(src, a.name)
        if isinstance(node, ast.Assign):
            # module-level constant
            try:
                val = ast.literal_eval(node.value)
                if isinstance(val, dict):
                    # a table filled by top-level subscript assignments with literal keys and values
                    #   T = {};  T["k"] = (1, 0);  ...
                    # (entries added by other means, e.g. in a loop, are not seen: a lookup of such a key is unsupported)
                    for st_ in self.idx.module(mod).body:
                        if isinstance(st_, ast.Assign) and len(st_.targets) == 1 and isinstance(st_.targets[0], ast.Subscript) \
                                and isinstance(st_.targets[0].value, ast.Name) and st_.targets[0].value.id == name:
                            try:
                                val[ast.literal_eval(st_.targets[0].slice)] = ast.literal_eval(st_.value)
                            except Exception:
                                pass
                return val
            except Exception:
                pass
            if isinstance(node.value, ast.Name):
                return self.module_global(mod, node.value.id)
            if isinstance(node.value, ast.Attribute) or isinstance(node.value, ast.BinOp) or isinstance(node.value, ast.Call):
                return ModuleExpr(mod, node.value)
        return UNDEF

    def import_from(self, src, name):
        if src.startswith("numpy") or src in ("sys", "os", "math", "copy", "time", "pprint", "scipy"):
            return Prim(src + "." + name) if not src.startswith("numpy") else Prim("numpy." + name)
        if src.startswith("esutil"):
            try:
                self.idx.module(src + "." + name)       # a sub-module / sub-package of a package
                return Module(src + "." + name)
            except KeyError:
                pass
            try:
                self.idx.module(src)
            except KeyError:
                try:
                    self.idx.module(src + "." + name)
                    return Module(src + "." + name)
                except KeyError:
                    return Opaque("import:%s.%s" % (src, name))
            g = self.module_global(src, name)
            if g is UNDEF:
                try:
                    self.idx.module(src + "." + name)
                    return Module(src + "." + name)
                except KeyError:
                    return Opaque("import:%s.%s" % (src, name))
            return g
        return Prim(src + "." + name)

    # ------------------------------------------------------------ operators
    def ev_BinOp(self, node, st, fr):
        for s1, a in self.ev(node.left, st, fr):
            for s2, b in self.ev(node.right, s1, fr):
                yield s2, self.binop(node.op, a, b, s2, fr, node)

    def is_arr(self, v, st):
        return isinstance(v, Ref) and isinstance(st.heap.get(v.id), (HArr, HArr2))

    def binop(self, op, a, b, st, fr, node=None):
        opn = type(op).__name__
        if isinstance(a, Poison) or isinstance(b, Poison):
            return POISON
        if isinstance(a, ModuleExprT) or isinstance(b, ModuleExprT):
            raise Unsupported("module expression in arithmetic", node)
        if self.is_arr(a, st) or self.is_arr(b, st):
            ha = st.get(a) if isinstance(a, Ref) else None
            hb = st.get(b) if isinstance(b, Ref) else None
            lista = ha is not None and getattr(ha, "islist", False)
            listb = hb is not None and getattr(hb, "islist", False)
            if (lista or listb) and opn in ("Add", "Mult"):
                return self.list_arith(opn, a, b, st, fr, node)
            return self.np_binop(opn, a, b, st, fr, node)
        if isinstance(a, Ref) or isinstance(b, Ref):
            return self.list_arith(opn, a, b, st, fr, node)
        if isinstance(a, str) and isinstance(b, str) and opn == "Add":
            return a + b
        if isinstance(a, str) and opn == "Mod":
            return Opaque("formatted-string")
        if opn == "Mult" and (isinstance(a, (str, Opaque)) or isinstance(b, (str, Opaque))):
            return Opaque("repeated-string")
        if isinstance(a, tuple) and isinstance(b, tuple) and opn == "Add":
            return a + b
        if isinstance(a, Opaque) or isinstance(b, Opaque):
            if opn in ("Add", "Mod"):
                return Opaque("str-expr")
            raise Unsupported("arithmetic on opaque value", node)
        return self.scalar_binop(opn, a, b, st, fr, node)

    def scalar_binop(self, opn, a, b, st, fr, node=None):
        ka, kb = kind_of(a), kind_of(b)
        if ka == "str" or kb == "str":
            if opn == "Add" and isinstance(a, str) and isinstance(b, str):
                return a + b
            if opn == "Add" and ka == "str" and kb == "str":
                return z3.Concat(to_z3(a), to_z3(b))
            if opn == "Mod":
                return Opaque("formatted-string")
            raise Unsupported("string operator " + opn, node)
        if ka not in SCALAR_KINDS or kb not in SCALAR_KINDS:
            if not fr.spec:
                if ka == "none" or kb == "none":
                    self.oblige(st, False, "safety", "operand-not-None", node, fr)
                    return self.kill(st, "None operand")
            raise Unsupported("operator %s on %s,%s" % (opn, ka, kb), node)
        if not is_sym(a) and not is_sym(b):
            # concrete
            try:
                if isinstance(a, bool):
                    a = int(a)
                if isinstance(b, bool):
                    b = int(b)
                if opn == "Add":
                    return a + b
                if opn == "Sub":
                    return a - b
                if opn == "Mult":
                    return a * b
                if opn == "FloorDiv" and ka == "int" and kb == "int":
                    if b == 0:
                        raise ZeroDivisionError
                    return a // b
                if opn == "Mod" and ka == "int" and kb == "int":
                    if b == 0:
                        raise ZeroDivisionError
                    return a % b
                if opn == "Pow" and ka == "int" and kb == "int" and b >= 0:
                    return a ** b
                if opn == "Div":
                    if b == 0:
                        raise ZeroDivisionError
                    return Fraction(a) / Fraction(b) if not isinstance(a, float) and not isinstance(b, float) \
                        else Fraction(a) / Fraction(b)
            except ZeroDivisionError:
                if not fr.spec:
                    self.oblige(st, False, "safety", "div-by-zero", node, fr)
                return self.kill(st, "division by zero")
        real = ka == "real" or kb == "real" or opn == "Div"
        want = "real" if real else "int"
        x, y = to_z3(a, want), to_z3(b, want)
        if opn == "Add":
            return x + y
        if opn == "Sub":
            return x - y
        if opn == "Mult":
            if "mul" in getattr(self, "abstract", ()) and real and as_const(x) is None and as_const(y) is None:
                # uninterpreted product with its sign rules (ground, linear): enough for "which formula is computed"
                from .nplib import ufunc, R
                f = ufunc("RMUL", R, R, R)
                r = f(x, y)
                for fact in (f(y, x) == r,
                             z3.Implies(z3.Or(z3.And(x > 0, y > 0), z3.And(x < 0, y < 0)), r > 0),
                             z3.Implies(z3.Or(z3.And(x > 0, y < 0), z3.And(x < 0, y > 0)), r < 0),
                             z3.Implies(z3.Or(x == 0, y == 0), r == 0)):
                    if not any(fact.eq(g) for g in st.pc):
                        st.pc.append(fact)
                return r
            return x * y
        if opn == "Div":
            if not fr.spec and not getattr(self, "total_fdiv", False):
                self.oblige(st, y != 0, "safety", "div-by-zero", node, fr)
            if "div" in getattr(self, "abstract", ()) and as_const(y) is None:
                from .nplib import ufunc, R
                return ufunc("RDIV", R, R, R)(x, y)
            return x / y
        if opn == "FloorDiv":
            if not fr.spec:
                self.oblige(st, y != 0, "safety", "div-by-zero", node, fr)
            if real:
                return z3.ToReal(z3.ToInt(x / y))
            return py_floordiv(x, y)
        if opn == "Mod":
            if not fr.spec:
                self.oblige(st, y != 0, "safety", "div-by-zero", node, fr)
            if real:
                q = z3.ToReal(z3.ToInt(x / y))   # floor for y>0
                bc = as_const(y)
                if bc is None:
                    # modulus known only symbolically (2*pi): the result is named by an uninterpreted function with the
                    # defining facts of Python's float % for a positive modulus
                    from .nplib import ufunc, R
                    r_ = ufunc("RMOD", R, R, R)(x, y)
                    k_ = ufunc("RMODQ", R, R, z3.IntSort())(x, y)
                    fact = z3.Implies(y > 0, z3.And(r_ >= 0, r_ < y, x == y * z3.ToReal(k_) + r_))
                    if not any(fact.eq(g) for g in st.pc):
                        st.pc.append(fact)
                    return r_
                if bc <= 0:
                    raise Unsupported("real % with a non-positive constant modulus", node)
                return x - y * q
            return py_mod(x, y)
        if opn == "Pow":
            bc = as_const(y)
            if bc is not None and bc == int(bc) and 0 <= bc <= 8:
                r = z3.RealVal(1) if real else z3.IntVal(1)
                for _ in range(int(bc)):
                    r = r * x
                return r
            if bc is not None and bc == Fraction(1, 2):
                return self.ufun("sqrt", [x], st, fr, node)
            return self.ufun("pow", [to_z3(x, "real"), to_z3(y, "real")], st, fr, node)
        if opn in ("BitAnd", "BitOr") and ka == "bool" and kb == "bool":
            return z3.And(to_z3(a), to_z3(b)) if opn == "BitAnd" else z3.Or(to_z3(a), to_z3(b))
        raise Unsupported("operator " + opn, node)

    def ev_UnaryOp(self, node, st, fr):
        for s1, a in self.ev(node.operand, st, fr):
            opn = type(node.op).__name__
            if isinstance(a, Poison):
                yield s1, POISON
                continue
            if opn == "Not":
                if isinstance(a, Ref):
                    h = s1.get(a)
                    if isinstance(h, HList):
                        yield s1, len(h.items) == 0
                        continue
                    if isinstance(h, HArr) and h.islist:
                        yield s1, to_z3(h.n) == 0
                        continue
                    if isinstance(h, HObj):
                        yield s1, False
                        continue
                    raise Unsupported("truth value of array", node)
                yield s1, znot(truth(a))
            elif opn == "USub":
                if self.is_arr(a, s1):
                    yield s1, self.np_binop("Sub", 0, a, s1, fr, node)
                elif is_sym(a):
                    yield s1, -a
                else:
                    yield s1, -a
            elif opn == "UAdd":
                yield s1, a
            elif opn == "Invert":
                if kind_of(a) == "bool":
                    yield s1, znot(a)
                elif self.is_arr(a, s1):
                    yield s1, self.np_unary("invert", a, s1, fr, node)
                else:
                    raise Unsupported("~ on non-bool", node)
            else:
                raise Unsupported("unary " + opn, node)

    def ev_BoolOp(self, node, st, fr):
        isand = isinstance(node.op, ast.And)
        yield from self._boolop(node.values, isand, st, fr, node)

    def _boolop(self, values, isand, st, fr, node):
        if len(values) == 1:
            yield from self.ev(values[0], st, fr)
            return
        for s1, a in self.ev(values[0], st, fr):
            if isinstance(a, Ref) and isinstance(s1.get(a), (HList,)):
                ta = len(s1.get(a).items) > 0
            elif isinstance(a, Ref):
                ta = True if isinstance(s1.get(a), HObj) else None
                if ta is None:
                    raise Unsupported("truth value of array in and/or", node)
            else:
                ta = truth(a)
            if isinstance(ta, bool):
                if ta == isand:
                    yield from self._boolop(values[1:], isand, s1, fr, node)
                else:
                    yield s1, a
                continue
            # symbolic left operand
            guard = ta if isand else znot(ta)
            if fr.spec:
                for s2, b in self._boolop(values[1:], isand, s1, fr, node):
                    tb = to_z3(b, "bool") if not isinstance(b, bool) else b
                    yield s2, (zand(ta, tb) if isand else zor(ta, tb))
                continue
            s2 = s1.fork()
            s2.pc.append(to_z3(guard))
            rest = list(self._boolop(values[1:], isand, s2, fr, node))
            if len(rest) == 1 and kind_of(rest[0][1]) == "bool" and kind_of(a) == "bool" \
                    and rest[0][0].heap.keys() == s2.heap.keys():
                b = rest[0][1]
                yield s1, (zand(ta, b) if isand else zor(ta, b))
            else:
                # general case: fork
                if self.feasible(s1, znot(guard)):
                    s3 = s1.fork()
                    s3.pc.append(to_z3(znot(guard)))
                    yield s3, a
                for s4, b in rest:
                    yield s4, b

    def ev_Compare(self, node, st, fr):
        def rec(s, left, k):
            if k == len(node.ops):
                yield s, True
                return
            for s1, right in self.ev(node.comparators[k], s, fr):
                c = self.compare(node.ops[k], left, right, s1, fr, node)
                if c is False:
                    yield s1, False
                    continue
                for s2, r in rec(s1, right, k + 1):
                    yield s2, zand(c, r)
        for s0, left in self.ev(node.left, st, fr):
            yield from rec(s0, left, 0)

    def compare(self, op, a, b, st, fr, node=None):
        opn = type(op).__name__
        if isinstance(a, Poison) or isinstance(b, Poison):
            return False
        if opn in ("Is", "IsNot"):
            r = self.identical(a, b, st, node)
            return r if opn == "Is" else znot(r)
        if opn in ("In", "NotIn"):
            r = self.contains(b, a, st, fr, node)
            return r if opn == "In" else znot(r)
        from .values import FieldType
        if isinstance(a, FieldType) and isinstance(b, FieldType) and opn in ("Eq", "NotEq"):
            eq = (a.code == b.code) if a.code.sort() == b.code.sort() else False
            return eq if opn == "Eq" else znot(eq)
        from .prims import StrArr, BoolTuple
        if isinstance(a, StrArr) or isinstance(b, StrArr):
            arr_, other = (a, b) if isinstance(a, StrArr) else (b, a)
            if opn in ("Eq", "NotEq") and isinstance(other, str):
                return BoolTuple([(x == other) == (opn == "Eq") for x in arr_.items])
            raise Unsupported("comparison on an array of names", node)
        from .bomodel import OrderV, ORDER_CODES
        if isinstance(a, OrderV) or isinstance(b, OrderV):
            if opn not in ("Eq", "NotEq"):
                raise Unsupported("ordering comparison of byte-order characters", node)
            if isinstance(a, OrderV) and isinstance(b, OrderV):
                eq = a.code == b.code
            else:
                o, c = (a, b) if isinstance(a, OrderV) else (b, a)
                if not isinstance(c, str):
                    raise Unsupported("byte-order character compared with a non-string", node)
                eq = (o.code == ORDER_CODES[c]) if c in ORDER_CODES else False
            return eq if opn == "Eq" else znot(eq)
        if self.is_arr(a, st) or self.is_arr(b, st):
            return self.np_binop(opn, a, b, st, fr, node)
        ka, kb = kind_of(a), kind_of(b)
        if ka == "none" or kb == "none":
            if opn == "Eq":
                return ka == kb
            if opn == "NotEq":
                return ka != kb
            if not fr.spec:
                self.oblige(st, False, "safety", "operand-not-None", node, fr)
            return self.kill(st, "ordering comparison with None")
        if ka == "str" and kb == "str":
            if not is_sym(a) and not is_sym(b):
                return {"Eq": a == b, "NotEq": a != b, "Lt": a < b, "LtE": a <= b, "Gt": a > b, "GtE": a >= b}[opn]
            x, y = to_z3(a), to_z3(b)
            if opn == "Eq":
                return x == y
            if opn == "NotEq":
                return x != y
            raise Unsupported("string ordering", node)
        if ka == "tuple" and kb == "tuple" and opn in ("Eq", "NotEq"):
            if len(a) != len(b):
                return opn == "NotEq"
            eqs = zand(*[self.compare(ast.Eq(), x, y, st, fr, node) for x, y in zip(a, b)])
            return eqs if opn == "Eq" else znot(eqs)
        if (ka == "str") != (kb == "str") and opn in ("Eq", "NotEq"):
            if isinstance(a, Opaque) or isinstance(b, Opaque):
                raise Unsupported("comparison with opaque value", node)
            return opn == "NotEq"
        if isinstance(a, Opaque) or isinstance(b, Opaque):
            if opn in ("Eq", "NotEq") and isinstance(a, Opaque) and isinstance(b, Opaque) and a.term is not None and b.term is not None:
                return (a.term == b.term) if opn == "Eq" else (a.term != b.term)
            raise Unsupported("comparison with opaque value", node)
        from .nplib import DTypeV
        if isinstance(a, DTypeV) and isinstance(b, DTypeV) and opn in ("Eq", "NotEq"):
            if a.tag != b.tag:
                return opn == "NotEq"
            if isinstance(a.h, HStruct) and isinstance(b.h, HStruct):
                # numpy: structured dtypes are equal iff same field names in the same order with equal types and shapes
                if tuple(a.h.fields) != tuple(b.h.fields):
                    return opn == "NotEq"
                conds = []
                for nm in a.h.fields:
                    fa, fb = a.h.ftype.get(nm), b.h.ftype.get(nm)
                    if fa is None or fb is None:
                        raise Unsupported("comparison of structured dtypes without type codes", node)
                    conds.append(self.compare(ast.Eq(), fa, fb, st, fr, node))
                    conds.append(to_z3(a.h.fshape.get(nm, 0)) == to_z3(b.h.fshape.get(nm, 0)))
                eqs = zand(*conds)
                return eqs if opn == "Eq" else znot(eqs)
            if a.did is None or b.did is None:
                raise Unsupported("comparison of structured dtypes", node)
            eq = z3.simplify(a.did == b.did)
            eq = True if z3.is_true(eq) else eq
            return eq if opn == "Eq" else znot(eq)
        if ka not in SCALAR_KINDS or kb not in SCALAR_KINDS:
            if opn in ("Eq", "NotEq"):
                same = (a is b) or (isinstance(a, Ref) and a == b)
                if isinstance(a, ExcClass) and isinstance(b, ExcClass):
                    same = a.name == b.name
                return same if opn == "Eq" else not same
            raise Unsupported("comparison %s on %s,%s" % (opn, ka, kb), node)
        if not is_sym(a) and not is_sym(b):
            return {"Eq": a == b, "NotEq": a != b, "Lt": a < b, "LtE": a <= b, "Gt": a > b, "GtE": a >= b}[opn]
        if ka == "bool" and kb == "bool":
            x, y = to_z3(a), to_z3(b)
            if opn == "Eq":
                return x == y
            if opn == "NotEq":
                return x != y
        want = "real" if "real" in (ka, kb) else "int"
        x, y = to_z3(a, want), to_z3(b, want)
        return {"Eq": x == y, "NotEq": x != y, "Lt": x < y, "LtE": x <= y, "Gt": x > y, "GtE": x >= y}[opn]

    def identical(self, a, b, st, node=None):
        from .bomodel import BaseOf
        if isinstance(a, BaseOf) or isinstance(b, BaseOf):
            n = self.__dict__.setdefault("_base_is", [0])
            n[0] += 1
            return z3.Bool("base-is!%d" % n[0])
        if a is None or b is None:
            return a is None and b is None
        if isinstance(a, Ref) and isinstance(b, Ref):
            return a == b
        if isinstance(a, bool) and isinstance(b, bool):
            return a == b
        if isinstance(a, Ref) != isinstance(b, Ref):
            return False
        if kind_of(a) == "bool" and kind_of(b) == "bool":
            return to_z3(a) == to_z3(b)
        raise Unsupported("'is' between %s and %s" % (kind_of(a), kind_of(b)), node)

    def contains(self, cont, item, st, fr, node=None):
        if isinstance(cont, (tuple, list)):
            return zor(*[self.compare(ast.Eq(), item, x, st, fr, node) for x in cont])
        if isinstance(cont, str) and isinstance(item, str):
            return item in cont
        if isinstance(cont, Ref):
            h = st.get(cont)
            if isinstance(h, HList):
                return zor(*[self.compare(ast.Eq(), item, x, st, fr, node) for x in h.items])
            if isinstance(h, HObj):
                if isinstance(item, str):
                    return item in h.items
                raise Unsupported("symbolic key membership", node)
            if isinstance(h, HStruct):
                if isinstance(item, str):
                    return item in h.fields
            if isinstance(h, HArr):
                i = z3.Int("k!in%d" % len(st.pc))
                n, arr = self.arr_term(st, cont)
                return z3.Exists([i], z3.And(i >= 0, i < n, arr[i] == to_z3(item, h.kind)))
        if isinstance(cont, dict):
            return item in cont
        raise Unsupported("'in' on %s" % kind_of(cont), node)

    def ev_IfExp(self, node, st, fr):
        for s1, c in self.ev(node.test, st, fr):
            t = self.truth_of(c, s1, node)
            if isinstance(t, bool):
                yield from self.ev(node.body if t else node.orelse, s1, fr)
                continue
            if fr.spec:
                for s2, a in self.ev(node.body, s1, fr):
                    for s3, b in self.ev(node.orelse, s2, fr):
                        yield s3, self.ite(t, a, b, node)
                continue
            if self.feasible(s1, t):
                s2 = s1.fork()
                s2.pc.append(to_z3(t))
                s2.path.append("ifexp@%d:T" % node.lineno)
                yield from self.ev(node.body, s2, fr)
            if self.feasible(s1, znot(t)):
                s3 = s1.fork()
                s3.pc.append(to_z3(znot(t)))
                s3.path.append("ifexp@%d:F" % node.lineno)
                yield from self.ev(node.orelse, s3, fr)

    def ite(self, c, a, b, node=None):
        ka, kb = kind_of(a), kind_of(b)
        if ka in SCALAR_KINDS and kb in SCALAR_KINDS:
            want = "real" if "real" in (ka, kb) else ka
            return z3.If(to_z3(c), to_z3(a, want), to_z3(b, want))
        if ka == "z3array" and kb == "z3array":
            return z3.If(to_z3(c), a, b)
        raise Unsupported("ite over %s/%s" % (ka, kb), node)

    def truth_of(self, v, st, node=None):
        if isinstance(v, Poison):
            return False
        if isinstance(v, Ref):
            h = st.get(v)
            if isinstance(h, HList):
                return len(h.items) > 0
            if isinstance(h, HArr) and h.islist:
                c = as_const(to_z3(h.n))
                return (c > 0) if c is not None else (to_z3(h.n) > 0)
            if isinstance(h, HObj):
                if h.cls in ("dict",):
                    return len(h.items) > 0
                return True
            if isinstance(h, HArr):
                c = as_const(to_z3(h.n))
                if c == 1:
                    return truth(self.arr_get(st, v, 0))
                raise Unsupported("truth value of an array", node)
            raise Unsupported("truth value of heap object", node)
        return truth(v)

    # ------------------------------------------------------------ containers
    def ev_Tuple(self, node, st, fr):
        for s1, vs in self.ev_many(node.elts, st, fr):
            yield s1, tuple(vs)

    def ev_List(self, node, st, fr):
        for s1, vs in self.ev_many(node.elts, st, fr):
            yield s1, s1.alloc(HList(vs, fresh=True))

    def ev_Dict(self, node, st, fr):
        for s1, ks in self.ev_many([k for k in node.keys], st, fr):
            for s2, vs in self.ev_many(node.values, s1, fr):
                if not all(isinstance(k, (str, int)) for k in ks):
                    raise Unsupported("dict literal with non-constant keys", node)
                yield s2, s2.alloc(HObj("dict", {}, items=dict(zip(ks, vs))))

    def ev_Slice(self, node, st, fr):
        parts = [node.lower, node.upper, node.step]
        def rec(s, k, acc):
            if k == 3:
                yield s, SliceV(*acc)
                return
            if parts[k] is None:
                yield from rec(s, k + 1, acc + [None])
            else:
                for s1, v in self.ev(parts[k], s, fr):
                    yield from rec(s1, k + 1, acc + [v])
        yield from rec(st, 0, [])

    def ev_JoinedStr(self, node, st, fr):
        # f-string: argument expressions are still evaluated for definedness
        s = st
        for v in node.values:
            if isinstance(v, ast.FormattedValue):
                res = list(self.ev(v.value, s, fr))
                if len(res) != 1:
                    raise Unsupported("forking f-string", node)
                s = res[0][0]
        yield s, Opaque("fstring")

    def ev_Lambda(self, node, st, fr):
        yield st, SpecLambda(node, st, fr)

    def ev_Starred(self, node, st, fr):
        raise Unsupported("starred expression", node)

    def ev_Attribute(self, node, st, fr):
        for s1, v in self.ev(node.value, st, fr):
            yield s1, self.getattr(v, node.attr, s1, fr, node)

    def getattr(self, v, attr, st, fr, node=None):
        if isinstance(v, Poison):
            return POISON
        if isinstance(v, Module):
            return self.module_attr(v, attr, node)
        if isinstance(v, SliceV):
            return getattr(v, attr)
        if isinstance(v, Ref):
            h = st.get(v)
            if isinstance(h, HObj):
                if attr in h.fields:
                    val = h.fields[attr]
                    if val is UNDEF:
                        self.oblige(st, False, "safety", "attribute-defined:%s" % attr, node, fr)
                        return self.kill(st, "unset attribute")
                    return val
                # method?
                if fr.module or h.cls:
                    m = self.find_method(h.cls, attr, fr)
                    if m is not None:
                        return Bound(v, m)
                    for cname, cc in self.contracts.items():
                        if cc.assumed and cname.endswith(".%s.%s" % (h.cls, attr)):
                            mod_, _, qual_ = cname.rpartition("." + h.cls + ".")
                            return Bound(v, Func(mod_, h.cls + "." + attr, None))
                    # method of an extension type implemented in C under contract: <Class>_<method>
                    for cname, cc in self.contracts.items():
                        if cc.lang == "c" and cname.split("#")[0].endswith(".%s_%s" % (h.cls, attr)):
                            from . import cfront
                            from .repoindex import label_loops
                            m2, q2, node2, _ = cfront.load_c_function(self.idx, cc)
                            if not hasattr(node2, "_labelled"):
                                label_loops(node2)
                                node2._labelled = True
                            return Bound(v, Func(m2, q2, node2))
                if h.cls == "dict" or attr in ("get", "clear", "keys", "items", "update"):
                    return Bound(v, Prim("dict." + attr))
                raise Unsupported("attribute %s of %s" % (attr, h.cls), node)
            if isinstance(h, (HArr, HArr2, HStruct)):
                return self.arr_attr(v, h, attr, st, fr, node)
            if type(h).__name__ == "HBO":
                return self.bo_attr(v, h, attr, st, fr, node)
            if isinstance(h, (HList, HViewList)):
                return Bound(v, Prim("list." + attr))
        from .nplib import DTypeV
        from .bomodel import BODType, OrderV
        if isinstance(v, BODType):
            return self.bodtype_attr(v, attr, st, fr, node)
        if isinstance(v, DTypeV) and attr == "descr" and isinstance(v.h, HStruct):
            # numpy's descr of a packed structured dtype: one (name, typestr, subshape) tuple per field, in field order
            from .values import FieldType
            items = []
            for nm in v.h.fields:
                ft = v.h.ftype.get(nm) or FieldType(z3.Int("type!%s!%d" % (nm, id(v.h) % 100000)), st.get(v.h.fields[nm]).kind)
                items.append((nm, ft, v.h.fshape.get(nm, 0)))
            return st.alloc(HList(items))
        if isinstance(v, DTypeV):
            if attr == "names":
                return v.names
            if attr == "fields":
                return None if v.names is None else {n: True for n in v.names}
            raise Unsupported("dtype attribute ." + attr, node)
        from .prims import StrArr
        if isinstance(v, StrArr):
            if attr == "size":
                return len(v.items)
            raise Unsupported("attribute .%s of an array of names" % attr, node)
        if isinstance(v, Prim):
            return Prim(v.name + "." + attr)
        if isinstance(v, ModuleExprT):
            raise Unsupported("attribute of module-level expression", node)
        if isinstance(v, str):
            return Bound(v, Prim("str." + attr))
        if isinstance(v, Opaque):
            return Opaque(v.tag + "." + attr)
        if kind_of(v) in SCALAR_KINDS:
            if attr in ("size",):
                return 1
            if attr == "real":
                return v
            return Bound(v, Prim("scalar." + attr))
        if isinstance(v, ClassV):
            m, _ = self.idx.method(v.module, v.name, attr)
            if m is not None:
                return Func(v.module, v.name + "." + attr, m, cls=v.name)
        raise Unsupported("attribute .%s on %s" % (attr, kind_of(v)), node)

    def find_method(self, clsname, attr, fr):
        # class is looked up in the current module, then in modules of known contracts
        mods = []
        if fr.module and fr.module != "<spec>":
            mods.append(fr.module)
        if getattr(fr, "outer_module", None):
            mods.append(fr.outer_module)
        for cname, c in self.contracts.items():
            if ("." + clsname + ".") in cname:
                try:
                    m, _rest = self.idx.split_name(cname)
                    if m not in mods:
                        mods.append(m)
                except KeyError:
                    pass
        for mod in mods:
            try:
                m, owner = self.idx.method(mod, clsname, attr)
            except KeyError:
                continue
            if m is not None:
                return Func(mod, owner + "." + attr, m, cls=owner)
        return None

    def module_attr(self, mod, attr, node=None):
        name = mod.name
        if attr == "pi" and name in ("numpy", "np", "math"):
            from .nplib import PI
            return PI
        if name in ("numpy", "np"):
            if attr == "little_endian":
                from .bomodel import MACHINE_LITTLE
                return MACHINE_LITTLE
            if attr in ("random", "linalg", "ma", "polynomial"):
                return Module("numpy." + attr)
            return Prim("numpy." + attr)
        if name.startswith("numpy.") or name in ("math", "sys", "os", "time", "copy", "pprint", "scipy", "warnings"):
            return Prim(name + "." + attr)
        if name.startswith("esutil") or name in self.idx.extra:
            try:
                self.idx.module(name)
                g = self.module_global(name, attr)
                if g is not UNDEF:
                    return g
            except KeyError:
                pass
            try:
                self.idx.module(name + "." + attr)
                return Module(name + "." + attr)
            except KeyError:
                pass
            return Prim(name + "." + attr)
        return Prim(name + "." + attr)

    # ------------------------------------------------------------ subscripts
    def ev_Subscript(self, node, st, fr):
        for s1, base in self.ev(node.value, st, fr):
            for s2, idx in self.ev(node.slice, s1, fr):
                yield s2, self.subscript(base, idx, s2, fr, node)

    def subscript(self, base, idx, st, fr, node=None):
        if isinstance(base, Poison) or isinstance(idx, Poison):
            return POISON
        if isinstance(base, tuple):
            if isinstance(idx, SliceV):
                if all(x is None or isinstance(x, int) for x in (idx.start, idx.stop, idx.step)):
                    return base[slice(idx.start, idx.stop, idx.step)]
                raise Unsupported("symbolic slice of tuple", node)
            c = as_const(idx) if is_sym(idx) else idx
            if isinstance(c, int) and not isinstance(c, bool):
                if not (-len(base) <= c < len(base)):
                    self.oblige(st, False, "safety", "tuple-index", node, fr)
                    return self.kill(st, "tuple index out of range")
                return base[c]
            raise Unsupported("symbolic tuple index", node)
        if isinstance(base, str):
            if isinstance(idx, SliceV) and all(x is None or isinstance(x, int) for x in (idx.start, idx.stop, idx.step)):
                return base[slice(idx.start, idx.stop, idx.step)]
            if isinstance(idx, int):
                return base[idx]
            raise Unsupported("symbolic index into string", node)
        if kind_of(base) == "str" and is_sym(base):
            if isinstance(idx, SliceV) and idx.step is None and idx.stop is None and isinstance(idx.start, int) and idx.start >= 0:
                return z3.SubString(base, idx.start, z3.Length(base) - idx.start)
            raise Unsupported("index into a symbolic string other than s[k:]", node)
        if kind_of(base) == "z3array":
            if isinstance(idx, tuple):
                return base[tuple(to_z3(i, "int") for i in idx)] if len(idx) != 2 else z3.Select(base, to_z3(idx[0], "int"), to_z3(idx[1], "int"))
            return base[to_z3(idx, "int")]
        if isinstance(base, SpecArr):
            return base.get(self, idx, st, fr)
        if isinstance(base, Ref):
            h = st.get(base)
            if isinstance(h, HList):
                return self.list_subscript(base, h, idx, st, fr, node)
            if isinstance(h, HObj):
                if isinstance(idx, (str, int)) and not isinstance(idx, bool):
                    if idx in h.items:
                        return h.items[idx]
                    if not fr.spec:
                        self.oblige(st, False, "safety", "key-present:%s" % idx, node, fr)
                    return self.kill(st, "missing key")
                raise Unsupported("symbolic dict key", node)
            if isinstance(h, HStruct):
                return self.struct_subscript(base, h, idx, st, fr, node)
            if type(h).__name__ == "HBO":
                return self.bo_subscript(base, h, idx, st, fr, node)
            if isinstance(h, HViewList):
                j = self.index_ok(st, h.n, idx, fr, node)
                hb = st.get(h.base)
                return st.alloc(HArr(hb.kind, h.ln[to_z3(j, "int")], None, base=(h.base, h.off[to_z3(j, "int")], 1),
                                     fresh=hb.fresh))
            if isinstance(h, (HArr, HArr2)):
                return self.arr_subscript(base, h, idx, st, fr, node)
        from .values import FieldType
        if isinstance(base, FieldType):
            if isinstance(base.code, z3.ExprRef) and base.code.sort() == z3.StringSort():
                return self.subscript(base.code, idx, st, fr, node)
            raise Unsupported("indexing a type code that is not a string", node)
        from .prims import StrArr
        if isinstance(base, StrArr):
            c = as_const(idx) if is_sym(idx) else idx
            if isinstance(c, int) and -len(base.items) <= c < len(base.items):
                return base.items[c]
            raise Unsupported("symbolic index into an array of names", node)
        if isinstance(base, dict):
            return base[idx]
        if isinstance(base, Opaque):
            return Opaque(base.tag + "[]")
        raise Unsupported("subscript of %s" % kind_of(base), node)

    def list_subscript(self, base, h, idx, st, fr, node):
        n = len(h.items)
        if isinstance(idx, SliceV):
            if all(x is None or isinstance(x, int) for x in (idx.start, idx.stop, idx.step)):
                return st.alloc(HList(h.items[slice(idx.start, idx.stop, idx.step)]))
            raise Unsupported("symbolic slice of concrete list", node)
        c = as_const(idx) if is_sym(idx) else idx
        if isinstance(c, int):
            if not (-n <= c < n):
                if not fr.spec:
                    self.oblige(st, False, "safety", "index", node, fr)
                return self.kill(st, "list index out of range")
            return h.items[c]
        # symbolic index into concrete list of scalars
        if not fr.spec:
            self.oblige(st, zand(to_z3(idx) >= 0, to_z3(idx) < n), "safety", "index", node, fr)
        if n == 0:
            return self.kill(st, "index into empty list")
        r = h.items[n - 1]
        for k in range(n - 2, -1, -1):
            r = self.ite(to_z3(idx) == k, h.items[k], r, node)
        return r

    # ------------------------------------------------------------ comprehension / quantifiers
    def ev_GeneratorExp(self, node, st, fr):
        yield st, GenExp(node)

    def ev_ListComp(self, node, st, fr):
        # only over concrete iterables
        items = []
        for env_s, in self.comp_iter(node.generators, st, fr):
            fr2 = env_s
            v = self.ev1(node.elt, st, fr2)
            items.append(v)
        yield st, st.alloc(HList(items))

    def comp_iter(self, gens, st, fr):
        """iterate a comprehension over concrete iterables; yields frames with qvars bound"""
        def rec(k, fr_):
            if k == len(gens):
                yield (fr_,)
                return
            g = gens[k]
            it = self.ev1(g.iter, st, fr_)
            seq = self.concrete_iter(it, st, g)
            for item in seq:
                fr2 = self.sub_frame(fr_)
                self.bind_q(g.target, item, fr2)
                ok = True
                for cond in g.ifs:
                    c = self.ev1(cond, st, fr2)
                    t = truth(c)
                    if not isinstance(t, bool):
                        raise Unsupported("symbolic filter in comprehension", g)
                    ok = ok and t
                if ok:
                    yield from rec(k + 1, fr2)
        yield from rec(0, fr)

    def sub_frame(self, fr):
        import copy
        f2 = copy.copy(fr)
        f2.qvars = dict(fr.qvars)
        return f2

    def bind_q(self, target, item, fr):
        if isinstance(target, ast.Name):
            fr.qvars[target.id] = item
        elif isinstance(target, ast.Tuple):
            for t, v in zip(target.elts, item):
                self.bind_q(t, v, fr)
        else:
            raise Unsupported("comprehension target", target)

    def concrete_iter(self, it, st, node=None):
        if isinstance(it, RangeV):
            lo, hi, step = (as_const(x) if is_sym(x) else x for x in (it.lo, it.hi, it.step))
            if None in (lo, hi, step):
                # a bound that the path condition pins to a literal (e.g. a precondition  shape0(a) == 3)
                def pinned(x):
                    if not is_sym(x):
                        return x
                    facts = list(st.pc)
                    while facts:
                        f = facts.pop()
                        if z3.is_and(f):
                            facts.extend(f.children())
                            continue
                        if z3.is_eq(f):
                            a, b = f.arg(0), f.arg(1)
                            if a.eq(x) and z3.is_int_value(b):
                                return b.as_long()
                            if b.eq(x) and z3.is_int_value(a):
                                return a.as_long()
                    return None
                lo, hi, step = pinned(it.lo), pinned(it.hi), pinned(it.step)
            if None in (lo, hi, step):
                raise Unsupported("symbolic range in concrete iteration", node)
            return list(range(lo, hi, step))
        if isinstance(it, (tuple, list)):
            return list(it)
        if isinstance(it, Ref):
            h = st.get(it)
            if isinstance(h, HList):
                return list(h.items)
            if isinstance(h, HObj):
                return list(h.items.keys())
            if isinstance(h, HArr):
                n = as_const(to_z3(h.n))
                if n is not None:
                    return [self.arr_get(st, it, k) for k in range(n)]
        if isinstance(it, EnumV):
            return [(k + it.start, x) for k, x in enumerate(self.concrete_iter(it.inner, st, node))]
        if isinstance(it, ZipV):
            return list(zip(*[self.concrete_iter(x, st, node) for x in it.inners]))
        if isinstance(it, dict):
            return list(it.keys())
        raise Unsupported("iteration over %s" % kind_of(it), node)

    def quantify(self, gen, st, fr, universal):
        """all(...)/any(...) over a generator expression"""
        node = gen.node
        # try a concrete expansion first
        try:
            vals = []
            for (fr2,) in self.comp_iter(node.generators, st, fr):
                vals.append(truth(self.ev1(node.elt, st, fr2)))
            return zand(*vals) if universal else zor(*vals)
        except Unsupported:
            if not fr.spec:
                raise
        # symbolic quantifier (spec mode): for i in range(lo, hi)
        fr2 = self.sub_frame(fr)
        bound, guards = [], []
        for g in node.generators:
            if not isinstance(g.target, ast.Name):
                raise SpecError("quantifier target must be a name")
            it = self.ev1(g.iter, st, fr2)
            if not isinstance(it, RangeV):
                raise SpecError("quantifier must range over range(...)")
            v = z3.Int("%s!q%d" % (g.target.id, next(_qc)))
            fr2.qvars[g.target.id] = v
            bound.append(v)
            guards.append(v >= to_z3(it.lo, "int"))
            guards.append(v < to_z3(it.hi, "int"))
            sc = as_const(it.step) if is_sym(it.step) else it.step
            if sc != 1:
                raise SpecError("quantifier range step must be 1")
            for cond in g.ifs:
                guards.append(to_z3(truth(self.ev1(cond, st, fr2))))
        body = to_z3(truth(self.ev1(node.elt, st, fr2)))
        if universal:
            full = z3.Implies(z3.And(*guards), body)
            pats = _select_patterns(full, bound) if len(bound) == 1 and _has_lambda(full) else []
            if pats:
                # bodies that contain lambda terms (gathered / sliced arrays) defeat z3's pattern inference and MBQI:
                # instantiate on every plain array cell indexed by the bound variable
                try:
                    return z3.ForAll(bound, full, patterns=pats)
                except z3.Z3Exception:
                    pass
            return z3.ForAll(bound, full)
        return z3.Exists(bound, z3.And(*(guards + [body])))


def _has_lambda(t, seen=None):
    seen = set() if seen is None else seen
    if t.get_id() in seen:
        return False
    seen.add(t.get_id())
    if z3.is_quantifier(t):
        return t.is_lambda() or _has_lambda(t.body(), seen)
    return any(_has_lambda(c, seen) for c in t.children())


def _select_patterns(t, bound):
    """instantiation patterns A[k] for the arrays that are read at the bound index only.  An array that is also read at k+1
    or at a computed index (rev[k+1], rev[rev[k]]) is not used: each instance would create a new matching term (a matching
    loop).  Falls back to z3's own inference when no such array exists."""
    v = bound[0]
    good, bad, seen = {}, set(), set()

    def walk(x):
        if x.get_id() in seen:
            return
        seen.add(x.get_id())
        if z3.is_quantifier(x):
            walk(x.body())
            return
        if z3.is_select(x) and x.num_args() == 2 and z3.is_const(x.arg(0)) and x.arg(0).decl().kind() == z3.Z3_OP_UNINTERPRETED:
            name = x.arg(0).decl().name()
            if x.arg(1).eq(v):
                good.setdefault(name, x)
            else:
                bad.add(name)
        for c in x.children():
            walk(c)
    walk(t)
    return [x for n, x in good.items() if n not in bad][:6]


import itertools
_qc = itertools.count()


class Poison:
    """value on a path that has already failed a safety obligation (the path is dead)"""

    def __repr__(self):
        return "<poison>"


POISON = Poison()


class GenExp:
    def __init__(self, node):
        self.node = node


class RangeV:
    def __init__(self, lo, hi, step=1):
        self.lo, self.hi, self.step = lo, hi, step


class EnumV:
    def __init__(self, inner, start=0):
        self.inner, self.start = inner, start


class ZipV:
    def __init__(self, inners):
        self.inners = inners


class ModuleExprT:
    pass


class ModuleExpr(ModuleExprT):
    def __init__(self, mod, node):
        self.mod, self.node = mod, node


class SpecArr:
    """a spec-level array value (content term + length + optional origin ghost)"""

    def __init__(self, kind, n, data, org=None):
        self.kind, self.n, self.data, self.org = kind, n, data, org

    def get(self, eng, idx, st, fr):
        if isinstance(idx, SliceV):
            raise SpecError("slice of spec array")
        return self.data[to_z3(idx, "int")]
