#!/bin/sh
# offline set-up: unpack pure-python helpers, byte-compile, pre-build the extension cache for the current tree
set -e
cd /verif
mkdir -p .deps .cache evidence replays
if [ ! -d .deps/mpmath ]; then
  W=$(ls /opt/veriftools/wheels/mpmath-*.whl 2>/dev/null | head -1)
  if [ -n "$W" ]; then python3 -c "import zipfile,sys; zipfile.ZipFile(sys.argv[1]).extractall('/verif/.deps')" "$W"; fi
fi
python3-vt -m compileall -q esvc specs >/dev/null 2>&1 || true
python3-vt -c "
import sys; sys.path.insert(0,'/verif')
from esvc.check import prepare_scratch
import shutil
s = prepare_scratch('/repo'); shutil.rmtree(s, ignore_errors=True)
print('extension cache ready')
"
