#!/usr/bin/env python3
"""confirm a seeded change (demo passes clean / fails patched / suite passes) and run a property check against it.

usage: seed_eval.py <seed dir with patch.diff demo.py meta.json> <name> [--no-suite]
The patch is applied to /repo only for the duration of the check and reverted straight afterwards."""
import json
import os
import shutil
import subprocess
import sys
import time

src, name = sys.argv[1], sys.argv[2]
nosuite = "--no-suite" in sys.argv
meta = json.load(open(os.path.join(src, "meta.json")))
prop = meta["property"]
dst = os.path.join("/verif/seeded", name)
os.makedirs(dst, exist_ok=True)
for f in ("patch.diff", "demo.py", "meta.json"):
    shutil.copy(os.path.join(src, f), os.path.join(dst, f))
patch = os.path.join(dst, "patch.diff")


def sh(cmd, cwd=None, timeout=3000):
    r = subprocess.run(cmd, shell=True, cwd=cwd, capture_output=True, text=True, timeout=timeout)
    return r.returncode, (r.stdout + r.stderr)


touches_c = any(x.endswith((".c", ".cc", ".cpp", ".h", ".hpp")) for x in meta.get("files", [])) or \
    any(l.startswith("+++") and l.strip().endswith((".c", ".cc", ".cpp", ".h")) for l in open(patch))
wt = "/tmp/seedchk-%d" % os.getpid()
ran = {}
try:
    sh("git -C /repo worktree add -q --detach %s HEAD" % wt)
    sh("cd /repo && find esutil -name '*.so' | while read f; do cp $f %s/$f; done" % wt)
    os.makedirs(wt + "/SEEDX")
    shutil.copy(os.path.join(dst, "demo.py"), wt + "/SEEDX/demo.py")
    rc0, out0 = sh("/venv/bin/python SEEDX/demo.py", cwd=wt)
    ran["demo_clean"] = dict(rc=rc0, tail=out0[-300:])
    rc, out = sh("git apply %s" % patch, cwd=wt)
    ran["apply"] = dict(rc=rc, tail=out[-300:])
    if rc == 0 and touches_c:
        rcb, outb = sh("/venv/bin/python setup.py build_ext --inplace -j16", cwd=wt)
        ran["build"] = dict(rc=rcb)
    rc1, out1 = sh("/venv/bin/python SEEDX/demo.py", cwd=wt)
    ran["demo_patched"] = dict(rc=rc1, tail=out1[-300:])
    if not nosuite:
        rcs, outs = sh("/venv/bin/python -m pytest -q -p no:cacheprovider --timeout=900 esutil/tests 2>&1 | tail -3", cwd=wt)
        ran["suite_patched"] = dict(tail=outs[-200:])
finally:
    sh("git -C /repo worktree remove --force %s" % wt)
    shutil.rmtree(wt, ignore_errors=True)
confirmed = ran["demo_clean"]["rc"] == 0 and ran.get("apply", {}).get("rc") == 0 and ran["demo_patched"]["rc"] != 0 and \
    (nosuite or ("passed" in ran["suite_patched"]["tail"] and "failed" not in ran["suite_patched"]["tail"]))
# run the check against the change
t0 = time.time()
rc, out = sh("git -C /repo apply %s" % patch)
ev = "/verif/evidence/%s.json" % prop
evbak = open(ev).read() if os.path.exists(ev) else None     # the committed evidence must come from the unchanged tree
try:
    rcc, outc = sh("cd /verif && python3-vt -m esvc.check %s --tier quick" % prop, timeout=3000)
finally:
    sh("git -C /repo checkout -- . ")
    if evbak is not None:
        open(ev, "w").write(evbak)
viol = [l for l in outc.splitlines() if l.startswith("VIOLATION")]
meta.update(confirmed=confirmed, ran=ran, check=dict(cmd="python3-vt -m esvc.check %s --tier quick" % prop, exit=rcc,
                                                       violations=viol[:6], detail=[l for l in outc.splitlines() if l.startswith("   ")][:6],
                                                       undecided=[l for l in outc.splitlines() if l.startswith("UNDECIDED")][:4],
                                                       wall_s=round(time.time() - t0, 1)))
json.dump(meta, open(os.path.join(dst, "meta.json"), "w"), indent=1)
print("%s confirmed=%s check-exit=%s violations=%d  %.0fs" % (name, confirmed, rcc, len(viol), time.time() - t0))
for l in viol[:3] + meta["check"]["detail"][:3] + meta["check"]["undecided"][:3]:
    print("    " + l[:220])
if not confirmed:
    print("    NOT CONFIRMED:", json.dumps(ran)[:600])
